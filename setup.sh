#!/bin/sh
# Offline setup: nothing to build; verify the tools are there and every specification module parses.
cd "$(dirname "$0")" || exit 2
command -v java >/dev/null || { echo "java missing"; exit 2; }
[ -f /opt/veriftools/tla/tla2tools.jar ] || { echo "tla2tools.jar missing"; exit 2; }
/venv/bin/python -c "import stix2, sys; sys.exit(0)" || { echo "stix2 not importable from /venv"; exit 2; }
fail=0
for f in spec/*.tla; do
  out=$(cd spec && java -cp /opt/veriftools/tla/tla2tools.jar:/opt/veriftools/tla/CommunityModules-deps.jar tla2sany.SANY "$(basename "$f")" 2>&1)
  if echo "$out" | grep -q "Semantic errors\|Parse Error\|Could not\|Fatal\|\*\*\* Errors"; then echo "SANY failed: $f"; echo "$out" | tail -5; fail=1; fi
done
[ $fail = 0 ] && echo "setup ok: $(ls spec/*.tla | wc -l) modules parse"
exit $fail
