#!/bin/sh
# g7_one.sh <ID> [tag] : confirm the delivered change of a seeding agent (tools/confirm_seed7.sh) unless already kept, keep it under the next free letter, and run the quick
# check of its property on it in a scratch worktree (tools/run_on_seed_wt.sh).  Output: /tmp/g7/<ID>.log
ID=$1; G=${2:-g7}; mkdir -p /tmp/g7
N=$(echo ${2:-g7} | tr -d g); K=$(grep -l "\"generation\": $N" /verif/seeded/$ID?/meta.json 2>/dev/null | head -1)
if [ -n "$K" ]; then S=$(basename $(dirname $K)); : > /tmp/g7/$ID.log; else
  L=$(/verif/tools/next_letter.sh $ID); S=$ID$L
  /verif/tools/confirm_seed7.sh $ID $L $G > /tmp/g7/$ID.log 2>&1
fi
[ -d /verif/seeded/$S ] && /verif/tools/run_on_seed_wt.sh $S quick $ID >> /tmp/g7/$ID.log 2>&1
echo "$S: $(grep -c VIOLATION /tmp/g7/$ID.log) violation lines; $(grep '== seed\|NOT CONFIRMED\|does not apply' /tmp/g7/$ID.log | cut -c1-200)"
