#!/bin/sh
# seed_matrix_wt.sh [tier] [parallel] : every confirmed seeded change, each in its own scratch worktree of /repo's HEAD (so /repo itself is left alone and several run at once),
# against the check of the property it breaks.  One line per seed, same format as seed_matrix.sh.
T=${1:-quick}; P=${2:-4}
ls /verif/seeded | grep -E '^C[0-9]+[A-Z]$' | xargs -P $P -I{} sh /verif/tools/seed_one.sh {} $T
