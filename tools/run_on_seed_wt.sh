#!/bin/sh
# run_on_seed_wt.sh <seed dir name under /verif/seeded> <tier> <check id>... : as run_on_seed.sh, but in a scratch worktree of /repo's HEAD (under /tmp), leaving /repo and
# /verif/evidence alone - usable while other checks are running against /repo.  The worktree and the output directory are removed afterwards.
S=/verif/seeded/$1; T=$2; shift 2
W=/tmp/seedwt.$$; O=/tmp/seedout.$$
git -C /repo worktree add -q --detach $W HEAD || exit 2
P=$S/patch.diff; [ -f $S/patch_rebased.diff ] && P=$S/patch_rebased.diff
if git -C $W apply $P; then
  for c in "$@"; do
    out=$(VERIF_REPO=$W VERIF_OUT=$O /verif/check $c --tier $T 2>&1); rc=$?
    echo "== seed $(basename $S) check $c tier $T exit=$rc"
    echo "$out" | grep "VIOLATION\|MACHINERY" | cut -c1-400 | head -4
  done
else echo "== seed $(basename $S) PATCH-DOES-NOT-APPLY"; fi
git -C /repo worktree remove --force $W; rm -rf $O
