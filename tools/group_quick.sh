#!/bin/sh
# group_quick.sh <group> [seed...] : quick tier of every check sharing a pipeline, on the unchanged tree (output kept apart from /verif/evidence). Groups: om (C01 C02 C03 C04 C17),
# ds (C11 C12 C18), mk (C07 C08), pt (C09 C10), all
case $1 in om) C="C01 C02 C03 C04 C17";; ds) C="C11 C12 C18";; mk) C="C07 C08";; pt) C="C09 C10";; all) C="C01 C02 C03 C04 C05 C06 C07 C08 C09 C10 C11 C12 C13 C14 C15 C16 C17 C18 C19 C20";; *) C="$1";; esac
shift; S=${*:-0}
for s in $S; do for c in $C; do out=$(VERIF_SEED=$s VERIF_OUT=/tmp/groupq.$$ /verif/check $c --tier quick 2>&1); rc=$?; echo "seed=$s $c exit=$rc $(echo "$out" | grep "VIOLATION\|MACHINERY" | head -2 | cut -c1-200)"; done; done
rm -rf /tmp/groupq.$$
