#!/bin/sh
# seed_matrix.sh [tier] : for every confirmed seeded change, apply it to /repo, run the check of the property it breaks, undo.  Prints one line per seed.
T=${1:-quick}
cd /verif
for d in seeded/*/; do
  s=$(basename $d)
  p=$(python3 -c "import json;print(json.load(open('$d/meta.json'))['property'])")
  cd /repo && git diff --quiet || { echo "/repo not clean"; exit 2; }
  P=/verif/$d/patch.diff; [ -f /verif/$d/patch_rebased.diff ] && P=/verif/$d/patch_rebased.diff
  if ! git -C /repo apply $P 2>/dev/null; then echo "seed=$s property=$p PATCH-DOES-NOT-APPLY"; continue; fi
  cd /verif
  out=$(./check $p --tier $T 2>&1); rc=$?
  n=$(echo "$out" | grep -c "^VIOLATION")
  first=$(echo "$out" | grep "^VIOLATION" | head -1 | sed 's/.*# //' | cut -c1-220)
  echo "seed=$s property=$p exit=$rc violations=$n first=$first"
  git -C /repo checkout -- .
done
git -C /verif checkout -- evidence 2>/dev/null
