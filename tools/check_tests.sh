#!/bin/sh
# usage: check_tests.sh <worktree>   -- runs the pinned test suite in the worktree and compares with the baseline pass list
W="$1"; cd "$W" || exit 2
J=$(mktemp /tmp/junit.XXXXXX.xml)
/venv/bin/python -m pytest -q -p no:cacheprovider --timeout=900 --continue-on-collection-errors --junitxml=$J >/dev/null 2>&1
/venv/bin/python - "$W" $J <<'PY'
import json, sys, xml.etree.ElementTree as ET
base = set(json.load(open('/root/.vp/BASELINE.json'))['stable_pass'])
t = ET.parse(sys.argv[2]).getroot()
passed = set()
for tc in t.iter('testcase'):
    if not any(c.tag in ('failure','error','skipped') for c in tc):
        passed.add(tc.get('classname') + '::' + tc.get('name'))
missing = sorted(base - passed)
print("baseline stable_pass: %d, passing now: %d, baseline tests no longer passing: %d" % (len(base), len(passed), len(missing)))
for m in missing[:20]: print("  BROKEN:", m)
sys.exit(1 if missing else 0)
PY
rc=$?; rm -f $J; exit $rc
