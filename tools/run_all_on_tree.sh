#!/bin/sh
# run_all_on_tree.sh <checkout> [seed] [checks...] : quick tier of every check (or the listed ones) against another checkout of the library (VERIF_REPO), output kept
# apart from /verif/evidence (VERIF_OUT). Used for the property-preserving ("benign") changes of DESIGN §0.5b: every line must say exit=0.
W=$1; s=${2:-0}; shift; shift 2>/dev/null
C=${*:-C01 C02 C03 C04 C05 C06 C07 C08 C09 C10 C11 C12 C13 C14 C15 C16 C17 C18 C19 C20}
O=/tmp/treeout.$$
for c in $C; do out=$(VERIF_SEED=$s VERIF_REPO=$W VERIF_OUT=$O /verif/check $c --tier quick 2>&1); rc=$?; echo "tree=$W seed=$s $c exit=$rc $(echo "$out" | grep "VIOLATION\|MACHINERY" | head -3 | cut -c1-300)"; done
rm -rf $O
