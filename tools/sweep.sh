#!/bin/sh
# sweep.sh <tier> <seed>... : run every claimed check with each seed; print the ones that do not exit 0
cd "$(dirname "$0")/.." || exit 2
T=$1; shift
for s in "$@"; do
  for c in $(python3 -c "import json; print(' '.join(x['property_id'] for x in json.load(open('MANIFEST.json'))['checks']))"); do
    out=$(VERIF_SEED=$s ./check $c --tier $T 2>&1); rc=$?
    if [ $rc != 0 ]; then echo "== seed=$s $c exit=$rc"; echo "$out" | grep "VIOLATION\|MACHINERY" | cut -c1-400 | head -5; else echo "ok seed=$s $c $(echo "$out" | tail -1 | sed 's/.*wall=/wall=/')"; fi
  done
done
