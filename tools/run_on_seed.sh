#!/bin/sh
# run_on_seed.sh <seed dir name under /verif/seeded> <tier> <check id>... : apply the seeded change to /repo, run checks, undo
S=/verif/seeded/$1; T=$2; shift 2
cd /repo && git diff --quiet || { echo "/repo not clean"; exit 2; }
P=$S/patch.diff; [ -f $S/patch_rebased.diff ] && P=$S/patch_rebased.diff
git -C /repo apply $P || exit 2
cd /verif
for c in "$@"; do
  out=$(./check $c --tier $T 2>&1); rc=$?
  echo "== seed $(basename $S) check $c tier $T exit=$rc"
  echo "$out" | grep "VIOLATION\|KNOWN-FINDING\|MACHINERY" | cut -c1-400 | head -8
done
git -C /repo checkout -- .
git -C /verif checkout -- evidence 2>/dev/null
