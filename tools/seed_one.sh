# seed_one.sh <seed> <tier> : helper of seed_matrix_wt.sh (sourced)
s=$1; T=$2
p=$(python3 -c "import json;print(json.load(open('/verif/seeded/$s/meta.json'))['property'])")
W=/tmp/seedwt.$s; O=/tmp/seedout.$s
if git -C /repo worktree add -q --detach $W HEAD 2>/dev/null; then
  PF=/verif/seeded/$s/patch.diff; [ -f /verif/seeded/$s/patch_rebased.diff ] && PF=/verif/seeded/$s/patch_rebased.diff
  if git -C $W apply $PF 2>/dev/null; then
    out=$(VERIF_REPO=$W VERIF_OUT=$O /verif/check $p --tier $T 2>&1); rc=$?
    n=$(echo "$out" | grep -c "^VIOLATION")
    first=$(echo "$out" | grep "^VIOLATION" | head -1 | sed 's/.*# //' | cut -c1-220)
    echo "seed=$s property=$p exit=$rc violations=$n first=$first"
  else echo "seed=$s property=$p PATCH-DOES-NOT-APPLY"; fi
  git -C /repo worktree remove --force $W; rm -rf $O
else echo "seed=$s property=$p WORKTREE-FAILED"; fi
