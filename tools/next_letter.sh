#!/bin/sh
# next_letter.sh <ID> : first letter not yet used under /verif/seeded/<ID>?
for l in A B C D E F G H I J K L M N O P; do [ -d /verif/seeded/$1$l ] || { echo $l; exit 0; }; done
