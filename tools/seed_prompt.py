#!/venv/bin/python
"""seed_prompt.py <tag> <property id>... : prepares one seeding task per property for a fresh sub-agent.

For each property: a scratch worktree of /repo's HEAD at /tmp/wt/<tag><ID>, an empty output directory /tmp/wt/<tag><ID>.out and a prompt file
/tmp/props/prompt_<tag><ID>.txt that contains nothing from /verif but the text of the property and one-line summaries of the *changes* earlier agents already delivered
(so that the new one differs).  The agent is started with: "Read the file /tmp/props/prompt_<tag><ID>.txt in full and follow its instructions exactly."
Confirmation afterwards: tools/confirm_seed7.sh <ID> <letter> <tag>.
"""
import glob
import json
import os
import subprocess
import sys

tag = sys.argv[1]
ids = sys.argv[2:]
props = {json.loads(l)["id"]: json.loads(l) for l in open("/verif/properties.jsonl")}
os.makedirs("/tmp/props", exist_ok=True)
os.makedirs("/tmp/wt", exist_ok=True)
base = json.load(open("/root/.vp/BASELINE.json"))

for pid in ids:
    p = props[pid]
    wt = "/tmp/wt/%s%s" % (tag, pid)
    out = wt + ".out"
    if not os.path.isdir(wt):
        subprocess.check_call(["git", "-C", "/repo", "worktree", "add", "-q", "--detach", wt, "HEAD"])
    os.makedirs(out, exist_ok=True)
    earlier = []
    for m in sorted(glob.glob("/verif/seeded/%s?/meta.json" % pid)):
        try:
            earlier.append("- " + json.load(open(m)).get("summary", "").strip().replace("\n", " ")[:260])
        except Exception:
            pass
    text = """You are helping to evaluate how well a verification effort detects realistic regressions in the Python library oasis-open/cti-python-stix2.

YOUR WORKSPACE
* A scratch git worktree of the library: {wt}   (work ONLY there; run the library with  PYTHONPATH={wt} /venv/bin/python ...)
* Write your deliverables to: {out}/
* Never read or write anything under /repo or /verif. Never use `git stash` (stashes are shared between worktrees). Do not edit, add or delete tests under stix2/test.
* No network is available. /venv/bin/python has the library's dependencies.

THE PROPERTY (of the library, as its users rely on it)
{pid}: {title}
{statement}

YOUR TASK
Devise ONE change to the library's source (not its tests) that BREAKS this property, such that
 1. the library still imports and the existing test-suite still passes completely:
       cd {wt} && /venv/bin/python -m pytest -q -p no:cacheprovider --timeout=900 --continue-on-collection-errors stix2/test 2>&1 | tail -3
    (about 1 minute. On the UNCHANGED library this ends "45 failed, 2433 passed, ... 2 errors": taxii2client, rapidfuzz and haversine are not installed here. With your
    change the same tests must fail and the same 2433 must pass -- compare the lists of failing test ids, not only the counts);
 2. the change looks like something a maintainer could plausibly commit by mistake (a refactoring, an optimisation, a cache, a changed default, an off-by-one,
    a reordered step, a too-narrow or too-broad condition) -- not sabotage, not a special case on a magic value;
 3. it needs something SPECIFIC to manifest -- a multi-step sequence of operations, state surviving from an earlier call, an unusual but legal input, a particular
    combination of options, or two cooperating sites that each look fine alone -- and is NOT exposed by ordinary one-call use of the library.
    Prefer code paths and input shapes that the earlier changes listed below did not touch.
 4. Write a demonstration {out}/demo.py : a small stand-alone program (uses only the library and the standard library; takes the library from PYTHONPATH) that
    exits 0 on the unchanged library and exits non-zero (printing what went wrong) with your change applied. It must be deterministic.

Changes that earlier agents already delivered for this property (do something DIFFERENT in kind and in place):
{earlier}

DELIVERABLES in {out}/
* patch.diff  -- output of `git -C {wt} diff` (must apply with `git apply` to a clean checkout of the worktree's HEAD)
* demo.py     -- as above
* meta.json   -- {{"property": "{pid}", "summary": "<what the change does, 1-3 sentences>", "needs": "<what is needed for it to manifest>", "files": ["<changed files>"],
                  "tests_checked": "<last line of the pytest run with the change>"}}
Before you finish: run demo.py with and without the change yourself (exit codes 1 / 0), run the test-suite with the change, then leave the worktree clean
(`git -C {wt} checkout -- .`).

If, while reading the code, you notice that the UNCHANGED library already violates the property for some input, describe it briefly (input and observed behaviour) in
{out}/asides.txt -- that is valuable too -- but still deliver a change as described.
Your final message should say in three lines what you changed and what it needs to manifest.
""".format(wt=wt, out=out, pid=pid, title=p.get("title", ""), statement=p.get("statement", ""), earlier="\n".join(earlier) or "- (none)")
    open("/tmp/props/prompt_%s%s.txt" % (tag, pid), "w").write(text)
    print("prepared", pid, wt)
