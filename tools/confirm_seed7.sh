#!/bin/sh
# confirm_seed7.sh <ID> <letter> [tag=g7] : confirms a seeded change delivered in /tmp/wt/<tag><ID>.out (patch.diff, demo.py, meta.json) in the
# scratch worktree /tmp/wt/<tag><ID>: the patch applies to HEAD, the pinned suite keeps its stable passes, demo.py exits 0 without and non-zero with the change.
ID=$1; V=$2; G=${3:-g7}; W=/tmp/wt/$G$ID; S=/tmp/wt/$G$ID.out; D=/verif/seeded/$ID$V
cd $W || exit 2
git checkout -q -- . && git clean -fdq
git apply --check $S/patch.diff || { echo "patch does not apply"; exit 1; }
PYTHONPATH=$W /venv/bin/python $S/demo.py >/tmp/demo_pre.$$ 2>&1; pre=$?
git apply $S/patch.diff
t=$(/verif/tools/check_tests.sh $W | head -1)
PYTHONPATH=$W /venv/bin/python $S/demo.py >/tmp/demo_post.$$ 2>&1; post=$?
git checkout -q -- . && git clean -fdq
echo "$ID$V: demo pristine exit=$pre, with change exit=$post; tests: $t"
if [ $pre = 0 ] && [ $post != 0 ] && echo "$t" | grep -q "no longer passing: 0"; then
  mkdir -p $D && cp $S/patch.diff $S/demo.py $D/ && /venv/bin/python - "$S/meta.json" "$D/meta.json" "$t" "$(tail -3 /tmp/demo_post.$$)" "${G#g}" <<'PY'
import json, sys
m = json.load(open(sys.argv[1]))
m["generation"] = int(sys.argv[5])
m["confirmed"] = {"tests": sys.argv[3], "demo_exit_pristine": 0, "demo_exit_with_change": "non-zero", "demo_output_with_change_tail": sys.argv[4],
                  "how": "tools/confirm_seed7.sh: git apply in a scratch worktree, pinned test suite compared with BASELINE stable_pass, demo.py run with and without the change"}
json.dump(m, open(sys.argv[2], "w"), indent=1)
PY
  echo "kept as $D"
else
  echo "NOT CONFIRMED"; tail -5 /tmp/demo_pre.$$ /tmp/demo_post.$$
fi
rm -f /tmp/demo_pre.$$ /tmp/demo_post.$$
