"""Concrete material: minimal valid constructor arguments for the versionable built-in types of both
spec versions, and for each a mapping of the model's three abstract property roles
(name = required, description / aliases = optional) to a real property with two distinct values."""
import datetime as dt

BASE = dt.datetime(2020, 1, 1, 0, 0, 0, tzinfo=dt.timezone.utc)
ID = "%s--%08x-1111-4111-8111-111111111111"
ER_A = [{"source_name": "s", "external_id": "1"}]
ER_B = [{"source_name": "s", "external_id": "1"}, {"source_name": "t", "url": "http://x.example/"}]
REF = {"campaign": ID % ("campaign", 1), "malware": ID % ("malware", 2), "identity": ID % ("identity", 3),
       "indicator": ID % ("indicator", 4), "observed-data": ID % ("observed-data", 5), "identity2": ID % ("identity", 6),
       "malware2": ID % ("malware", 7)}
TS = "2019-06-01T00:00:00Z"


def us(n):
    return BASE + dt.timedelta(microseconds=n)


def rel_us(d):
    """datetime (aware) or text -> microseconds relative to BASE, by integer arithmetic on the fields"""
    if isinstance(d, str):
        d = parse_ts(d)
    if d.tzinfo is None:
        d = d.replace(tzinfo=dt.timezone.utc)
    delta = d - BASE
    return delta.days * 86400 * 10 ** 6 + delta.seconds * 10 ** 6 + delta.microseconds


def parse_ts(s):
    """independent reader for canonical timestamp text"""
    import re
    m = re.match(r"^(\d{4})-(\d\d)-(\d\d)T(\d\d):(\d\d):(\d\d)(?:\.(\d{1,6}))?Z$", s)
    if not m:
        raise ValueError("not canonical timestamp text: %r" % s)
    y, mo, d, h, mi, sec = (int(x) for x in m.groups()[:6])
    frac = int((m.group(7) or "0").ljust(6, "0"))
    return dt.datetime(y, mo, d, h, mi, sec, frac, tzinfo=dt.timezone.utc)


# type -> (class name, base kwargs, roles {role: (prop, value_a, value_b)})
def _t(cls, base, name, desc=("description", "d-a", "d-b"), al=("external_references", ER_A, ER_B)):
    return cls, base, {"name": name, "description": desc, "aliases": al}


V21 = {
    "attack-pattern": _t("AttackPattern", {}, ("name", "n-a", "n-b")),
    "campaign": _t("Campaign", {}, ("name", "n-a", "n-b"), al=("aliases", ["x"], ["x", "y"])),
    "course-of-action": _t("CourseOfAction", {}, ("name", "n-a", "n-b")),
    "grouping": _t("Grouping", {"object_refs": [REF["malware"]]}, ("context", "suspicious-activity", "malware-analysis")),
    "identity": _t("Identity", {}, ("name", "n-a", "n-b")),
    "incident": _t("Incident", {}, ("name", "n-a", "n-b")),
    "indicator": _t("Indicator", {"pattern_type": "stix", "valid_from": TS}, ("pattern", "[file:name = 'a']", "[file:name = 'b']")),
    "infrastructure": _t("Infrastructure", {}, ("name", "n-a", "n-b")),
    "intrusion-set": _t("IntrusionSet", {}, ("name", "n-a", "n-b")),
    "location": _t("Location", {"country": "us"}, ("region", "northern-america", "caribbean"), al=("labels", ["x"], ["x", "y"])),
    "malware": _t("Malware", {"name": "m"}, ("is_family", False, True)),
    "malware-analysis": _t("MalwareAnalysis", {"result": "benign"}, ("product", "p-a", "p-b"), desc=("version", "1", "2")),
    "note": _t("Note", {"object_refs": [REF["malware"]]}, ("content", "c-a", "c-b"), desc=("abstract", "a-a", "a-b")),
    "observed-data": _t("ObservedData", {"first_observed": TS, "last_observed": TS, "object_refs": [ID % ("file", 9)]},
                        ("number_observed", 1, 2), desc=("lang", "en", "fr")),
    "opinion": _t("Opinion", {"object_refs": [REF["malware"]]}, ("opinion", "agree", "disagree"), desc=("explanation", "e-a", "e-b")),
    "report": _t("Report", {"published": TS, "object_refs": [REF["malware"]]}, ("name", "n-a", "n-b")),
    "threat-actor": _t("ThreatActor", {}, ("name", "n-a", "n-b")),
    "tool": _t("Tool", {}, ("name", "n-a", "n-b")),
    "vulnerability": _t("Vulnerability", {}, ("name", "n-a", "n-b")),
    "relationship": _t("Relationship", {"source_ref": REF["campaign"], "target_ref": REF["malware"]}, ("relationship_type", "uses", "targets")),
    "sighting": _t("Sighting", {}, ("sighting_of_ref", REF["malware"], REF["malware2"])),
    # the two versionable 2.1 types that are neither SDO nor SRO proper (meta objects): same versioning, marking and store guarantees
    "language-content": _t("LanguageContent", {"contents": {"de": {"name": "x"}}}, ("object_ref", REF["campaign"], REF["malware"]),
                           desc=("object_modified", "2019-01-01T00:00:00.000Z", "2019-02-01T00:00:00.000Z"), al=("labels", ["x"], ["x", "y"])),
    "extension-definition": _t("ExtensionDefinition", {"schema": "s", "version": "1.0.0", "extension_types": ["property-extension"], "created_by_ref": REF["identity"]},
                               ("name", "n-a", "n-b")),
}
V20 = {
    "attack-pattern": _t("AttackPattern", {}, ("name", "n-a", "n-b")),
    "campaign": _t("Campaign", {}, ("name", "n-a", "n-b"), al=("aliases", ["x"], ["x", "y"])),
    "course-of-action": _t("CourseOfAction", {}, ("name", "n-a", "n-b")),
    "identity": _t("Identity", {"identity_class": "individual"}, ("name", "n-a", "n-b")),
    "indicator": _t("Indicator", {"labels": ["malicious-activity"], "valid_from": TS}, ("pattern", "[file:name = 'a']", "[file:name = 'b']")),
    "intrusion-set": _t("IntrusionSet", {}, ("name", "n-a", "n-b")),
    "malware": _t("Malware", {"labels": ["ransomware"]}, ("name", "n-a", "n-b")),
    "observed-data": _t("ObservedData", {"first_observed": TS, "last_observed": TS, "objects": {"0": {"type": "file", "name": "f"}}},
                        ("number_observed", 1, 2), desc=("labels", ["x"], ["y"])),
    "report": _t("Report", {"labels": ["threat-report"], "published": TS, "object_refs": [REF["malware"]]}, ("name", "n-a", "n-b")),
    "threat-actor": _t("ThreatActor", {"labels": ["hacker"]}, ("name", "n-a", "n-b")),
    "tool": _t("Tool", {"labels": ["remote-access"]}, ("name", "n-a", "n-b")),
    "vulnerability": _t("Vulnerability", {}, ("name", "n-a", "n-b")),
    "relationship": _t("Relationship", {"source_ref": REF["campaign"], "target_ref": REF["malware"]}, ("relationship_type", "uses", "targets")),
    "sighting": _t("Sighting", {}, ("sighting_of_ref", REF["malware"], REF["malware2"]), desc=("count", 1, 2)),
}
TABLES = {"2.0": V20, "2.1": V21}


def module(v):
    import stix2.v20
    import stix2.v21
    return stix2.v20 if v == "2.0" else stix2.v21


def plain(x):
    """JSON-plain deep copy of a library value (objects -> dicts, timestamps -> text)"""
    import json
    from stix2.serialization import STIXJSONIncludeOptionalDefaultsEncoder
    return json.loads(json.dumps(x, cls=STIXJSONIncludeOptionalDefaultsEncoder))
