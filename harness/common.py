"""Check context: scratch space, violations vs. known findings, evidence file, exit protocol."""
import hashlib
import json
import os
import random
import shutil
import sys
import time

from . import tlc

VERIF = os.path.dirname(os.path.dirname(os.path.abspath(__file__)))
REPO = os.environ.get("VERIF_REPO", "/repo")      # development aid only (seeded changes tried in a scratch worktree); registered commands never set it
OUT = os.environ.get("VERIF_OUT", VERIF)          # likewise: where evidence/ and replays/ go
LEVELS = ("exploration", "fault_enumeration", "model_checking", "proof", "translation_validation", "other")


def load_findings():
    p = os.path.join(VERIF, "known_findings.json")
    if not os.path.exists(p):
        return []
    with open(p) as f:
        return json.load(f).get("findings", [])


def canon(x):
    return json.dumps(x, sort_keys=True, separators=(",", ":"), default=str)


class Check(object):
    """One invocation of one property check."""

    def __init__(self, pid, tier, seed, level="model_checking"):
        self.pid = pid
        self.tier = tier
        self.seed = seed
        self.level = level
        self.rng = random.Random(seed)
        self.t0 = time.time()
        self.scratch = tlc.make_scratch(pid)
        shutil.rmtree(os.path.join(OUT, "replays", pid), ignore_errors=True)   # replay files belong to one run
        self.findings = [f for f in load_findings() if f.get("property") == pid and f.get("status") == "known"]
        self.violations = []      # unlisted
        self._vsigs = {}
        self.known_hits = {}      # finding id -> count
        self.states = 0
        self.transitions = 0
        self.distinct_states = 0
        self.traces = 0
        self.trace_lines = 0
        self.evaluations = 0
        self.signatures = set()
        self.samples = []
        self.stages = {}
        self.notes = {}
        self.assumptions = []
        self.rule = ""
        self.exhaustive = False
        self.machinery_errors = []

    # ---- bookkeeping -----------------------------------------------------
    def add_tlc(self, name, res, exhaustive=True):
        self.states += res.distinct
        self.transitions += res.generated
        self.stages[name] = {"states_generated": res.generated, "distinct_states": res.distinct,
                             "depth": res.depth, "wall_s": round(res.wall, 2), "completed": res.completed}
        cov = res.coverage_counts()
        if cov:
            # vacuity guard: an action of the model that TLC never took means the properties were never exercised on it
            self.stages[name]["actions_taken"] = {a: c[1] for a, c in sorted(cov.items())}
            never = sorted(a for a, c in cov.items() if c[1] == 0 and a not in ("Init",))
            self.stages[name]["actions_never_taken"] = never
            if never:
                self.machinery("model %s: TLC never took the action(s) %s (vacuous check)" % (name, ", ".join(never)))
        return res

    def case(self, sig, sample=None, n=1):
        """Count an executed case; sig is its abstract (non-trivial, distinct) signature or None for trivial."""
        self.evaluations += n
        if sig is not None:
            k = canon(sig)
            if k not in self.signatures:
                self.signatures.add(k)
                if sample is not None and len(self.samples) < 6:
                    self.samples.append(sample)

    def sample(self, s):
        if len(self.samples) < 8:
            self.samples.append(s)

    # ---- verdicts --------------------------------------------------------
    def violation(self, signature, detail, stage=""):
        """signature: dict (entry point + abstract case class); detail: concrete failing case (replayable)."""
        for f in self.findings:
            fs = f.get("signature", {})
            if all(signature.get(k) == v for k, v in fs.items()):
                self.known_hits[f["id"]] = self.known_hits.get(f["id"], 0) + 1
                return False
        k = canon(signature)
        if k in self._vsigs:
            self._vsigs[k][1] += 1
            self.violations.append((signature, self._vsigs[k][0]))
            return True
        digest = hashlib.sha1(canon([signature, detail]).encode()).hexdigest()[:12]
        d = os.path.join(OUT, "replays", self.pid)
        os.makedirs(d, exist_ok=True)
        path = os.path.join(d, digest + ".json")
        with open(path, "w") as f:
            json.dump({"property": self.pid, "stage": stage, "signature": signature, "detail": detail},
                      f, indent=1, sort_keys=True, default=str)
        self._vsigs[k] = [path, 1]
        self.violations.append((signature, path))
        return True

    def spec_violation(self, stage, res):
        """TLC found the invariant false on the specification itself (S1)."""
        what = res.invariant_violated or res.property_violated or (["deadlock"] if res.deadlock else ["assume"])
        self.violation({"entry": "spec", "case": "%s:%s" % (stage, ",".join(what))},
                       {"tlc_tail": res.out[-3000:]}, stage)

    def machinery(self, msg):
        self.machinery_errors.append(msg)

    # ---- finish ----------------------------------------------------------
    def finish(self):
        wall = time.time() - self.t0
        shutil.rmtree(self.scratch, ignore_errors=True)
        cov = {
            "states": self.states, "transitions": self.transitions,
            "traces_validated_against_impl": self.traces,
            "trace_lines_validated": self.trace_lines,
            "evaluations": self.evaluations,
            "distinct_nontrivial": len(self.signatures),
            "rule": self.rule,
            "samples": self.samples[:8] or ["(no sample recorded)"],
            "exhaustive": bool(self.exhaustive),
            "stages": self.stages,
            "known_findings_hit": self.known_hits,
        }
        cov.update(self.notes)
        ev = {"property_id": self.pid, "tier": self.tier, "seed": int(self.seed), "level": self.level,
              "coverage": cov, "assumptions": self.assumptions, "wall_s": round(wall, 2),
              "violations": len(self.violations)}
        os.makedirs(os.path.join(OUT, "evidence"), exist_ok=True)
        with open(os.path.join(OUT, "evidence", self.pid + ".json"), "w") as f:
            json.dump(ev, f, indent=1, sort_keys=True, default=str)
            f.write("\n")
        for fid, n in sorted(self.known_hits.items()):
            f = [x for x in self.findings if x["id"] == fid][0]
            print("KNOWN-FINDING: property=%s %s [%s, %d case(s)]" % (self.pid, f["what"], fid, n))
        for i, (k, (path, n)) in enumerate(sorted(self._vsigs.items())):
            if i >= 40:
                print("... %d more distinct violation signatures (see evidence/replays)" % (len(self._vsigs) - 40))
                break
            print("VIOLATION property=%s replay=%s  # x%d %s" % (self.pid, path, n, k[:300]))
        if self.machinery_errors:
            for m in self.machinery_errors:
                print("MACHINERY-ERROR property=%s %s" % (self.pid, m), file=sys.stderr)
        print("%s %s: states=%d transitions=%d traces=%d lines=%d evaluations=%d distinct=%d violations=%d known=%d wall=%.1fs" % (
            self.pid, self.tier, self.states, self.transitions, self.traces, self.trace_lines, self.evaluations,
            len(self.signatures), len(self.violations), sum(self.known_hits.values()), wall))
        if self.violations:
            return 1
        if self.machinery_errors:
            return 2
        return 0


def validate_trace(chk, module, cfg, lines, stage, env=None, workers=1, timeout=1800, count=True):
    """code -> spec: write lines as NDJSON, let TLC run the trace spec over them.
    Returns the list of REJECT tuples ([line_no, ...clause info]).  The trace spec prints
    <<"DONE", n>> when it has consumed all n lines; anything else is a machinery failure."""
    path = os.path.join(chk.scratch, "trace-%s-%d.ndjson" % (stage, len(os.listdir(chk.scratch))))
    tlc.write_ndjson(path, lines)
    e = {"TRACE_FILE": path}
    if env:
        e.update(env)
    res = tlc.run(module, cfg, workers=workers, env=e, timeout=timeout, scratch=chk.scratch)
    done = res.marked("DONE")
    if not done or done[0][1] != len(lines):
        if os.environ.get("VERIF_DEBUG"):
            shutil.copy(path, "/tmp/verif-debug-trace.ndjson")
            open("/tmp/verif-debug-tlc.out", "w").write(res.out)
        raise tlc.TlcFailure("trace spec %s did not consume the whole trace (%s of %d):\n%s" % (
            module, done, len(lines), res.out[-3000:]))
    if res.invariant_violated or res.property_violated:
        raise tlc.TlcFailure("trace spec %s: unexpected TLC error:\n%s" % (module, res.out[-3000:]))
    if count:
        chk.traces += 1
        chk.trace_lines += len(lines)
        st = chk.stages.setdefault(stage, {"trace_lines": 0, "tlc_states": 0, "wall_s": 0})
        st["trace_lines"] += len(lines)
        st["tlc_states"] += res.distinct
        st["wall_s"] = round(st["wall_s"] + res.wall, 2)
    return [r[1:] for r in res.marked("REJECT")]


def validate_trace_parallel(chk, module, cfg, lines, stage, jobs=8, chunk=400, env=None):
    """as validate_trace, but the lines are independent observations: split into chunks validated by several TLC processes.
    Returns REJECT tuples with global (1-based) line numbers."""
    from concurrent.futures import ThreadPoolExecutor
    parts = [(i, lines[i:i + chunk]) for i in range(0, len(lines), chunk)]
    out = []

    def work(arg):
        i, part = arg
        path = os.path.join(chk.scratch, "ptrace-%s-%d.ndjson" % (stage, i))
        tlc.write_ndjson(path, part)
        e = {"TRACE_FILE": path}
        if env:
            e.update(env)
        res = tlc.run(module, cfg, workers=1, env=e, timeout=3600, scratch=chk.scratch)
        done = res.marked("DONE")
        if not done or done[0][1] != len(part):
            if os.environ.get("VERIF_DEBUG"):
                shutil.copy(path, "/tmp/verif-debug-trace.ndjson")
                open("/tmp/verif-debug-tlc.out", "w").write(res.out)
            raise tlc.TlcFailure("trace spec %s did not consume chunk %d:\n%s" % (module, i, res.out[-2500:]))
        return i, len(part), res, [r[1:] for r in res.marked("REJECT")]
    with ThreadPoolExecutor(max_workers=jobs) as ex:
        for i, n, res, rej in ex.map(work, parts):
            chk.traces += 1
            chk.trace_lines += n
            st = chk.stages.setdefault(stage, {"trace_lines": 0, "tlc_states": 0, "wall_s": 0})
            st["trace_lines"] += n
            st["tlc_states"] += res.distinct
            st["wall_s"] = round(st["wall_s"] + res.wall, 2)
            for r in rej:
                out.append([r[0] + i] + r[1:])
    return out


def repo_test_traces(chk, which, select=None, cap=4000, timeout=1800):
    """run the repository's own test-suite under harness/record_plugin.py (loaded from outside the source tree) and return the recorded lines
    {file name: [lines]} plus a summary; the tests' own verdicts are not evidence, only the recorded calls are"""
    import re
    import subprocess
    out = os.path.join(chk.scratch, "repo-traces-%d" % len(os.listdir(chk.scratch)))
    env = dict(os.environ, STIX2_VERIF_TRACE=out, STIX2_VERIF_TRACE_WHICH=",".join(which), STIX2_VERIF_TRACE_CAP=str(cap), PYTHONPATH=VERIF, PYTHONDONTWRITEBYTECODE="1")
    cmd = ["/venv/bin/python", "-m", "pytest", "-q", "-p", "harness.record_plugin", "-p", "no:cacheprovider", "--timeout=900", "--continue-on-collection-errors"] + list(select or [])
    t0 = time.time()
    p = subprocess.run(cmd, cwd=REPO, env=dict(env, PYTHONPATH=VERIF + (os.pathsep + REPO if REPO != "/repo" else "")), stdout=subprocess.PIPE, stderr=subprocess.STDOUT, text=True, timeout=timeout)
    if p.returncode not in (0, 1) or not os.path.exists(os.path.join(out, "summary.json")):
        raise tlc.TlcFailure("recording run of the repository tests failed (exit %s):\n%s" % (p.returncode, p.stdout[-2000:]))
    summary = json.load(open(os.path.join(out, "summary.json")))
    m = re.search(r"(\d+) passed", p.stdout)
    summary["tests_passed_under_recording"] = int(m.group(1)) if m else 0
    summary["wall_s"] = round(time.time() - t0, 1)
    lines = {}
    for w in which:
        path = os.path.join(out, w + ".ndjson")
        lines[w] = [json.loads(l) for l in open(path)] if os.path.exists(path) else []
    shutil.rmtree(out, ignore_errors=True)
    return lines, summary
