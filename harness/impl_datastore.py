"""Binding of spec/DataStore.tla / FsOptimizer.tla to the real stores: abstract object records <-> concrete STIX content."""
import copy
import datetime as dt
import json

from . import objects as O

# type numbers are order-preserving stand-ins for the type names (lexicographic order)
TYPES = {1: "attack-pattern", 2: "campaign", 3: "file", 4: "identity", 5: "indicator", 6: "malware", 7: "relationship", 8: "threat-actor", 9: "x-unreg"}
T_FILE, T_IDENTITY, T_IND20, T_REL, T_UNREG = 3, 4, 5, 7, 9
TNUM = {v: k for k, v in TYPES.items()}
NAMES = {1: "na", 2: "nb", 3: "nc"}
LABELS = {1: "la", 2: "lb", 3: "lc"}
SRCS = {1: "sa", 2: "sb", 3: "sc"}
RTYPES = {1: "indicates", 2: "uses"}
REV = lambda m: {v: k for k, v in m.items()}  # noqa
BASE = dt.datetime(2020, 1, 1, tzinfo=dt.timezone.utc)
V20_TYPES = {T_IND20}
ABSENT = -1


UPPER_TYPES = set()       # set by a driver for the duration of one history
V7_TYPES = set()          # likewise: types whose every identifier is a version-7 UUID


def sid(n):
    # ids ending in 5..9 are UUIDv5-shaped (legal in 2.1, and for content that is not validated); the 2.0 type keeps UUIDv4
    ver = "5" if (n % 10 >= 5 and n // 10 not in V20_TYPES) else "4"
    if n // 10 in V7_TYPES and n // 10 not in V20_TYPES:
        ver = "7"           # a UUID of a later RFC version (legal in STIX 2.1: any UUID of the RFC variant)
    u = "%08x-1111-%s111-8111-1111111111ab" % (n % 10, ver)
    if n // 10 in UPPER_TYPES:        # identifiers whose UUID is written with upper-case hex letters (accepted by the library in both spec versions)
        u = u.upper()
    return "%s--%s" % (TYPES[n // 10], u)


def nid(s):
    t, u = s.split("--", 1)
    return TNUM[t] * 10 + int(u[:8], 16)


def ver_us(v):
    """ver v >= 1 stands for BASE + ((v-1) // 10) half-seconds + ((v-1) % 10) * 100 microseconds (order-preserving)"""
    return ((v - 1) // 10) * 500000 + ((v - 1) % 10) * 100


def ver_text(v, spelling="min"):
    """'min' strips trailing zeros (":00Z", ":00.5Z", ":00.0001Z"), 'ms' writes at least three digits"""
    d = BASE + dt.timedelta(microseconds=ver_us(v))
    s = d.strftime("%Y-%m-%dT%H:%M:%S")
    frac = ("%06d" % d.microsecond).rstrip("0")
    if spelling == "ms":
        frac = frac.ljust(3, "0")
    return s + ("." + frac if frac else "") + "Z"


def ver_of(value):
    if value is None:
        return 0
    us = O.rel_us(value)
    a, rest = divmod(us, 500000)
    if rest % 100 or rest // 100 > 9 or us < 0:
        return 100000 + us      # not a model instant
    return a * 10 + rest // 100 + 1


def build(o, spelling="min"):
    """abstract record -> JSON-plain dict"""
    t = o["type"]
    d = {"type": TYPES[t], "id": sid(o["id"])}
    if t not in V20_TYPES and t != T_UNREG:
        d["spec_version"] = "2.1"
    if t != T_FILE:
        d["created"] = "2019-01-01T00:00:00.000Z"
        d["modified"] = ver_text(o["ver"], "ms" if t in V20_TYPES else spelling)
    if o["name"] != ABSENT:
        d["name"] = NAMES[o["name"]]
    if o["num"] != ABSENT:
        d["confidence"] = o["num"]
    if o["labels"]:
        d["labels"] = [LABELS[x] for x in o["labels"]]
    if o["refs"]:
        d["external_references"] = [{"source_name": SRCS[r["s"]], "external_id": str(r["v"])} for r in o["refs"]]
    if o["creator"]:
        d["created_by_ref"] = sid(o["creator"])
    if t == T_IND20:
        d.update(pattern="[file:name = 'a']", valid_from="2019-01-01T00:00:00Z", labels=d.get("labels") or [LABELS[1]])
    if TYPES[t] == "malware":
        d["is_family"] = False
    if t == T_REL:
        d.update(source_ref=sid(o["src"]), target_ref=sid(o["tgt"]), relationship_type=RTYPES[o["rtype"]])
    return d


def plain_out(x):
    """JSON-plain form of something a store returned (library object -> its serialization)"""
    if hasattr(x, "serialize"):
        return json.loads(x.serialize())
    return O.plain(x)


def project(x):
    """concrete object or dict -> abstract record"""
    d = plain_out(x)
    t = TNUM.get(d["type"], 0)
    labels = [REV(LABELS).get(v, 0) for v in d.get("labels", [])]
    return {"id": nid(d["id"]), "type": t, "ver": ver_of(d.get("modified")) if "modified" in d else 0,
            "name": REV(NAMES).get(d.get("name"), ABSENT), "num": d.get("confidence", ABSENT), "labels": labels,
            "refs": [{"s": REV(SRCS).get(r.get("source_name"), 0), "v": int(r.get("external_id", "0"))} for r in d.get("external_references", [])],
            "src": nid(d["source_ref"]) if "source_ref" in d else 0, "tgt": nid(d["target_ref"]) if "target_ref" in d else 0,
            "rtype": REV(RTYPES).get(d.get("relationship_type"), 0), "creator": nid(d["created_by_ref"]) if "created_by_ref" in d else 0}


def mk(id_, ver, name=1, num=ABSENT, labels=(), refs=(), src=0, tgt=0, rtype=0, creator=0):
    if id_ // 10 == T_IND20 and not labels:
        labels = (1,)         # a 2.0 indicator must carry labels: it always has a model label, so that abstract and concrete agree
    return {"id": id_, "type": id_ // 10, "ver": ver, "name": name, "num": num, "labels": list(labels), "refs": [dict(r) for r in refs],
            "src": src, "tgt": tgt, "rtype": rtype, "creator": creator}


PROPS = {"type": "type", "id": "id", "modified": "modified", "name": "name", "num": "confidence", "labels": "labels", "refs.s": "external_references.source_name",
         "refs.v": "external_references.external_id", "source_ref": "source_ref", "target_ref": "target_ref", "relationship_type": "relationship_type",
         "created_by_ref": "created_by_ref", "nosuch": "x_no_such_property"}


def conc_val(prop, v, rng=None):
    if prop == "type":
        return TYPES[v]
    if prop in ("id", "source_ref", "target_ref", "created_by_ref"):
        return sid(v)
    if prop == "modified":
        if rng is not None and rng.random() < 0.4:
            return BASE + dt.timedelta(microseconds=ver_us(v))
        return ver_text(v, "ms" if rng is None or rng.random() < 0.5 else "min")
    if prop == "name":
        return NAMES[v]
    if prop == "labels":
        return LABELS[v]
    if prop == "refs.s":
        return SRCS[v]
    if prop == "refs.v":
        return str(v)
    if prop == "relationship_type":
        return RTYPES[v]
    return v


def conc_filter(f, rng=None):
    from stix2 import Filter
    val = f["val"]
    if f["op"] in ("in", "=seq", "!=seq"):
        val = [conc_val(f["prop"], x, rng) for x in sorted(val)]
    else:
        val = conc_val(f["prop"], val, rng)
    return Filter(PROPS[f["prop"]], f["op"].replace("seq", ""), val)


def in_form(form, dicts, v_bundle="2.1"):
    """the documented input forms of store.add"""
    import stix2
    import stix2.v20
    import stix2.v21
    objs = [stix2.parse(copy.deepcopy(d), allow_custom=True) for d in dicts]
    if form == "object":
        return objs[0]
    if form == "dict":
        return copy.deepcopy(dicts[0])
    if form == "json":
        return json.dumps(dicts[0])
    if form == "list":
        return [o if i % 2 == 0 else copy.deepcopy(d) for i, (o, d) in enumerate(zip(objs, dicts))]
    any21 = any("spec_version" in d or d["type"] == "file" for d in dicts)
    if form == "bundle_obj":
        return (stix2.v21.Bundle if any21 else stix2.v20.Bundle)(objs, allow_custom=True)
    if form == "bundle_dict":
        b = {"type": "bundle", "id": "bundle--33333333-3333-4333-8333-333333333333", "objects": copy.deepcopy(dicts)}
        if not any21:
            b["spec_version"] = "2.0"
        return b
    raise ValueError(form)


def content_key(x):
    return json.dumps(plain_out(x), sort_keys=True)


def answer(objs, reference):
    """project an answer; same_content: every returned object serializes as the added object with that (id, modified)"""
    if objs is None:
        objs = []
    if not isinstance(objs, list):
        objs = [objs]
    recs, same = [], True
    for x in objs:
        r = project(x)
        recs.append(r)
        ref = reference.get((r["id"], r["ver"]))
        if ref is not None and normalize(ref) != normalize(plain_out(x)):
            same = False
    return recs, same


def normalize(d):
    """equality of content up to timestamp spelling (same instant) -- stores may return library objects for dict input"""
    out = {}
    for k, v in d.items():
        if k in ("created", "modified", "valid_from") and isinstance(v, str):
            out[k] = O.rel_us(v)
        else:
            out[k] = v
    return json.dumps(out, sort_keys=True)
