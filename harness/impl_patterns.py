"""Binding of spec/PatternSem.tla to stix2.patterns / pattern_visitor / equivalence.pattern:
projection of the library's pattern object model to the spec's AST, an independent printer of ASTs, generators."""
import datetime as dt

BASE = dt.datetime(2020, 1, 1, tzinfo=dt.timezone.utc)
CMP_OPS = ["=", "!=", "<", "<=", ">", ">=", "IN", "LIKE", "MATCHES", "ISSUBSET", "ISSUPERSET"]


def units(s):
    b = s.encode("utf-16-be", "surrogatepass")
    return [(b[i] << 8) | b[i + 1] for i in range(0, len(b), 2)]


# ---------------------------------------------------------------- projection of library objects
def p_const(c):
    import stix2.patterns as P
    if isinstance(c, P.ListConstant):
        return {"t": "list", "items": [p_const(x) for x in c.value]}
    if isinstance(c, P.BooleanConstant):
        return {"t": "bool", "s": "true" if c.value else "false"}
    if isinstance(c, P.IntegerConstant):
        return {"t": "int", "v": c.value} if abs(c.value) < 2 ** 31 else {"t": "bigint", "s": str(c.value)}
    if isinstance(c, P.FloatConstant):
        return {"t": "float", "s": repr(float(c.value))}
    if isinstance(c, P.TimestampConstant):
        v = c.value
        if v.tzinfo is None:
            v = v.replace(tzinfo=dt.timezone.utc)
        d = v - BASE
        return {"t": "ts", "us": [d.days, d.seconds, d.microseconds]}
    if isinstance(c, P.HexConstant):
        return {"t": "hex", "s": str(c.value).lower()}
    if isinstance(c, P.BinaryConstant):
        return {"t": "bin", "s": str(c.value)}
    if isinstance(c, P.StringConstant):
        v = c.value
        if not getattr(c, "needs_to_be_quoted", True):
            # a constant taken from a parse tree keeps the text between the quotes; the string it denotes has the escapes resolved
            import re
            v = re.sub(r"\\(.)", r"\1", v, flags=re.S)
        return {"t": "str", "u": units(v)}
    return {"t": "other", "s": "%s:%s" % (type(c).__name__, c)}


def p_path(lhs):
    import stix2.patterns as P
    steps = []

    def name_of(comp):
        # the parser keeps the quotes of a quoted first step (and of a quoted indexed step) inside the name, and drops them on later plain steps; what a step
        # denotes is the text between the quotes with the escapes resolved
        import re
        n = comp.property_name
        if isinstance(n, str) and len(n) >= 2 and n[0] == "'" and n[-1] == "'":
            n = re.sub(r"\\(.)", r"\1", n[1:-1], flags=re.S)
        return n
    for comp in lhs.property_path:
        if isinstance(comp, P.ListObjectPathComponent):
            steps.append({"s": "idx", "name": name_of(comp), "i": str(comp.index)})
        elif isinstance(comp, P.ReferenceObjectPathComponent):
            steps.append({"s": "ref", "name": name_of(comp), "i": ""})
        else:
            steps.append({"s": "key", "name": name_of(comp), "i": ""})
    return lhs.object_type_name, steps


def project(x):
    import stix2.patterns as P
    if isinstance(x, P._ComparisonExpression):
        typ, steps = p_path(x.lhs)
        return {"k": "cmp", "type": typ, "path": steps, "prop": steps[0]["name"] if len(steps) == 1 and steps[0]["s"] == "key" else "*",
                "op": x.operator, "neg": bool(x.negated), "const": p_const(x.rhs)}
    if isinstance(x, P._BooleanExpression):
        return {"k": "and" if x.operator == "AND" else "or", "args": [project(o) for o in x.operands]}
    if isinstance(x, P.ParentheticalExpression):
        return {"k": "paren", "e": project(x.expression)}
    if isinstance(x, P.ObservationExpression):
        return {"k": "obs", "e": project(x.operand)} if not isinstance(x.operand, (P.ObservationExpression, P._CompoundObservationExpression, P.QualifiedObservationExpression)) \
            else project(x.operand)
    if isinstance(x, P._CompoundObservationExpression):
        return {"k": {"AND": "oand", "OR": "oor", "FOLLOWEDBY": "fb"}[x.operator], "args": [project(o) for o in x.operands]}
    if isinstance(x, P.QualifiedObservationExpression):
        q = x.qualifier
        if isinstance(q, P.RepeatQualifier):
            qq = {"k": "repeats", "n": q.times_to_repeat.value, "s": 0, "t1": p_const(P.IntegerConstant(0)), "t2": p_const(P.IntegerConstant(0))}
        elif isinstance(q, P.WithinQualifier):
            qq = {"k": "within", "n": 0, "s": q.number_of_seconds.value, "t1": p_const(P.IntegerConstant(0)), "t2": p_const(P.IntegerConstant(0))}
        else:
            qq = {"k": "startstop", "n": 0, "s": 0, "t1": p_const(q.start_time), "t2": p_const(q.stop_time)}
        return {"k": "qual", "e": project(x.observation_expression), "q": qq}
    return {"k": "unknown", "s": type(x).__name__}


# ---------------------------------------------------------------- an independent printer
def r_str(u):
    s = b"".join(bytes([x >> 8, x & 255]) for x in u).decode("utf-16-be", "surrogatepass")
    return "'" + s.replace("\\", "\\\\").replace("'", "\\'") + "'"


def r_const(c):
    t = c["t"]
    if t == "int":
        return str(c["v"])
    if t == "list":
        return "(" + ", ".join(r_const(i) for i in c["items"]) + ")"
    if t == "str":
        return r_str(c["u"])
    if t == "ts":
        d = BASE + dt.timedelta(days=c["us"][0], seconds=c["us"][1], microseconds=c["us"][2])
        frac = ("%06d" % d.microsecond).rstrip("0")
        return "t'%s%sZ'" % (d.strftime("%Y-%m-%dT%H:%M:%S"), "." + frac if frac else "")
    if t == "hex":
        return "h'%s'" % c["s"]
    if t == "bin":
        return "b'%s'" % c["s"]
    return c["s"]          # bool, float, bigint


def r_path(typ, steps):
    out = []
    for st in steps:
        name = st["name"]
        import re
        if not re.match(r"^[a-zA-Z_][a-zA-Z0-9_]*$", name):
            name = "'" + name.replace("\\", "\\\\").replace("'", "\\'") + "'"
        if st["s"] == "idx2":            # a further index directly on an indexed step (the grammar admits it)
            out[-1] += "[%s]" % st["i"]
            continue
        out.append(name + ("[%s]" % st["i"] if st["s"] == "idx" else ""))
    return typ + ":" + ".".join(out)


def render(a):
    k = a["k"]
    if k == "cmp":
        return "%s %s%s %s" % (r_path(a["type"], a["path"]), "NOT " if a["neg"] else "", a["op"], r_const(a["const"]))
    if k in ("and", "or"):
        return (" %s " % k.upper()).join(render(x) for x in a["args"])
    if k == "paren":
        return "(" + render(a["e"]) + ")"
    if k == "obs":
        return "[" + render(a["e"]) + "]"
    if k in ("oand", "oor", "fb"):
        return (" %s " % {"oand": "AND", "oor": "OR", "fb": "FOLLOWEDBY"}[k]).join(render(x) for x in a["args"])
    if k == "qual":
        q = a["q"]
        tail = "REPEATS %d TIMES" % q["n"] if q["k"] == "repeats" else "WITHIN %d SECONDS" % q["s"] if q["k"] == "within" \
            else "START %s STOP %s" % (r_const(q["t1"]), r_const(q["t2"]))
        return render(a["e"]) + " " + tail
    raise ValueError(k)


# ---------------------------------------------------------------- generators
def ts(n):
    return {"t": "ts", "us": [n // 86400, n % 86400, 0]}


def cmp_(prop, op, const, neg=False, typ="a"):
    return {"k": "cmp", "type": typ, "path": [{"s": "key", "name": prop, "i": ""}], "prop": prop, "op": op, "neg": neg, "const": const}


def I(n):  # noqa
    return {"t": "int", "v": n}


def rand_cmp(rng, vocab=True):
    if vocab:
        op = rng.choice(["=", "!=", "<", "<=", ">", ">=", "IN", "=", "!="])
        const = {"t": "list", "items": [I(v) for v in rng.sample([0, 1, 2, 3], rng.randint(1, 3))]} if op == "IN" else I(rng.choice([0, 1, 2, 3]))
        return cmp_(rng.choice("bc"), op, const, neg=rng.random() < 0.25)
    typ, steps = rng.choice([
        ("file", [{"s": "key", "name": "name", "i": ""}]),
        ("file", [{"s": "key", "name": "hashes", "i": ""}, {"s": "key", "name": "SHA-256", "i": ""}]),
        ("file", [{"s": "key", "name": "extensions", "i": ""}, {"s": "key", "name": "ntfs-ext", "i": ""}, {"s": "key", "name": "sid", "i": ""}]),
        ("network-traffic", [{"s": "idx", "name": "protocols", "i": rng.choice(["0", "*", "12"])}]),
        ("email-message", [{"s": "ref", "name": "from_ref", "i": ""}, {"s": "key", "name": "value", "i": ""}]),
        ("ipv4-addr", [{"s": "key", "name": "value", "i": ""}]), ("ipv6-addr", [{"s": "key", "name": "value", "i": ""}]),
        ("windows-registry-key", [{"s": "key", "name": "key", "i": ""}]),
        ("a", [{"s": "key", "name": "b", "i": ""}]),
        # indexed steps whose name needs quoting, first and later in the path; an index on the first step
        ("file", [{"s": "idx", "name": "x-list", "i": rng.choice(["1", "*"])}, {"s": "key", "name": "c", "i": ""}]),
        ("file", [{"s": "idx", "name": "sections", "i": rng.choice(["-1", "-12", "0"])}, {"s": "key", "name": "name", "i": ""}]),      # the grammar admits negative indices
        ("x-custom", [{"s": "key", "name": "a-b", "i": ""}, {"s": "idx", "name": "c-d", "i": rng.choice(["0", "*", "10"])}, {"s": "key", "name": "e", "i": ""}]),
        ("process", [{"s": "idx", "name": "opened_connection_refs", "i": "0"}, {"s": "ref", "name": "src_ref", "i": ""}, {"s": "key", "name": "value", "i": ""}]),
    ])
    op = rng.choice(CMP_OPS)
    strs = ["a", "", "it's", "back\\slash", "\\'", "''", "\\\\unc\\path", "ünï", "\U0001f600", "%a_b", "^x.*$", "1.2.3.4/8", "HKEY_LOCAL_MACHINE\\Foo", "::1/64"]
    pool = [lambda: {"t": "str", "u": units(rng.choice(strs))}, lambda: I(rng.choice([0, 1, -5, 2 ** 31 - 1])), lambda: {"t": "float", "s": repr(rng.choice([1.0, 0.5, -2.25, 0.0000001, 123456.789])) if rng.random() < 0.8 else rng.choice(["0.0000001", "10000000000000000000000.0"])},
            lambda: {"t": "bool", "s": rng.choice(["true", "false"])}, lambda: ts(rng.choice([0, 1, 86400])), lambda: {"t": "hex", "s": rng.choice(["ab", "00ff"])},
            lambda: {"t": "bin", "s": rng.choice(["aGVsbG8=", "AA=="])}]
    if op == "IN":
        gen = rng.choice(pool[:3])
        const = {"t": "list", "items": [gen() for _ in range(rng.choice([0, 1, 1, 2, 3]))]}       # the grammar admits the empty set
    elif op in ("LIKE", "MATCHES", "ISSUBSET", "ISSUPERSET"):
        const = pool[0]()
    elif op in ("=", "!="):
        const = rng.choice(pool)()
    else:
        const = rng.choice(pool[:3] + pool[4:])()        # the grammar admits booleans only with = and !=
    c = {"k": "cmp", "type": typ, "path": steps, "prop": steps[0]["name"] if len(steps) == 1 and steps[0]["s"] == "key" else "*", "op": op,
         "neg": rng.random() < 0.3, "const": const}
    return c


def rand_cexpr(rng, depth, vocab=True, typ=None):
    """comparison expression with parentheses exactly where precedence needs them (AND binds tighter than OR)"""
    if depth <= 0 or rng.random() < 0.4:
        c = rand_cmp(rng, vocab)
        if typ and not vocab:
            c["type"] = typ
        return c
    k = rng.choice(["and", "or"])
    args = []
    t = typ
    for _ in range(rng.randint(2, 3)):
        a = rand_cexpr(rng, depth - 1, vocab, t)
        if not vocab:
            t = t or first_type(a)
            set_type(a, t)
        if a["k"] in ("and", "or") and (a["k"] != k and k == "and" or rng.random() < 0.2):
            a = {"k": "paren", "e": a}
        args.append(a)
    return {"k": k, "args": args}


def first_type(a):
    if a["k"] == "cmp":
        return a["type"]
    if a["k"] == "paren":
        return first_type(a["e"])
    return first_type(a["args"][0])


def set_type(a, t):
    if a["k"] == "cmp":
        a["type"] = t
    elif a["k"] == "paren":
        set_type(a["e"], t)
    else:
        for x in a["args"]:
            set_type(x, t)


def rand_oexpr(rng, depth, vocab=True, pool=None):
    """observation expression; compound operands are parenthesised (all three operators share one precedence level in the grammar
    is not assumed: OR < AND < FOLLOWEDBY grouping is always made explicit)"""
    import copy
    if depth <= 0 or rng.random() < 0.35:
        # leaves drawn from a small pool make repeated operands (multiset effects under AND / FOLLOWEDBY) common
        o = copy.deepcopy(rng.choice(pool)) if pool else {"k": "obs", "e": rand_cexpr(rng, rng.choice([0, 1, 2]), vocab)}
    else:
        k = rng.choice(["oand", "oor", "fb"])
        args = []
        for _ in range(rng.randint(2, 3)):
            a = rand_oexpr(rng, depth - 1, vocab, pool)
            if a["k"] in ("oand", "oor", "fb", "qual"):
                a = {"k": "paren", "e": a}
            args.append(a)
        o = {"k": k, "args": args}
    if rng.random() < 0.25:
        q = rng.choice([{"k": "repeats", "n": rng.choice([1, 2, 3]), "s": 0, "t1": I(0), "t2": I(0)},
                        {"k": "within", "n": 0, "s": rng.choice([0, 1, 2] if vocab else [0, 1, 300]), "t1": I(0), "t2": I(0)},
                        {"k": "startstop", "n": 0, "s": 0, "t1": ts(rng.choice([0, 1])), "t2": ts(rng.choice([1, 2]))}])
        inner = o if o["k"] == "obs" else {"k": "paren", "e": o}
        o = {"k": "qual", "e": inner, "q": q}
    return o


def corner_asts():
    """fixed (not sampled) corners of the grammar: grouping repeated and around single operands at both levels, comparison operands of different object types
    under one boolean operator (flattened nesting included), path steps whose names need quoting for every reason the grammar has (first / later / indexed)"""
    def c(typ, name, v=1):
        return {"k": "cmp", "type": typ, "path": [{"s": "key", "name": name, "i": ""}], "prop": name, "op": "=", "neg": False, "const": I(v)}

    def P(e):  # noqa
        return {"k": "paren", "e": e}

    def O(e):  # noqa
        return {"k": "obs", "e": e}

    def OR(*a):  # noqa
        return {"k": "or", "args": list(a)}

    def AND(*a):  # noqa
        return {"k": "and", "args": list(a)}
    import copy
    within = {"k": "within", "n": 0, "s": 10, "t1": I(0), "t2": I(0)}
    x, y, z = c("a", "b", 1), c("a", "c", 2), c("a", "d", 3)
    out = [("group", g) for g in (
        O(P(x)), O(P(P(x))), O(P(OR(x, y))), O(P(P(OR(x, y)))), O(P(P(P(AND(x, y))))), O(AND(P(P(OR(x, y))), z)), O(OR(P(P(AND(x, y))), z)), O(AND(P(x), P(y))), O(AND(P(P(x)), y)),
        P(O(x)), P(P(O(x))), P(P({"k": "oand", "args": [O(x), O(y)]})), {"k": "oor", "args": [P(P(O(x))), O(P(P(y)))]},
        {"k": "fb", "args": [O(x), {"k": "qual", "e": O(P(P(OR(y, z)))), "q": within}]}, {"k": "qual", "e": P(P({"k": "oand", "args": [O(x), O(y)]})), "q": within},
        {"k": "qual", "e": P({"k": "qual", "e": O(P(x)), "q": within}), "q": {"k": "repeats", "n": 2, "s": 0, "t1": I(0), "t2": I(0)}})]
    # grouping expressed by operator precedence alone (no parentheses in the text): AND binds tighter than OR, OR tighter than FOLLOWEDBY, at both levels
    w = c("a", "e", 4)

    def OA(*a):  # noqa
        return {"k": "oand", "args": list(a)}

    def OO(*a):  # noqa
        return {"k": "oor", "args": list(a)}

    def FB(*a):  # noqa
        return {"k": "fb", "args": list(a)}
    out += [("precedence", g) for g in (
        OO(OA(O(x), O(y)), O(z)), OO(O(x), OA(O(y), O(z))), FB(OA(O(x), O(y)), O(z)), FB(O(x), OA(O(y), O(z))), FB(OO(O(x), O(y)), O(z)), FB(O(x), OO(O(y), O(z))),
        FB(OO(OA(O(x), O(y)), O(z)), O(w)), FB(O(x), OO(O(y), OA(O(z), O(w)))), OO(OA(O(x), O(y)), OA(O(z), O(w))), OO(OA(O(x), O(y), O(z)), O(w)), OO(O(x), OA(O(y), O(z)), O(w)),
        FB(OA(O(x), O(y)), OA(O(z), O(w))), FB(O(x), O(y), OA(O(z), O(w))),
        O(OR(AND(x, y), z)), O(OR(x, AND(y, z))), O(OR(AND(x, y), AND(z, w))), O(OR(x, AND(y, z), w)), O(OR(AND(x, y, z), w)))]
    a1, b1, c1, c2 = c("a", "x", 1), c("b", "y", 2), c("c", "z", 3), c("c", "w", 4)
    out += [("mixed_types", g) for g in (
        O(OR(a1, b1)), O(OR(a1, b1, c1)), O(AND(P(OR(a1, c1)), c2)), O(AND(P(OR(a1, b1, c1)), c2)), O(AND(c2, P(OR(a1, b1, c1)))), O(AND(P(OR(a1, P(OR(b1, c1)))), c2)),
        O(AND(P(OR(P(OR(a1, b1)), c1)), c2)), O(OR(a1, AND(c1, c2), b1)), O(OR(a1, P(AND(c1, c2, P(OR(b1, c1)))))), O(AND(P(OR(b1, c1)), P(OR(c2, a1)))),
        O(AND(P(OR(a1, b1, c1)), P(OR(b1, c2, c1)), c2)))]
    for name in ["b c", "b.c", "", "it's", "back\\slash", "0start", "\u00fcn\u00ef", "a-b", "a[0]", "x:y", "'", "AND", "b_ref"]:
        for how, steps in (("first", [{"s": "key", "name": name, "i": ""}]), ("later", [{"s": "key", "name": "k", "i": ""}, {"s": "key", "name": name, "i": ""}]),
                           ("middle", [{"s": "key", "name": "k", "i": ""}, {"s": "key", "name": name, "i": ""}, {"s": "key", "name": "m", "i": ""}]),
                           ("indexed_first", [{"s": "idx", "name": name, "i": "1"}]), ("indexed_later", [{"s": "key", "name": "k", "i": ""}, {"s": "idx", "name": name, "i": "*"}])):
            g = c("x-t", "k")
            g["path"], g["prop"] = copy.deepcopy(steps), name if how == "first" else "*"
            out.append(("quoted_step:" + how, O(g)))
    # an index directly on an indexed step: only totality and the text round trip are judged (the model classes have no agreed representation for it)
    for steps in ([{"s": "idx", "name": "a", "i": "1"}, {"s": "idx2", "name": "", "i": "2"}],
                  [{"s": "key", "name": "k", "i": ""}, {"s": "idx", "name": "b", "i": "*"}, {"s": "idx2", "name": "", "i": "0"}, {"s": "key", "name": "c", "i": ""}]):
        g = c("x-t", "k")
        g["path"], g["prop"] = copy.deepcopy(steps), "*"
        out.append(("consecutive_indices", O(g)))
    return out


def in_vocab(a):
    k = a["k"]
    if k == "cmp":
        c = a["const"]
        okc = (c["t"] == "int" and -50 <= c["v"] <= 50) if a["op"] != "IN" else (c["t"] == "list" and all(i["t"] == "int" and -50 <= i["v"] <= 50 for i in c["items"]))
        return a["type"] == "a" and a["prop"] in ("b", "c") and len(a["path"]) == 1 and a["op"] in ("=", "!=", "<", "<=", ">", ">=", "IN") and okc
    if k in ("paren", "obs"):
        return in_vocab(a["e"])
    if k == "qual":
        q = a["q"]
        okq = (q["k"] == "repeats" and 1 <= q["n"] <= 3) or (q["k"] == "within" and 0 <= q["s"] <= 5) or \
              (q["k"] == "startstop" and all(t["t"] == "ts" and t["us"][0] == 0 and 0 <= t["us"][1] <= 5 and t["us"][2] == 0 for t in (q["t1"], q["t2"])))
        return okq and in_vocab(a["e"])
    if k == "unknown":
        return False
    return all(in_vocab(x) for x in a["args"])


def to_spec(a):
    """AST in the exact shape spec/PatternSem.tla evaluates (only meaningful for in-vocabulary ASTs; others are passed as structure only)"""
    k = a["k"]
    if k == "cmp":
        c = a["const"]
        const = [i.get("v", 0) for i in c["items"]] if c["t"] == "list" else c.get("v", 0)
        return {"k": "cmp", "type": a["type"], "prop": a["prop"], "op": a["op"], "neg": a["neg"], "const": const if a["op"] == "IN" or c["t"] != "list" else const}
    if k in ("paren", "obs"):
        return {"k": k, "e": to_spec(a["e"])}
    if k == "qual":
        q = a["q"]
        sq = {"k": q["k"], "n": q["n"], "s": q["s"], "t1": q["t1"]["us"][1] if q["t1"]["t"] == "ts" else 0, "t2": q["t2"]["us"][1] if q["t2"]["t"] == "ts" else 0}
        return {"k": "qual", "e": to_spec(a["e"]), "q": sq}
    return {"k": k, "args": [to_spec(x) for x in a["args"]]}


def norm_const(c):
    if c["t"] == "float":
        return {"t": "float", "s": repr(float(c["s"]))}
    if c["t"] == "list":
        return {"t": "list", "items": [norm_const(i) for i in c["items"]]}
    return c


def norm(a):
    """structure up to grouping that does not change the tree: parentheses dropped, same-operator nesting flattened"""
    k = a["k"]
    if k == "paren":
        return norm(a["e"])
    if k == "cmp":
        c = dict(a)
        if c["op"] == "!=":              # the model writes a != b as "negated ="
            c["op"], c["neg"] = "=", not c["neg"]
        # a reference step is a property name like any other; floats are compared as numbers
        c["path"] = [dict(st, s="key") if st["s"] == "ref" else st for st in c["path"]]
        c["const"] = norm_const(c["const"])
        return c
    if k == "obs":
        return {"k": "obs", "e": norm(a["e"])}
    if k == "qual":
        return {"k": "qual", "e": norm(a["e"]), "q": a["q"]}
    if k == "unknown":
        return a
    args = []
    for x in a["args"]:
        n = norm(x)
        if n["k"] == k:
            args += n["args"]
        else:
            args.append(n)
    return {"k": k, "args": args}
