"""One-off bootstrap of the frozen specification model (spec/frozen/stix2x.json) from the property tables of the tree it is run on.
The output is DATA, committed once (from the pinned commit) and then audited by hand (spec/frozen/AUDIT.md); the checks never re-run this."""
import collections
import json
import os
import sys

sys.path.insert(0, os.environ.get("VERIF_REPO", "/repo"))


def describe(prop, classes, todo):
    import stix2.properties as P
    from stix2.utils import STIXTypeClass
    d = {"kind": type(prop).__name__.replace("Property", "").lower() or "any", "required": bool(prop.required)}
    if hasattr(prop, "_fixed_value"):
        d["fixed"] = prop._fixed_value
    elif hasattr(prop, "default"):
        try:
            v = prop.default()
            from stix2.base import NOW
            if v is NOW:
                d["default"] = "NOW"
            elif isinstance(prop, P.IDProperty):
                d["default"] = "UUID4"
            elif isinstance(v, (str, int, float, bool, list)):
                d["default"] = v
            else:
                d["default"] = "COMPUTED"
        except Exception:  # noqa
            d["default"] = "COMPUTED"
    if isinstance(prop, P.ListProperty):
        c = prop.contained
        if isinstance(c, P.Property):
            d["contained"] = describe(c, classes, todo)
        else:
            d["contained"] = {"kind": "embedded", "cls": c.__name__, "required": False}
            todo.append(c)
    if isinstance(prop, P.EmbeddedObjectProperty):
        d["cls"] = prop.type.__name__
        todo.append(prop.type)
    if isinstance(prop, (P.EnumProperty, P.OpenVocabProperty)):
        d["allowed"] = list(prop.allowed)
    if isinstance(prop, P.ReferenceProperty):
        d["auth"] = "whitelist" if prop.auth_type == prop._WHITELIST else "blacklist"
        d["generics"] = sorted(g.name for g in prop.generics)
        d["specifics"] = sorted(prop.specifics)
    if isinstance(prop, P.TimestampProperty):
        d["precision"] = str(prop.precision).lower().replace("precision.", "")
        d["constraint"] = str(prop.precision_constraint).lower().replace("precisionconstraint.", "")
    if isinstance(prop, (P.IntegerProperty, P.FloatProperty)):
        if prop.min is not None:
            d["min"] = prop.min
        if prop.max is not None:
            d["max"] = prop.max
    if isinstance(prop, P.HashesProperty):
        d["spec_hash_names"] = sorted(getattr(prop, "_HashesProperty__spec_hash_names"))
    if isinstance(prop, P.ExtensionsProperty):
        d["kind"] = "extensions"
    return d


def dump(version):
    import stix2.registry
    import stix2.v20
    import stix2.v21
    maps = stix2.registry.STIX2_OBJ_MAPS[version]
    out = {"spec_version": version, "types": collections.OrderedDict(), "embedded": collections.OrderedDict()}
    todo = []
    for cat in ("objects", "observables", "markings", "extensions"):
        for name, cls in sorted(maps[cat].items()):
            out["types"]["%s:%s" % (cat, name)] = one(cls, cat, todo)
    mod = stix2.v20 if version == "2.0" else stix2.v21
    for extra in ("Bundle", "MarkingDefinition", "LanguageContent", "ExtensionDefinition"):
        if hasattr(mod, extra):
            cls = getattr(mod, extra)
            out["types"].setdefault("objects:%s" % cls._type, one(cls, "objects", todo))
    seen = set()
    while todo:
        cls = todo.pop()
        if cls.__name__ in seen or not hasattr(cls, "_properties"):
            continue
        seen.add(cls.__name__)
        out["embedded"][cls.__name__] = one(cls, "embedded", todo)
    return out


def one(cls, cat, todo):
    props = []
    for name, prop in cls._properties.items():
        d = describe(prop, None, todo)
        d["name"] = name
        props.append(d)
    rec = {"class": cls.__name__, "category": cat, "type": getattr(cls, "_type", None), "properties": props}
    if hasattr(cls, "_id_contributing_properties"):
        rec["id_contributing"] = list(cls._id_contributing_properties)
    return rec


if __name__ == "__main__":
    outdir = sys.argv[1]
    for v, fn in (("2.0", "stix20.json"), ("2.1", "stix21.json")):
        with open(os.path.join(outdir, fn), "w") as f:
            json.dump(dump(v), f, indent=1, default=str)
        print(fn, "written")
