"""Generation of STIX content from the frozen specification model (never from the library's tables):
valid instances with chosen subsets of optional properties, and single-point corruptions of them."""
import copy
import json
import random

from . import lex

UUID4 = "%08x-1111-4111-8111-111111111111"
HASHES = {"MD5": "d41d8cd98f00b204e9800998ecf8427e", "SHA-1": "da39a3ee5e6b4b0d3255bfef95601890afd80709",
          "SHA-256": "e3b0c44298fc1c149afbf4c8996fb92427ae41e4649b934ca495991b7852b855"}
EXT_FOR = {"file": ["ntfs-ext", "pdf-ext", "raster-image-ext", "archive-ext", "windows-pebinary-ext"],
           "network-traffic": ["http-request-ext", "icmp-ext", "socket-ext", "tcp-ext"], "process": ["windows-process-ext", "windows-service-ext"],
           "user-account": ["unix-account-ext"]}
GENERIC_SAMPLE = {"SDO": "malware", "SCO": "file", "SRO": "relationship"}
SKIP_TYPES = {"markings:statement", "markings:tlp"}
SKIP_20 = set()      # (2.0 network-traffic needs container-local references: generated without them, it is refused on its own for that reason unless the entry supplies them)


class Gen(object):
    def __init__(self, version, rng=None):
        self.v = version
        self.m = lex.model(version)
        self.types = self.m["types"]
        self.rng = rng or random.Random(0)
        self.n = 0

    def keys(self):
        return [k for k in self.types if k.split(":")[0] in ("objects", "observables") and k not in SKIP_TYPES and k != "objects:bundle"
                and not (self.v == "2.0" and k in SKIP_20)]

    def uid(self):
        self.n += 1
        return UUID4 % (self.n % (16 ** 8))

    def ts(self, i, d):
        """timestamps increase with the position of the property, so that first/last style constraints hold"""
        prec, con = d.get("precision", "any"), d.get("constraint", "exact")
        base = "2020-01-01T00:00:%02d" % (i % 60)
        if prec == "millisecond":
            return base + ".000Z" if con == "exact" or self.rng.random() < 0.5 else base + ".123456Z"
        if prec == "second" and con == "exact":
            return base + "Z"
        return base + self.rng.choice(["Z", ".5Z", ".123456Z"])

    def ref_type(self, d):
        sro = self.m["sro"]
        if d["auth"] == "whitelist":
            if d["specifics"]:
                return self.rng.choice(d["specifics"])
            return GENERIC_SAMPLE[self.rng.choice(d["generics"])]
        cands = [t for t in ("malware", "indicator", "identity", "file") if t not in d["specifics"] and not (
            ("SDO" in d["generics"] and t in ("malware", "indicator", "identity")) or ("SCO" in d["generics"] and t == "file"))]
        if self.v == "2.0":
            cands = [c for c in cands if c != "file"]
        return cands[0] if cands else "malware"

    def value(self, d, i=0, owner=""):
        k = d["kind"]
        r = self.rng
        if "fixed" in d:
            return d["fixed"]
        if k in ("string", "openvocab", "objectreference") and k != "objectreference":
            if k == "openvocab" and d.get("allowed") and r.random() < 0.7:
                return r.choice(d["allowed"])
            return r.choice(["s-" + d.get("name", "x"), "x", "Ünïcode \U0001f600", "line\nbreak \"q\" \\"])
        if k == "objectreference":
            return "0"
        if k == "pattern":
            return "[file:name = 'a']"
        if k == "selector":
            return "type"
        if k == "id":
            return owner + "--" + self.uid()
        if k == "reference":
            return self.ref_type(d) + "--" + self.uid()
        if k == "timestamp":
            return self.ts(i, d)
        if k == "integer":
            lo, hi = d.get("min"), d.get("max")
            c = [x for x in (lo, hi, 0, 1, 7) if x is not None and (lo is None or x >= lo) and (hi is None or x <= hi)]
            return r.choice(c)
        if k == "float":
            lo, hi = d.get("min"), d.get("max")
            c = [x for x in (lo, hi, 0.0, 1.5, -1.5) if x is not None and (lo is None or x >= lo) and (hi is None or x <= hi)]
            return float(r.choice(c))
        if k == "boolean":
            return r.choice([False, True])
        if k == "enum":
            return r.choice(d["allowed"])
        if k == "hex":
            return r.choice(["0a", "FFd8"])
        if k == "binary":
            return "aGVsbG8="
        if k == "list":
            c = d["contained"]
            return [self.value(dict(c, name=d.get("name", "x")), i, owner) for _ in range(r.choice([1, 1, 2]))]
        if k in ("embedded", "embeddedobject"):
            e = self.instance("embedded:" + d["cls"], r.choice(["min", "max", "rand"]))
            return e or self.instance("embedded:" + d["cls"], "max")
        if k == "hashes":
            names = [n for n in d["spec_hash_names"] if n in HASHES]
            return {n: HASHES[n] for n in r.sample(names, r.randint(1, len(names)))}
        if k == "dictionary":
            return {"key-one": "v", "key_two": r.choice([1, "w", 0, "", False, True])}      # falsy member values are values like any other
        if k == "extensions":
            names = EXT_FOR.get(owner, [])
            if not names:
                return None
            e = r.choice(names)
            return {e: self.instance("extensions:" + e, r.choice(["min", "max", "rand"]))}
        if k == "observable":
            return {"0": {"type": "file", "name": "f"}, "1": {"type": "directory", "path": "/", "contains_refs": ["0"]}}
        if k == "stixobject":
            return [self.instance("objects:identity", "min")]
        if k == "marking":
            return {"statement": "x"}
        return "x"

    def instance(self, key, mode="rand", only=None):
        """mode: min (required only), max (everything), rand (random subset), one (required + the property `only`)"""
        t = self.types[key]
        owner = t["type"] or ""
        out = {}
        cons = t["constraints"]
        for i, d in enumerate(t["properties"]):
            name = d["name"]
            want = d["jsonreq"] or mode == "max" or (mode == "rand" and self.rng.random() < 0.5) or (mode == "one" and name == only)
            if name in ("type",):
                want = True
            if name == "granular_markings" or (name == "spec_version" and key.startswith("observables:") and self.rng.random() < 0.5 and mode != "max"):
                want = False if name == "granular_markings" else want
            if not want:
                continue
            v = self.value(dict(d), i, owner)
            if v is not None:
                out[name] = v
        self.fix_constraints(key, out, cons, t)
        self.special(key, out)
        return out

    def fix_constraints(self, key, out, cons, t):
        descs = {d["name"]: d for d in t["properties"]}
        order = [d["name"] for d in t["properties"]]
        for c in cons:
            if c["k"] == "mutex":
                present = [n for n in c["of"] if n in out]
                for n in present[1:]:
                    out.pop(n)
            elif c["k"] == "at_least_one":
                if not any(n in out for n in c["of"]):
                    n = c["of"][0]
                    out[n] = self.value(dict(descs[n]), order.index(n), t["type"] or "")
            elif c["k"] in ("requires", "iff_present"):
                if c["a"] in out and c["b"] not in out:
                    out[c["b"]] = self.value(dict(descs[c["b"]]), order.index(c["b"]), t["type"] or "")
                if c["k"] == "iff_present" and c["b"] in out and c["a"] not in out:
                    out[c["a"]] = self.value(dict(descs[c["a"]]), order.index(c["a"]), t["type"] or "")
            elif c["k"] == "any_property":
                if not [n for n in out if n not in c["except"]]:
                    cands = [x for x in order if x not in c["except"]]
                    n = ([x for x in cands if descs[x]["kind"] in ("string", "integer", "boolean")] or cands)[0]
                    out[n] = self.value(dict(descs[n]), order.index(n), t["type"] or "")
            elif c["k"] == "if_true":
                if out.get(c["a"]) is True and c["b"] not in out:
                    out[c["b"]] = self.value(dict(descs[c["b"]]), order.index(c["b"]), t["type"] or "")
        # re-establish key order of the specification
        for n in [n for n in order if n in out]:
            out[n] = out.pop(n)

    def special(self, key, out):
        """type-specific shapes the generic kinds do not capture"""
        if key == "objects:indicator" and self.v == "2.1":
            out["pattern_type"] = "stix"
            out.pop("pattern_version", None)
        if key == "objects:extension-definition" and "extension_properties" in out:
            # new top-level property names are declared by extensions that add top-level properties: the generated instance says so (valid whether or not that is a MUST)
            types = list(out.get("extension_types") or [])
            if "toplevel-property-extension" not in types:
                out["extension_types"] = types + ["toplevel-property-extension"]
            out["extension_properties"] = [p if isinstance(p, str) and len(p) >= 3 and p.replace("_", "a").isalnum() and p.islower() else "prop_%d" % i
                                           for i, p in enumerate(out["extension_properties"])]
        if key == "objects:marking-definition":
            out["definition_type"] = "statement"
            out["definition"] = {"statement": "x"}
            out.pop("name", None) if self.rng.random() < 0.5 else None
        if key == "objects:observed-data" and self.v == "2.1":
            out.pop("objects", None)
            out["object_refs"] = ["file--" + self.uid()]
        if key == "observables:email-message":
            out["is_multipart"] = False
            out.pop("body_multipart", None)
        if key == "observables:artifact":
            if "url" in out:
                out["hashes"] = {"MD5": HASHES["MD5"]}
        if key == "observables:network-traffic":
            out.setdefault("protocols", ["tcp"])
            if "end" in out:
                out["is_active"] = False
            if self.v == "2.0":
                for k in ("src_ref", "dst_ref", "src_payload_ref", "dst_payload_ref", "encapsulated_by_ref"):
                    out.pop(k, None)
                out.pop("encapsulates_refs", None)
        if key == "objects:location":
            if "latitude" in out:
                out["latitude"], out["longitude"] = 10.5, -20.25
        if key == "observables:windows-registry-key" and "key" in out:
            out["key"] = "HKEY_LOCAL_MACHINE\\\\Foo"
        if key == "extensions:socket-ext" and "options" in out:
            out["options"] = {"SO_KEEPALIVE": 1}
        if key == "objects:report" or key == "objects:note" or key == "objects:opinion" or key == "objects:grouping":
            pass
        if self.v == "2.0" and key == "observables:file":
            if not out.get("is_encrypted"):
                out.pop("encryption_algorithm", None)
                out.pop("decryption_key", None)
        if self.v == "2.0" and key.startswith("observables:"):
            # 2.0 observables only live inside a container; references are local keys
            for k in list(out):
                if k.endswith("_ref") or k.endswith("_refs"):
                    out.pop(k)
        return out
