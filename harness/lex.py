"""Lexing of serialized STIX JSON into the fact-carrying documents spec/SpecValid.tla judges.  The lexer states facts about
leaves (is this text a canonical timestamp, what kind of UUID is that); it never decides validity."""
import base64
import datetime as dt
import json
import math
import os
import re

FROZEN = os.path.join(os.path.dirname(os.path.dirname(os.path.abspath(__file__))), "spec", "frozen")
TS_RE = re.compile(r"^(\d{4})-(\d\d)-(\d\d)T(\d\d):(\d\d):(\d\d)(?:\.(\d+))?Z$")
UUID_RE = re.compile(r"^[0-9a-fA-F]{8}-[0-9a-fA-F]{4}-[0-9a-fA-F]{4}-[0-9a-fA-F]{4}-[0-9a-fA-F]{12}$")
HEX_RE = re.compile(r"^([0-9a-fA-F]{2})+$")
SAFE_RE = re.compile(r"^[A-Za-z0-9 _.:/=+@,;!?#$%&*()\[\]{}<>|~^'-]*$")
SEL_RE = re.compile(r"^[A-Za-z0-9_-]+(\.(\[\d+\]|[A-Za-z0-9_-]+))*$")      # shape of a selector: steps separated by dots (facts only; what it addresses is for the spec to decide)
_MODELS = {}


def model(version):
    if version not in _MODELS:
        _MODELS[version] = json.load(open(os.path.join(FROZEN, "model20.json" if version == "2.0" else "model21.json")))
    return _MODELS[version]


def model_file(version):
    return os.path.join(FROZEN, "model20.json" if version == "2.0" else "model21.json")


def ts_fact(s):
    m = TS_RE.match(s)
    if not m:
        return {"ok": False, "nfrac": 0, "instant": None}
    y, mo, d, h, mi, sec = (int(x) for x in m.groups()[:6])
    try:
        base = dt.datetime(y, mo, d, h, mi, sec)
    except ValueError:
        return {"ok": False, "nfrac": 0, "instant": None}
    frac = m.group(7) or ""
    return {"ok": True, "nfrac": len(frac), "instant": (base.toordinal(), h * 3600 + mi * 60 + sec, int((frac + "0" * 12)[:12]))}


def id_fact(s):
    if "--" not in s:
        return {"ok": False, "type": "", "uuid": "garbage"}
    t, u = s.split("--", 1)
    if not re.match(r"^[a-z0-9-]+$", t):
        return {"ok": False, "type": t[:40], "uuid": "garbage"}
    if not UUID_RE.match(u):
        return {"ok": False, "type": t, "uuid": "noncanonical" if re.match(r"^[{]?(urn:uuid:)?[0-9a-fA-F-]{32,36}[}]?$", u) else "garbage"}
    if u.replace("-", "").strip("0") == "":
        return {"ok": False, "type": t, "uuid": "nil"}
    variant = u[19].lower()
    if variant not in "89ab":
        return {"ok": False, "type": t, "uuid": "badvariant"}
    v = u[14]
    return {"ok": True, "type": t, "uuid": "v" + v if v in "12345" else "vother"}


def b64_ok(s):
    try:
        return base64.b64encode(base64.b64decode(s, validate=True)).decode() == s
    except Exception:  # noqa
        return False


def node(x):
    if x is None:
        return {"k": "null"}
    if isinstance(x, bool):
        return {"k": "bool", "v": x}
    if isinstance(x, int):
        return {"k": "int", "v": x} if abs(x) < 2 ** 31 - 1 else {"k": "big"}
    if isinstance(x, float):
        fin = not (math.isnan(x) or math.isinf(x))
        return {"k": "float", "finite": fin, "integral": fin and x == int(x), "v": int(x) if fin and abs(x) < 2 ** 31 - 1 else 0}
    if isinstance(x, str):
        return {"k": "str", "s": x if len(x) <= 60 and SAFE_RE.match(x) else "", "long": len(x) > 60, "ts": ts_fact(x), "id": id_fact(x), "hex": bool(HEX_RE.match(x)), "b64": b64_ok(x),
                "sel": x.split(".") if SEL_RE.match(x) else []}
    if isinstance(x, list):
        return {"k": "list", "items": [node(i) for i in x]}
    if isinstance(x, dict):
        return {"k": "obj", "props": [{"name": str(k), "node": node(v)} for k, v in x.items()]}
    return {"k": "other"}


def rank_timestamps(n, instants=None):
    """replace the exact instants by an order-preserving small key (their rank inside this document)"""
    first = instants is None
    if first:
        instants = []
        collect(n, instants)
        instants = {v: i + 1 for i, v in enumerate(sorted(set(instants)))}
    if n["k"] == "str":
        inst = n["ts"].pop("instant", None)
        n["ts"]["key"] = instants.get(inst, 0) if inst is not None else 0
    elif n["k"] == "list":
        for i in n["items"]:
            rank_timestamps(i, instants)
    elif n["k"] == "obj":
        for p in n["props"]:
            rank_timestamps(p["node"], instants)
    return n


def collect(n, acc):
    if n["k"] == "str" and n["ts"].get("instant") is not None:
        acc.append(n["ts"]["instant"])
    elif n["k"] == "list":
        for i in n["items"]:
            collect(i, acc)
    elif n["k"] == "obj":
        for p in n["props"]:
            collect(p["node"], acc)


def key_for(d, version):
    t = d.get("type") if isinstance(d, dict) else None
    m = model(version)["types"]
    if not isinstance(t, str):
        return "objects:?"
    if "objects:" + t in m and not ("observables:" + t in m and "id" not in d):
        return "objects:" + t
    if "observables:" + t in m:
        return "observables:" + t
    return "objects:" + t


def doc(d, version, key=None):
    """JSON-plain top-level object -> document for SpecValid"""
    n = rank_timestamps(node(d))
    return {"key": key or key_for(d, version), "props": n["props"] if n["k"] == "obj" else []}
