"""Binding of spec/Markings.tla and spec/Selectors.tla to the real library."""
import copy
import json
import re

from . import objects as O

MARK = {"M1": O.ID % ("marking-definition", 0xa1), "M2": O.ID % ("marking-definition", 0xa2), "M3": O.ID % ("marking-definition", 0xa3),
        "L1": "en", "L2": "fr-CA"}
TOKEN = {v: k for k, v in MARK.items()}
STEP_OK = re.compile(r"^([a-z0-9_-]+|\[\d+\])$")


def tree_of(x):
    if isinstance(x, dict):
        keys = sorted(x)
        return {"k": "obj", "keys": keys, "vals": [tree_of(x[k]) for k in keys]}
    if isinstance(x, list):
        return {"k": "list", "items": [tree_of(i) for i in x]}
    if isinstance(x, bool):
        return {"k": "leaf", "v": "true" if x else "false"}
    if isinstance(x, (int, float)):
        return {"k": "leaf", "v": "zero" if x == 0 else "num"}
    if isinstance(x, str):
        return {"k": "leaf", "v": "empty" if x == "" else "str"}
    return {"k": "leaf", "v": "other"}


def paths(tree, prefix=()):
    out = []
    if tree["k"] == "obj":
        for k, v in zip(tree["keys"], tree["vals"]):
            out.append(prefix + (k,))
            out += paths(v, prefix + (k,))
    elif tree["k"] == "list":
        for i, v in enumerate(tree["items"]):
            out.append(prefix + ("[%d]" % i,))
            out += paths(v, prefix + ("[%d]" % i,))
    return out


def leaf_class(tree, steps):
    node = tree
    for s in steps:
        if node["k"] == "obj":
            node = node["vals"][node["keys"].index(s)]
        else:
            node = node["items"][int(s[1:-1])]
    return node["v"] if node["k"] == "leaf" else node["k"]


def lenient(steps):
    """selector steps outside the character set / lengths of the selector syntax carry no obligation"""
    if not steps:
        return True
    if any(not STEP_OK.match(s) for s in steps):
        return True
    if steps[0].startswith("[") or (len(steps[0]) < 3 and steps[0] != "id"):
        return True
    if steps[0] in ("granular_markings", "object_marking_refs"):
        return True       # a selector into the marking lists themselves: marking operations rewrite those lists, so what it addresses is not stable
                          # (clearing the object markings of an object whose granular marking selects object_marking_refs.[0] cannot yield a valid object)
    return False


def sel(steps):
    return ".".join(steps)


def project(obj):
    g = []
    for gm in obj.get("granular_markings", []) or []:
        for s in gm.get("selectors", []):
            for key in ("marking_ref", "lang"):
                if gm.get(key):
                    pair = [s.split("."), TOKEN.get(gm[key], "raw:" + str(gm[key]))]
                    if pair not in g:
                        g.append(pair)
    o = []
    for m in obj.get("object_marking_refs", []) or []:
        t = TOKEN.get(m, "raw:" + str(m))
        if t not in o:
            o.append(t)
    return {"G": g, "O": o}


def content(obj):
    d = O.plain(dict(obj))
    for k in ("granular_markings", "object_marking_refs", "modified"):
        d.pop(k, None)
    return d


_MOBJ = {}


def marking_object(mid):
    import stix2.v21
    if mid not in _MOBJ:
        _MOBJ[mid] = stix2.v21.MarkingDefinition(id=mid, definition_type="statement", definition={"statement": "verif"}, created="2020-01-01T00:00:00.000Z")
    return _MOBJ[mid]


def call(op, obj, ms, ss, ur, ul, inh, desc, via):
    """executes one abstract operation on the real object.  returns (res, resulting object)"""
    import stix2.markings as M
    marks = [MARK[m] for m in ms]
    # the marking functions document identifiers *or marking-definition objects*: a third of the calls (chosen by the arguments, so a replay makes the same choice) hand
    # the marking over as an object
    if (len(json.dumps([op, sorted(ms), sorted(map(list, ss)), inh, desc])) + len(via)) % 3 == 0:
        marks = [marking_object(m) if m.startswith("marking-definition--") else m for m in marks]
    marks = marks[0] if len(marks) == 1 and via == "method" else marks
    sels = [sel(s) for s in ss]
    sels = sels[0] if len(sels) == 1 and via == "function" else sels
    use_method = via == "method" and hasattr(obj, "add_markings")

    def f(name):
        return getattr(obj, name) if use_method else (lambda *a, **k: getattr(M, name)(obj, *a, **k))
    try:
        if op == "add":
            r = f("add_markings")(marks, sels)
        elif op == "remove":
            r = f("remove_markings")(marks, sels)
        elif op == "clear":
            r = f("clear_markings")(sels, marking_ref=ur, lang=ul)
        elif op == "set":
            r = f("set_markings")(marks, sels, marking_ref=ur, lang=ul)
        elif op == "addO":
            r = f("add_markings")(marks)
        elif op == "removeO":
            r = f("remove_markings")(marks)
        elif op == "setO":
            r = f("set_markings")(marks)
        elif op == "clearO":
            r = f("clear_markings")()
        elif op == "get":
            return {"k": "set", "v": sorted(TOKEN.get(x, "raw:" + str(x)) for x in f("get_markings")(sels, inherited=inh, descendants=desc, marking_ref=ur, lang=ul))}, obj
        elif op == "is_marked":
            return {"k": "bool", "v": bool(f("is_marked")(marks, sels, inherited=inh, descendants=desc))}, obj
        elif op == "is_marked_any":
            return {"k": "bool", "v": bool(f("is_marked")(None, sels, inherited=inh, descendants=desc))}, obj
        elif op == "getO":
            return {"k": "set", "v": sorted(TOKEN.get(x, "raw:" + str(x)) for x in f("get_markings")())}, obj
        elif op == "is_markedO":
            return {"k": "bool", "v": bool(f("is_marked")(marks))}, obj
        else:
            raise ValueError(op)
    except Exception as e:  # noqa
        return {"k": "err", "e": type(e).__name__}, obj
    return {"k": "same" if r is obj else "new"}, r


def modified_of(obj):
    m = obj.get("modified")
    return O.rel_us(m) if m is not None else None


def observe(tid, obj, step, via):
    """one trace line for an abstract step {op, ms, ss, ur, ul, inh, desc}"""
    plain = O.plain(dict(obj))
    pre = project(plain)
    before = json.dumps(plain, sort_keys=True)
    res, new = call(step["op"], obj, step["ms"], step["ss"], step["ur"], step["ul"], step["inh"], step["desc"], via)
    after = json.dumps(O.plain(dict(obj)), sort_keys=True)
    post = project(O.plain(dict(new)))
    m0, m1 = modified_of(obj), modified_of(new)
    line = {"tid": tid, "tree": tree_of(plain), "op": step["op"], "ms": step["ms"], "ss": step["ss"], "ur": step["ur"], "ul": step["ul"],
            "inh": step["inh"], "desc": step["desc"], "pre": pre, "post": post, "res": res, "via": via,
            "newer": bool(m0 is not None and m1 is not None and m1 > m0), "content_same": content(new) == content(obj),
            "orig_unchanged": before == after, "lenient": any(lenient(s) for s in step["ss"])}
    return line, new


# ---- hosts realising the model's hazard selectors: two siblings one a string prefix of the other, a list, its second element
# (equal to the first), and an index past the end
def hosts():
    import stix2.v20
    import stix2.v21
    ts = O.us(0)
    er = [{"source_name": "s", "external_id": "1"}, {"source_name": "s", "external_id": "1"}, {"source_name": "t", "url": "http://x.example/"}]
    h = []
    m1 = {("pattern",): "pattern", ("pattern_type",): "pattern_type", ("labels",): "labels", ("labels", "[1]"): "labels.[1]", ("labels", "[3]"): "labels.[3]"}
    ind = stix2.v21.Indicator(pattern="[file:name = 'a']", pattern_type="stix", valid_from=O.TS, labels=["a", "a", "b"], created=ts, modified=ts)
    h.append(("v21-indicator", ind, m1))
    h.append(("v21-indicator-dict", json.loads(ind.serialize()), m1))
    m2 = {("pattern",): "created", ("pattern_type",): "created_by_ref", ("labels",): "labels", ("labels", "[1]"): "labels.[1]", ("labels", "[3]"): "labels.[3]"}
    mal = stix2.v20.Malware(name="m", labels=["a", "a", "b"], created_by_ref=O.REF["identity"], created=ts, modified=ts)
    h.append(("v20-malware", mal, m2))
    m3 = {("pattern",): "created", ("pattern_type",): "created_by_ref", ("labels",): "external_references", ("labels", "[1]"): "external_references.[1]",
          ("labels", "[3]"): "external_references.[3]"}
    rel = stix2.v21.Relationship(relationship_type="uses", source_ref=O.REF["campaign"], target_ref=O.REF["malware"], created_by_ref=O.REF["identity"],
                                 external_references=er, created=ts, modified=ts)
    h.append(("v21-relationship", rel, m3))
    return h
