"""Binding of spec/Versioning.tla to the real library: realise an abstract object version, apply an
operation with the wall clock substituted from outside, project the result back."""
import copy
import json

from . import objects as O

SCO5_ROLES = {"name": ("name", "n-a", "n-b"), "description": ("mime_type", "text/a", "text/b"), "aliases": ("size", 1, 2)}
UNMOD_VALUES = {"created": lambda t: O.us(777777), "id": lambda t: O.ID % (t, 0xabc), "type": lambda t: "tool" if t != "tool" else "malware",
                "created_by_ref": lambda t: O.REF["identity2"]}


def text(n):
    d = O.us(n)
    return "%04d-%02d-%02dT%02d:%02d:%02d.%06dZ" % (d.year, d.month, d.day, d.hour, d.minute, d.second, d.microsecond)


def roles_for(o, typ):
    if o["kind"] in ("sco5", "sco4"):
        return SCO5_ROLES
    return O.TABLES[o["v"]][typ][2]


def realize(o, typ="campaign"):
    """abstract record -> concrete library object or dict"""
    import stix2.v20
    import stix2.v21
    v, kind = o["v"], o["kind"]
    mod = O.module(v)
    if kind == "unversionable":
        return stix2.v21.File(name="x") if v == "2.1" else stix2.v20.TLP_WHITE
    roles = roles_for(o, typ)
    args = {}
    for role, (prop, a, b) in roles.items():
        val = o["props"][role]
        if val != "absent":
            args[prop] = copy.deepcopy(a if val == "a" else b)
    if kind in ("sco5", "sco4"):
        args.update(created=O.us(o["created"]), modified=O.us(o["modified"]), revoked=bool(o["revoked"]), allow_custom=True)
        if kind == "sco4":
            args["id"] = "file--3d0f1e5c-7a2b-4c3d-9e8f-0a1b2c3d4e5f"     # an identifier its producer chose (UUIDv4): no property is locked by it
        args["hashes"] = {"MD5": "d41d8cd98f00b204e9800998ecf8427e"}     # so that the object stays constructible without its name (removal must be refused for the right reason)
        return stix2.v21.File(**args)
    cls, base, _ = O.TABLES[v][typ]
    full = copy.deepcopy(base)
    full.update(args)
    if kind == "obj":
        full.update(created=O.us(o["created"]), modified=O.us(o["modified"]))
        if o["revoked"]:
            full["revoked"] = True
        return getattr(mod, cls)(**full)
    # dictionaries
    d = {"type": typ, "id": O.ID % (typ, 0x77)}
    if v == "2.1":
        d["spec_version"] = "2.1"
    d.update(O.plain(full))
    if kind == "dict_nocreated":
        return d
    d["created"] = text(o["created"])
    if o["hasmod"]:
        d["modified"] = text(o["modified"])
    if o["revoked"]:
        d["revoked"] = True
    return d


def concrete_changes(ch, o, typ):
    roles = roles_for(o, typ)
    kw = {}
    for name, val in ch.items():
        if name in roles:
            prop, a, b = roles[name]
            kw[prop] = None if val == "none" else copy.deepcopy(a if val == "a" else b)
        else:
            kw[name] = None if val == "none" else UNMOD_VALUES[name](typ)      # asking to remove an unmodifiable property is a change to it, too
    return kw


class Clock(object):
    """substitutes the wall clock of stix2.versioning from outside"""

    def __init__(self):
        import stix2.versioning
        self.mod = stix2.versioning
        self.orig = stix2.versioning.get_timestamp
        self.reads = 0

    def set(self, n):
        from stix2.utils import STIXdatetime
        value = STIXdatetime(O.us(n))

        def fake():
            self.reads += 1
            return value
        self.mod.get_timestamp = fake

    def restore(self):
        self.mod.get_timestamp = self.orig


def apply(conc, op, o, typ, clock, user_form="datetime", via="method"):
    """returns (ok, exc_name, result)"""
    import stix2.markings
    import stix2.versioning
    try:
        if op["k"] == "revoke":
            clock.set(op["now"])
            if via == "method" and hasattr(conc, "revoke"):
                return True, "none", conc.revoke()
            return True, "none", stix2.versioning.revoke(conc)
        kw = concrete_changes(op.get("ch") or {}, o, typ)
        if op["k"] == "newmod":
            kw["modified"] = O.us(op["m"]) if user_form == "datetime" else text(op["m"]) if user_form == "text6" else text(op["m"])[:-4] + "Z" if user_form == "text3" and op["m"] % 1000 == 0 else text(op["m"])
            clock.set(op["m"] + 123456)      # must not be read
        else:
            clock.set(op["now"])
        if via == "add_markings" and not kw:
            return True, "none", stix2.markings.add_markings(conc, O.ID % ("marking-definition", 0x5), None)
        if via == "method" and hasattr(conc, "new_version"):
            return True, "none", conc.new_version(**kw)
        return True, "none", stix2.versioning.new_version(conc, **kw)
    except Exception as e:  # noqa
        return False, type(e).__name__, None


def snapshot(conc):
    if hasattr(conc, "serialize"):
        return conc.serialize(sort_keys=True) + "|" + json.dumps(O.plain(dict(conc)), sort_keys=True)
    return json.dumps(O.plain(conc), sort_keys=True)


def serialized_modified(conc, v):
    """the modified instant as a reader of the serialized JSON sees it (us rel. base)"""
    if hasattr(conc, "serialize"):
        d = json.loads(conc.serialize())
        return O.rel_us(d.get("modified") or d["created"])
    # a dictionary: serialize its modified value through an object of that spec version
    value = conc.get("modified") or conc.get("created") or O.us(-2000000000)
    carrier = O.module(v).Campaign(name="carrier", created=value, modified=value)
    return O.rel_us(json.loads(carrier.serialize())["modified"])


def project(conc, o, typ):
    """concrete -> abstract record (same v/kind as the template o)"""
    roles = roles_for(o, typ)
    props = {}
    for role, (prop, a, b) in roles.items():
        if prop not in conc:
            props[role] = "absent"
        else:
            val = O.plain(conc[prop])
            props[role] = "a" if val == O.plain(a) else "b" if val == O.plain(b) else "other:" + json.dumps(val, sort_keys=True)[:60]
    if o["kind"] in ("unversionable", "dict_nocreated"):
        return dict(o)
    created = O.rel_us(conc["created"]) if "created" in conc else -2000000000       # total: a result that lost `created` projects to a value no object has
    hasmod = "modified" in conc
    return {"v": o["v"], "kind": o["kind"], "created": created, "modified": O.rel_us(conc["modified"]) if hasmod else created,
            "hasmod": hasmod, "revoked": bool(conc.get("revoked")), "props": props}


def same_identity(a, b):
    return a.get("id") == b.get("id") and a.get("type") == b.get("type") and a.get("created_by_ref") == b.get("created_by_ref")
