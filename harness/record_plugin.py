"""pytest plugin: records traces of the repository's own test-suite for the trace specifications.

Loaded from outside the source tree:  cd /repo && STIX2_VERIF_TRACE=<dir> PYTHONPATH=/verif pytest -p harness.record_plugin ...
Nothing in /repo knows about it; without STIX2_VERIF_TRACE it does nothing.  Public callables are wrapped from outside (every module-level
reference to the original function is replaced, methods are replaced on their classes); a wrapper never changes arguments, results or
exceptions, and any error inside the recorder itself is swallowed and counted.

Recorded (one NDJSON file per trace specification):
  frame.ndjson      -- Trace_Frame: deep snapshots of the arguments of constructors, parse, versioning, marking, store and factory calls before/after;
                       deep copies (equal, disjoint); attribute assignments (refused)
  timestamps.ndjson -- Trace_Timestamps: every format_datetime call (civil fields, precision, output, write-read-write)
  confidence.ndjson -- Trace_Confidence: every call of a confidence-scale function
  canonjson.ndjson  -- Trace_CanonJson: every canonicalize call on a JSON value (tagged), with the output code units
  versioning.ndjson -- Trace_Versioning: every new_version / revoke call on a versionable object or dictionary, projected onto the object record of
                       spec/Versioning.tla (changed properties in slots, everything else as one digest, instants compressed order- and millisecond-preserving)
"""
import datetime as dt
import functools
import json
import os
import sys

OUT = os.environ.get("STIX2_VERIF_TRACE")
STATE = {"busy": 0, "test": "", "errors": 0, "counts": {}, "files": {}, "seen": set()}
CAP = int(os.environ.get("STIX2_VERIF_TRACE_CAP", "4000"))      # per (file, operation)


def emit(which, op, line):
    k = (which, op)
    n = STATE["counts"].get(k, 0)
    STATE["counts"][k] = n + 1
    if n >= CAP:
        return
    f = STATE["files"].get(which)
    if f is None:
        f = STATE["files"][which] = open(os.path.join(OUT, which + ".ndjson"), "w")
    line["test"] = STATE["test"]
    f.write(json.dumps(line) + "\n")


class Busy(object):
    def __enter__(self):
        STATE["busy"] += 1

    def __exit__(self, *a):
        STATE["busy"] -= 1


def replace_everywhere(orig, new):
    for name, mod in list(sys.modules.items()):
        if mod is None or not name.startswith("stix2"):
            continue
        for attr, val in list(vars(mod).items()):
            if val is orig:
                setattr(mod, attr, new)


def wrap_function(orig, recorder):
    @functools.wraps(orig)
    def w(*a, **k):
        if STATE["busy"]:
            return orig(*a, **k)
        return recorder(orig, a, k)
    replace_everywhere(orig, w)
    return w


def wrap_method(cls, name, recorder):
    orig = cls.__dict__[name]
    raw = orig.__func__ if isinstance(orig, (staticmethod, classmethod)) else orig

    @functools.wraps(raw)
    def w(*a, **k):
        if STATE["busy"]:
            return raw(*a, **k)
        return recorder(raw, a, k)
    setattr(cls, name, staticmethod(w) if isinstance(orig, staticmethod) else classmethod(w) if isinstance(orig, classmethod) else w)


# ------------------------------------------------------------------------------------------------ Frame (C13)
def frame_recorder(opname, skip_self=False, kind="construct"):
    from harness.checks import c13

    def rec(orig, a, k):
        args = [("arg%d" % i, v) for i, v in enumerate(a) if not (skip_self and i == 0)] + [(n, v) for n, v in sorted(k.items())]
        pre = None
        try:
            with Busy():
                pre = [c13.snap(v) for _, v in args]
        except Exception:  # noqa
            STATE["errors"] += 1
        exc = "none"
        try:
            return orig(*a, **k)
        except BaseException as e:  # noqa
            exc = type(e).__name__
            raise
        finally:
            if pre is not None:
                try:
                    with Busy():
                        post = [c13.snap(v) for _, v in args]
                        line = {"kind": kind, "op": opname, "exc": exc, "args": [{"name": n, "unchanged": p == q} for (n, _), p, q in zip(args, pre, post)], "live": [],
                                "refused": False, "copy_equal": True, "copy_disjoint": True}
                        bad = [[n, c13.first_diff(p, q)] for (n, _), p, q in zip(args, pre, post) if p != q]
                        if bad:
                            line["diffs"] = bad
                        emit("frame", opname, line)
                except Exception:  # noqa
                    STATE["errors"] += 1
    return rec


def deepcopy_recorder(orig, a, k):
    from harness.checks import c13
    res = orig(*a, **k)
    try:
        with Busy():
            o = a[0]
            eq = c13.public(c13.snap(res)) == c13.public(c13.snap(o))
            x, y = c13.mutable_ids(o), c13.mutable_ids(res)
            shared = [type(x[i]).__name__ for i in x if i in y]
            emit("frame", "__deepcopy__", {"kind": "deepcopy", "op": "copy.deepcopy(x)", "exc": "none", "args": [{"name": "object", "unchanged": True}], "live": [], "refused": False,
                                           "copy_equal": bool(eq), "copy_disjoint": not shared, "shared": shared[:5], "type": type(o).__name__})
    except Exception:  # noqa
        STATE["errors"] += 1
    return res


def setattr_recorder(orig, a, k):
    name = a[1] if len(a) > 1 else k.get("name", "_")
    if not isinstance(name, str) or name.startswith("_"):
        return orig(*a, **k)
    from harness.checks import c13
    pre = None
    try:
        with Busy():
            pre = c13.snap(a[0])
    except Exception:  # noqa
        STATE["errors"] += 1
    refused = False
    try:
        return orig(*a, **k)
    except BaseException:  # noqa
        refused = True
        raise
    finally:
        if pre is not None:
            try:
                with Busy():
                    post = c13.snap(a[0])
                    emit("frame", "__setattr__", {"kind": "mutate_attempt", "op": "setattr on public property", "exc": "x" if refused else "none",
                                                  "args": [{"name": "object", "unchanged": pre == post}], "live": [], "refused": refused, "copy_equal": True, "copy_disjoint": True,
                                                  "type": type(a[0]).__name__, "prop": name})
            except Exception:  # noqa
                STATE["errors"] += 1


# ------------------------------------------------------------------------------------------------ Timestamps (C15)
def timestamps_recorder(orig, a, k):
    out = orig(*a, **k)
    try:
        with Busy():
            import stix2.utils as U
            d = a[0] if a else k.get("dttm")
            if isinstance(d, dt.datetime) and isinstance(out, str):
                off = d.utcoffset()
                tot = 0 if off is None else int(off.total_seconds())
                offm = int(tot / 60)              # minutes and seconds parts with the sign of the whole
                offs = tot - offm * 60
                if off is not None and off.microseconds:
                    return out          # offsets with fractions of a second: outside the model
                prec = getattr(d, "precision", U.Precision.ANY)
                con = getattr(d, "precision_constraint", U.PrecisionConstraint.EXACT)
                pn, cn = prec.name.lower(), con.name.lower()
                key = ("ts", d.year, d.month, d.day, d.hour, d.minute, d.second, d.microsecond, offm, pn, cn)
                if key in STATE["seen"]:
                    return out
                STATE["seen"].add(key)
                try:
                    out2 = orig(U.parse_into_datetime(out, pn, cn))
                    ok2 = True
                except Exception:  # noqa
                    out2, ok2 = "", False
                emit("timestamps", "format_datetime", {
                    "form": "dt", "first": [], "c": {"y": d.year, "mo": d.month, "d": d.day, "h": d.hour, "mi": d.minute, "s": d.second, "us": d.microsecond, "off": offm, "offs": offs},
                    "naive": off is None, "src": [], "prec": pn, "con": cn, "ok": True, "exc": "none", "out": [ord(ch) for ch in out], "ok2": ok2,
                    "out2": [ord(ch) for ch in out2], "hasb": False, "cb": {}, "outb": []})
    except Exception:  # noqa
        STATE["errors"] += 1
    return out


# ------------------------------------------------------------------------------------------------ Confidence (C20)
def confidence_recorder(fn):
    def rec(orig, a, k):
        line = None
        try:
            arg = a[0] if a else next(iter(k.values()))
            if isinstance(arg, bool) or not isinstance(arg, (int, str)) or len(a) + len(k) != 1:
                line = None
            elif isinstance(arg, int):
                line = {"fn": fn, "k": "int", "n": arg} if abs(arg) < 2 ** 31 - 1 else {"fn": fn, "k": "big", "neg": arg < 0}
            else:
                line = {"fn": fn, "k": "str", "s": arg}
        except Exception:  # noqa
            STATE["errors"] += 1
        try:
            r = orig(*a, **k)
        except BaseException as e:  # noqa
            if line is not None:
                line.update(ok=False, rk="none", exc=type(e).__name__)
                emit("confidence", fn, line)
            raise
        if line is not None:
            if isinstance(r, str):
                line.update(ok=True, rk="label", label=r, exc="none")
            elif isinstance(r, int) and not isinstance(r, bool):
                line.update(ok=True, rk="value", value=r, exc="none")
            else:
                line.update(ok=True, rk="label", label="<%s>" % type(r).__name__, exc="none")
            emit("confidence", fn, line)
        return r
    return rec


# ------------------------------------------------------------------------------------------------ CanonJson (C16)
class OutsideModel(Exception):
    pass


def tag_value(x, depth=0):
    """Python JSON value -> the tagged value of spec/CanonJson.tla (numbers through Python's shortest repr)"""
    from harness.checks import c16
    if depth > 30:
        raise OutsideModel()
    if x is None:
        return {"k": "null"}
    if isinstance(x, bool):
        return {"k": "bool", "v": x}
    if isinstance(x, str):
        return {"k": "str", "u": c16.units(x)}
    if isinstance(x, int):
        if x == 0:
            return {"k": "zero"}
        if abs(x) >= 2 ** 53:
            raise OutsideModel()
        s = str(abs(x))
        ds = s.rstrip("0")
        return {"k": "num", "neg": x < 0, "digits": [int(c) for c in ds], "n": len(s), "int": True}
    if isinstance(x, float):
        if x != x:
            return {"k": "nan"}
        if x in (float("inf"), float("-inf")):
            return {"k": "inf", "neg": x < 0}
        if x == 0:
            return {"k": "zero", "float": True}
        m, _, e = repr(abs(x)).partition("e")
        ip, _, fp = m.partition(".")
        alld = ip + fp
        lead = len(alld) - len(alld.lstrip("0"))
        ds = alld.strip("0")
        n = len(ip) - lead + (int(e) if e else 0)
        if len(ds) > 15:
            raise OutsideModel()
        return {"k": "num", "neg": x < 0, "digits": [int(c) for c in ds], "n": n}
    if type(x) is list or type(x) is tuple:
        return {"k": "list", "items": [tag_value(i, depth + 1) for i in x]}
    if type(x) is dict:
        if not all(isinstance(key, str) for key in x):
            raise OutsideModel()
        return {"k": "obj", "keys": [c16.units(key) for key in x], "vals": [tag_value(v, depth + 1) for v in x.values()]}
    raise OutsideModel()


def canon_recorder(orig, a, k):
    line = None
    try:
        with Busy():
            utf8 = a[1] if len(a) > 1 else k.get("utf8", True)
            v = tag_value(a[0])
            key = ("canon", json.dumps(v, sort_keys=True))
            if key not in STATE["seen"]:
                STATE["seen"].add(key)
                line = {"t": "value", "v": v, "perm_ok": True, "utf8_ok": True, "_utf8": bool(utf8)}
    except OutsideModel:
        STATE["counts"][("canonjson", "outside_model")] = STATE["counts"].get(("canonjson", "outside_model"), 0) + 1
    except Exception:  # noqa
        STATE["errors"] += 1
    try:
        out = orig(*a, **k)
    except BaseException as e:  # noqa
        if line is not None:
            line.pop("_utf8")
            line.update(ok=False, exc=type(e).__name__, out=[])
            emit("canonjson", "canonicalize", line)
        raise
    if line is not None:
        try:
            from harness.checks import c16
            text = out.decode("utf-8") if line.pop("_utf8") and isinstance(out, bytes) else out
            line.update(ok=True, exc="none", out=c16.units(text))
            emit("canonjson", "canonicalize", line)
        except Exception:  # noqa
            STATE["errors"] += 1
    return out


# ------------------------------------------------------------------------------------------------ Versioning (C05)
def compress_times(values):
    """order-preserving map of microsecond instants into TLC's integer range: gaps above two seconds shrink to two seconds plus their
    sub-millisecond part, so that every difference below two seconds and every residue modulo one millisecond is kept"""
    out, prev, cur = {}, None, 0
    for v in sorted(set(values)):
        if prev is None:
            cur = v % 1000
        else:
            g = v - prev
            cur += g if g <= 2000000 else 2000000 + g % 1000
        out[v] = cur
        prev = v
    return out


def versioning_recorder(kind):
    def rec(orig, a, k):
        info = None
        try:
            with Busy():
                info = versioning_pre(kind, a, k)
        except Exception:  # noqa
            STATE["errors"] += 1
            if os.environ.get("STIX2_VERIF_TRACE_DEBUG"):
                import traceback
                traceback.print_exc()
        ok, exc, res = True, "none", None
        try:
            res = orig(*a, **k)
            return res
        except BaseException as e:  # noqa
            ok, exc = False, type(e).__name__
            raise
        finally:
            if info is not None:
                try:
                    with Busy():
                        line = versioning_post(kind, info, res, ok, exc)
                        if line is not None:
                            emit("versioning", kind, line)
                except Exception:  # noqa
                    STATE["errors"] += 1
                    if os.environ.get("STIX2_VERIF_TRACE_DEBUG"):
                        import traceback
                        traceback.print_exc()
    return rec


def _us(value):
    """microseconds since 2020-01-01T00:00:00Z of a timestamp in any form the library takes"""
    import stix2.utils as U
    d = U.parse_into_datetime(value)
    if d.tzinfo is not None:
        d = d.astimezone(dt.timezone.utc).replace(tzinfo=None)
    delta = d - dt.datetime(2020, 1, 1)
    return (delta.days * 86400 + delta.seconds) * 1000000 + delta.microseconds


def versioning_pre(kind, a, k):
    """projection of the argument of new_version / revoke onto the object record of spec/Versioning.tla; None when the call is outside the model
    (observables, types without versioning properties, dictionaries without `created`, more changed properties than the projection has slots)"""
    import stix2.base
    import stix2.utils as U
    from harness import impl_versioning as IV
    from harness import objects as O
    outside = lambda why: STATE["counts"].__setitem__(("versioning", "outside_model:" + why), STATE["counts"].get(("versioning", "outside_model:" + why), 0) + 1)  # noqa
    data = a[0] if a else k.get("data")
    kw = {n: v for n, v in k.items() if n not in ("data", "allow_custom")}
    if isinstance(data, stix2.base._STIXBase):
        if isinstance(data, stix2.base._Observable) or not {"created", "modified", "revoked"} <= set(data._properties):
            return outside("observable_or_unversionable")
        if "created" not in data:
            return outside("object_without_created")
        okind, v = "obj", "2.1" if "spec_version" in data._properties else "2.0"
        required = {n for n, p in data._properties.items() if getattr(p, "required", False)}
    elif type(data) is dict:
        if "created" not in data or "type" not in data:
            return outside("dictionary_without_created")
        try:
            v = U.detect_spec_version(data)
        except Exception:  # noqa
            return outside("dictionary_version")
        if U.is_sco(data, v):
            return outside("observable_or_unversionable")
        okind, required = "dict", set()
    else:
        return outside("not_an_object")
    if "revoked" in kw:
        return outside("explicit_revoked")          # revoke() itself arrives here a second time, through its inner call
    names = sorted(n for n in kw if n != "modified")
    unmod = [n for n in names if n in ("created", "created_by_ref", "id", "type")]
    req = [n for n in names if n not in unmod and n in required]
    opt = [n for n in names if n not in unmod and n not in required]
    if len(req) > 3 or len(opt) > 6:
        return outside("too_many_changes")
    slot = dict([(n, "req%d" % (i + 1)) for i, n in enumerate(req)] + [(n, "opt%d" % (i + 1)) for i, n in enumerate(opt)])
    plain = lambda x: json.dumps(O.plain(x), sort_keys=True, default=str)  # noqa
    pre_props = {s: "a" for s in ["req1", "req2", "req3"]}
    pre_props.update({s: "absent" for s in ["opt1", "opt2", "opt3", "opt4", "opt5", "opt6"]})
    pre_props["rest"] = "a"
    ch = {}
    for n, s in slot.items():
        pre_props[s] = "a" if n in data else "absent"
        ch[s] = "none" if kw[n] is None else "a" if n in data and plain(kw[n]) == plain(data[n]) else "b"
    for n in unmod:
        ch[n] = "none" if kw[n] is None else "x"
    times = {"created": _us(data["created"]), "modified": _us(data.get("modified") or data["created"])}
    if kind == "new" and "modified" in kw:
        try:
            times["m"] = _us(kw["modified"])
        except Exception:  # noqa
            return outside("unparsable_modified")
    rest = lambda o: plain({n: x for n, x in dict(o).items() if n not in slot and n not in ("modified", "revoked")})  # noqa
    times["ser_pre"] = _ser_us(data, v)
    return {"data": data, "v": v, "kind": okind, "slot": slot, "kw": kw, "ch": ch, "pre_props": pre_props, "times": times, "hasmod": "modified" in data,
            "revoked": bool(data.get("revoked")), "rest": rest(data), "snap": IV.snapshot(data), "plain": plain, "restf": rest,
            "ident": plain([data.get("type"), data.get("id"), data.get("created_by_ref")])}


def _ser_us(obj, v):
    """the modified instant as a reader of the serialized object sees it"""
    from harness import objects as O
    if hasattr(obj, "serialize"):
        d = json.loads(obj.serialize())
        return _us(d.get("modified") or d["created"])
    value = obj.get("modified") or obj.get("created")
    carrier = O.module(v).Campaign(name="carrier", created=value, modified=value)
    return _us(json.loads(carrier.serialize())["modified"])


def versioning_post(kind, info, res, ok, exc):
    import stix2.base
    from harness import impl_versioning as IV
    data, v, slot, plain = info["data"], info["v"], info["slot"], info["plain"]
    times = dict(info["times"])
    post_props = dict(info["pre_props"])
    if ok:
        pkind = "obj" if isinstance(res, stix2.base._STIXBase) and type(res) is type(data) else "dict" if type(res) is dict and type(data) is dict else "other"
        times["post_created"] = _us(res["created"])
        times["post_modified"] = _us(res["modified"])
        times["ser_post"] = _ser_us(res, v)
        for n, s in slot.items():
            post_props[s] = "absent" if n not in res else "a" if n in data and plain(res[n]) == plain(data[n]) else "b"
        post_props["rest"] = "a" if info["restf"](res) == info["rest"] else "b"
        same_id = plain([res.get("type"), res.get("id"), res.get("created_by_ref")]) == info["ident"]
        pv = v if pkind != "obj" else "2.1" if "spec_version" in res._properties else "2.0"
    t = compress_times(times.values())
    pre = {"v": v, "kind": info["kind"], "created": t[times["created"]], "modified": t[times["modified"]], "hasmod": info["hasmod"], "revoked": info["revoked"],
           "props": info["pre_props"]}
    opk = "revoke" if kind == "revoke" else "newmod" if "m" in times else "new"
    line = {"pre": pre, "ok": ok, "exc": exc, "orig_unchanged": IV.snapshot(data) == info["snap"], "type": str(data.get("type")), "via": "repository test",
            "now_known": False, "changed": sorted(slot), "lenient_refusal": True}
    if ok:
        line["post"] = {"v": pv, "kind": pkind, "created": t[times["post_created"]], "modified": t[times["post_modified"]], "hasmod": True,
                        "revoked": bool(res.get("revoked")), "props": post_props}
        line.update(same_id=same_id, ser_pre=t[times["ser_pre"]], ser_post=t[times["ser_post"]])
        now = t[times["post_modified"]]
    else:
        line.update(post=pre, same_id=True, ser_pre=t[times["ser_pre"]], ser_post=t[times["ser_pre"]])
        now = pre["modified"] + 5000
    line["op"] = {"k": opk, "ch": [[n, val] for n, val in sorted(info["ch"].items())], "now": now, "m": t[times["m"]] if "m" in times else 0}
    return line


# ------------------------------------------------------------------------------------------------ installation
def install():
    import stix2
    import stix2.base
    import stix2.canonicalization.Canonicalize as CZ
    import stix2.confidence.scales as scales
    import stix2.datastore.filesystem as FS
    import stix2.datastore.memory as MEM
    import stix2.environment
    import stix2.equivalence.graph  # noqa
    import stix2.equivalence.object  # noqa
    import stix2.equivalence.pattern  # noqa
    import stix2.markings
    import stix2.markings.granular_markings as GM
    import stix2.markings.object_markings as OM
    import stix2.markings.utils as MU
    import stix2.parsing
    import stix2.serialization
    import stix2.utils
    import stix2.versioning
    from stix2 import v20, v21

    which = set((os.environ.get("STIX2_VERIF_TRACE_WHICH") or "frame,timestamps,confidence,canonjson").split(","))
    if "timestamps" in which:
        wrap_function(stix2.utils.format_datetime, timestamps_recorder)
    if "confidence" in which:
        for fn in [n for n in dir(scales) if (n.startswith("value_to_") or n.endswith("_to_value")) and callable(getattr(scales, n))]:
            wrap_function(getattr(scales, fn), confidence_recorder(fn))
    if "canonjson" in which:
        wrap_function(CZ.canonicalize, canon_recorder)
    if "versioning" in which:
        wrap_function(stix2.versioning.new_version, versioning_recorder("new"))
        wrap_function(stix2.versioning.revoke, versioning_recorder("revoke"))
    if "frame" in which:
        for mod, names in ((stix2.parsing, ["parse", "dict_to_stix2", "parse_observable"]),
                           (stix2.versioning, ["new_version", "revoke", "remove_custom_stix"]),
                           (stix2.markings, ["get_markings", "set_markings", "add_markings", "remove_markings", "clear_markings", "is_marked"]),
                           (GM, ["get_markings", "set_markings", "add_markings", "remove_markings", "clear_markings", "is_marked"]),
                           (OM, ["get_markings", "set_markings", "add_markings", "remove_markings", "clear_markings", "is_marked"]),
                           (MU, ["expand_markings", "compress_markings", "convert_to_list", "convert_to_marking_list", "validate", "build_granular_marking"]),
                           (stix2.serialization, ["serialize", "fp_serialize"]),
                           (stix2.utils, ["deduplicate", "detect_spec_version"])):
            for n in names:
                if hasattr(mod, n):
                    wrap_function(getattr(mod, n), frame_recorder("%s.%s" % (mod.__name__, n)))
        wrap_method(stix2.base._STIXBase, "__init__", frame_recorder("_STIXBase.__init__", skip_self=True))
        wrap_method(stix2.base._STIXBase, "__deepcopy__", deepcopy_recorder)
        wrap_method(stix2.base._STIXBase, "__setattr__", setattr_recorder)
        for cls in (v20.Bundle, v21.Bundle):
            wrap_method(cls, "__init__", frame_recorder("%s.Bundle.__init__" % cls.__module__.split(".")[1], skip_self=True))
        for cls, names in ((MEM.MemorySink, ["add"]), (MEM.MemorySource, ["get", "all_versions", "query"]), (MEM.MemoryStore, ["__init__"]),
                           (FS.FileSystemSink, ["add"]), (FS.FileSystemSource, ["get", "all_versions", "query"]),
                           (stix2.datastore.CompositeDataSource, ["get", "all_versions", "query", "add_data_sources"]),
                           (stix2.environment.ObjectFactory, ["create", "__init__"])):
            for n in names:
                wrap_method(cls, n, frame_recorder("%s.%s" % (cls.__name__, n), skip_self=True))


if OUT:
    os.makedirs(OUT, exist_ok=True)
    install()


def pytest_runtest_setup(item):
    STATE["test"] = item.nodeid


def pytest_sessionfinish(session, exitstatus):
    if not OUT:
        return
    for f in STATE["files"].values():
        f.close()
    json.dump({"recorder_errors": STATE["errors"], "counts": {"%s:%s" % k: v for k, v in sorted(STATE["counts"].items())}, "cap_per_operation": CAP},
              open(os.path.join(OUT, "summary.json"), "w"), indent=1)
