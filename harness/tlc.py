"""Running TLC and reading what it printed.

Every registered check goes through run() here, so the way TLC is invoked
(classpath, metadir in scratch space, no trace-explorer spec, worker count)
is decided in one place.  Exit protocol: a TLC *machinery* failure (parse
error, crash, timeout) raises TlcFailure, which ./check turns into exit 2;
it is never reported as a property verdict.
"""
import json
import os
import re
import shutil
import subprocess
import tempfile
import time

JAR = "/opt/veriftools/tla/tla2tools.jar"
DEPS = "/opt/veriftools/tla/CommunityModules-deps.jar"
SPEC_DIR = os.path.join(os.path.dirname(os.path.dirname(os.path.abspath(__file__))), "spec")


class TlcFailure(Exception):
    pass


def scratch_root():
    for base in ("/dev/shm", tempfile.gettempdir()):
        if os.path.isdir(base) and os.access(base, os.W_OK):
            return base
    return tempfile.gettempdir()


def make_scratch(tag):
    return tempfile.mkdtemp(prefix="verif-%s-" % tag, dir=scratch_root())


class TlcResult(object):
    def __init__(self, out, rc, wall):
        self.out = out
        self.rc = rc
        self.wall = wall
        m = re.search(r"(\d+) states generated, (\d+) distinct states found", out)
        self.generated = int(m.group(1)) if m else 0
        self.distinct = int(m.group(2)) if m else 0
        m = re.search(r"depth of the complete state graph search is (\d+)", out)
        self.depth = int(m.group(1)) if m else 0
        self.completed = "Model checking completed. No error has been found." in out
        self.invariant_violated = re.findall(r"Invariant (\S+) is violated", out)
        self.property_violated = re.findall(r"(?:Action|Temporal) property (\S+) (?:is|was) violated", out)
        if "Temporal properties were violated" in out:
            self.property_violated.append("temporal")
        self.assume_failed = "Assumption" in out and "is false" in out
        self.deadlock = "Deadlock reached" in out
        self.tuples = self._tuples(out)

    @staticmethod
    def _tuples(out):
        """top-level <<...>> values TLC printed, also when it wrapped them over several lines"""
        res, buf, depth = [], [], 0
        for line in out.splitlines():
            if not buf and not line.startswith("<<"):
                continue
            buf.append(line.strip())
            # count brackets outside strings
            instr = False
            i = 0
            while i < len(line):
                c = line[i]
                if instr:
                    if c == "\\":
                        i += 1
                    elif c == '"':
                        instr = False
                elif c == '"':
                    instr = True
                elif line.startswith("<<", i):
                    depth += 1
                    i += 1
                elif line.startswith(">>", i):
                    depth -= 1
                    i += 1
                i += 1
            if depth <= 0:
                res.append(" ".join(buf))
                buf, depth = [], 0
        return res

    def marked(self, tag):
        """PrintT(<<"TAG", a, b, ...>>) lines with simple scalar fields."""
        res = []
        pre = '<<"%s"' % tag
        for l in self.tuples:
            if l.replace("<< ", "<<", 1).startswith(pre):
                res.append(parse_tla_tuple(l))
        return res

    def coverage_counts(self):
        """action name -> (distinct, total) from -coverage output."""
        res = {}
        for m in re.finditer(r"^<(\w+) line \d+, col \d+ to line \d+, col \d+ of module \w+(?: \((\d+) (\d+) \d+ \d+\))?>: (\d+):(\d+)", self.out, re.M):
            d, t = int(m.group(4)), int(m.group(5))
            name = m.group(1) + ("@line%s" % m.group(2) if m.group(2) else "")      # a disjunct of the next-state relation is reported by its position
            a = res.get(name, (0, 0))
            res[name] = (max(a[0], d), max(a[1], t))
        return res


def parse_tla_tuple(line):
    """Parse a one-line TLA+ tuple of strings / integers / booleans / nested tuples."""
    pos = [0]
    s = line.strip()

    def ws():
        while pos[0] < len(s) and s[pos[0]] in " \n\t":
            pos[0] += 1

    def val():
        ws()
        if s.startswith("<<", pos[0]):
            pos[0] += 2
            items = []
            ws()
            if s.startswith(">>", pos[0]):
                pos[0] += 2
                return items
            while True:
                items.append(val())
                ws()
                if s.startswith(",", pos[0]):
                    pos[0] += 1
                    continue
                if s.startswith(">>", pos[0]):
                    pos[0] += 2
                    return items
                raise ValueError("bad tuple at %d in %r" % (pos[0], s[:200]))
        if s[pos[0]] == '"':
            pos[0] += 1
            buf = []
            while s[pos[0]] != '"':
                if s[pos[0]] == "\\":
                    pos[0] += 1
                    c = s[pos[0]]
                    buf.append({"n": "\n", "t": "\t", "r": "\r", "f": "\f"}.get(c, c))
                else:
                    buf.append(s[pos[0]])
                pos[0] += 1
            pos[0] += 1
            return "".join(buf)
        m = re.match(r"-?\d+", s[pos[0]:])
        if m:
            pos[0] += len(m.group(0))
            return int(m.group(0))
        for lit, v in (("TRUE", True), ("FALSE", False)):
            if s.startswith(lit, pos[0]):
                pos[0] += len(lit)
                return v
        # anything else (records, sets): take raw text up to the matching close
        depth = 0
        start = pos[0]
        while pos[0] < len(s):
            if s.startswith("<<", pos[0]) or s[pos[0]] in "[{(":
                depth += 1
                pos[0] += 2 if s.startswith("<<", pos[0]) else 1
                continue
            if s.startswith(">>", pos[0]) or s[pos[0]] in "]})":
                if depth == 0:
                    break
                depth -= 1
                pos[0] += 2 if s.startswith(">>", pos[0]) else 1
                continue
            if s[pos[0]] == "," and depth == 0:
                break
            pos[0] += 1
        return s[start:pos[0]].strip()

    return val()


def run(module, cfg=None, workers=16, env=None, timeout=3600, simulate=None,
        depth=None, seed=None, coverage=False, scratch=None, extra=(), deadlock_cfg=True,
        heap=None, dfs=False):
    """Run TLC on spec/<module>.tla with spec/<cfg>.cfg.  Returns TlcResult."""
    own = scratch is None
    if own:
        scratch = make_scratch("tlc")
    meta = tempfile.mkdtemp(prefix="meta-", dir=scratch)
    cmd = ["java", "-XX:+UseParallelGC"]
    if heap:
        cmd.append("-Xmx%s" % heap)
    if dfs:
        cmd.append("-Dtlc2.tool.queue.IStateQueue=StateDeque")
    cmd += ["-cp", JAR + ":" + DEPS, "tlc2.TLC", "-workers", str(workers), "-metadir", meta,
            "-noGenerateSpecTE"]
    if cfg:
        cmd += ["-config", cfg if cfg.endswith(".cfg") else cfg + ".cfg"]
    if simulate:
        cmd += ["-simulate", simulate]
    if depth:
        cmd += ["-depth", str(depth)]
    if seed is not None:
        cmd += ["-seed", str(seed)]
    if coverage:
        cmd += ["-coverage", "1"]
    cmd += list(extra)
    cmd.append(module if module.endswith(".tla") else module + ".tla")
    e = dict(os.environ)
    e.pop("JAVA_TOOL_OPTIONS", None)
    if env:
        e.update({k: str(v) for k, v in env.items()})
    t0 = time.time()
    try:
        p = subprocess.run(cmd, cwd=SPEC_DIR, env=e, stdout=subprocess.PIPE, stderr=subprocess.STDOUT,
                           timeout=timeout, universal_newlines=True)
    except subprocess.TimeoutExpired as ex:
        subprocess.call(["pkill", "-f", meta])
        raise TlcFailure("TLC timed out after %ss on %s/%s" % (timeout, module, cfg))
    finally:
        shutil.rmtree(meta, ignore_errors=True)
        if own:
            shutil.rmtree(scratch, ignore_errors=True)
    res = TlcResult(p.stdout, p.returncode, time.time() - t0)
    if ("Parsing or semantic analysis failed" in p.stdout or "TLC threw an unexpected exception" in p.stdout
            or "Error: TLC threw" in p.stdout or ("Error:" in p.stdout and not (
                res.invariant_violated or res.property_violated or res.deadlock or res.assume_failed
                or "The behavior up to this point" in p.stdout))):
        if not (res.invariant_violated or res.property_violated or res.deadlock):
            if os.environ.get("VERIF_DEBUG"):
                open("/tmp/verif-debug-tlc.out", "w").write(p.stdout)
                if env and env.get("TRACE_FILE"):
                    shutil.copy(env["TRACE_FILE"], "/tmp/verif-debug-trace.ndjson")
            raise TlcFailure("TLC failed on %s/%s:\n%s" % (module, cfg, p.stdout[-4000:]))
    return res


def sany(module):
    p = subprocess.run(["java", "-cp", JAR + ":" + DEPS, "tla2sany.SANY", module], cwd=SPEC_DIR,
                       stdout=subprocess.PIPE, stderr=subprocess.STDOUT, universal_newlines=True)
    ok = p.returncode == 0 and "Semantic errors" not in p.stdout and "Parse Error" not in p.stdout \
        and "Could not" not in p.stdout and "Fatal" not in p.stdout
    return ok, p.stdout


def write_ndjson(path, records):
    with open(path, "w") as f:
        for r in records:
            f.write(json.dumps(r, separators=(",", ":"), ensure_ascii=True))
            f.write("\n")
