"""Regenerates /verif/MANIFEST.json from the table below (python -m harness.manifest) and validates it
and every evidence file against the schemas in /root/.vp when those are present."""
import json
import os
import sys

VERIF = os.path.dirname(os.path.dirname(os.path.abspath(__file__)))

SYSTEM_STAGE = {"C05": "exhaustively on small constants (quick: one 2.0 object, three handles; thorough: both objects, two markings)",
                "C13": "exhaustively on small constants (quick: one 2.1 object, three handles; thorough: both objects, two markings)",
                "C18": "exhaustively on small constants (quick: one 2.0 object, three handles; thorough: both objects, two markings)",
                "C01": "on every simulated behaviour", "C07": "on every simulated behaviour", "C08": "on every simulated behaviour", "C11": "on every simulated behaviour",
                "C12": "on every simulated behaviour"}
SYSTEM_NOTE = " In the other direction a seeded random driver far outside the model's constants records every call (mutators, additions, reads) and Trace_Stix2System.tla re-computes each answer with the composition's operators; three corrupted lines must be rejected (binding self-test)."
GEN7 = {
    "C01": "content of a custom type is met by the parser before the type is registered (stand-alone, bundle member, container member), then registered, then round-tripped.",
    "C02": "timestamp VALUES donated by objects of the other spec version (and of bundles) to constructors and new_version(modified=...): the receiving property's precision rules apply.",
    "C03": "valid instances on the boundary of every order constraint of the frozen model (equal instants where admitted, one millisecond apart, far apart).",
    "C04": "the constructors' keyword custom_properties arriving as a member of nested JSON (embedded objects, container members, bundle members).",
    "C05": "kind sco4 in Versioning.tla: an observable whose identifier its producer chose (not UUIDv5) has no locked properties, interleaved with UUIDv5 ones of the same type.",
    "C06": "containers the caller goes on using after handing them over (templates filled in a loop): the identifier stays that of the content held.",
    "C08": "hosts in which one Python container instance stands at two places.",
    "C10": "TLC-enumerated and random patterns are also parsed under the 2.0 grammar where that grammar admits them.",
    "C11": "load_from_file into a store that already holds versions of the same ids.",
    "C12": "one long-lived filesystem source asked before and after a type directory comes into being / changes layout.",
    "C13": "factory defaults given as the caller's lists, create() with single values, lists or nothing, list_append on and off, several calls in a row.",
    "C14": "stored files re-read under the other version arguments (by the same and by another source) before the judged read.",
    "C15": "datetimes sharing ONE tzinfo object whose offset depends on the date (hand-made daylight-saving zones and zoneinfo zones).",
    "C17": "the registry state includes what every registered class says about itself (property tables by name and identity); refused objects claiming several registered extensions.",
    "C18": "filters attached to a composite / environment / outer composite over one member holding several versions of an id in every storage order.",
    "C19": "one definition class registered for both spec versions (with and without an extension of its own, either order, derived class): both types keep the built-in guarantees.",
}
GEN8 = {
    "C02": "the meta objects (language content, extension definition) are generated like every other type; key selector corruptions always run.",
    "C03": "valid hosts carrying registered extensions of different kinds in every document order (host part judged by the frozen model, extension part by the registered definitions).",
    "C04": "members named like the parser's own keywords (allow_custom, interoperability) next to custom content, on the object and on the enclosing bundle.",
    "C05": "the meta objects in the type tables.",
    "C06": "a contributing timestamp as text, datetime and as the timestamp value of other objects' properties: one identifier.",
    "C07": "a third of the marking calls hand the marking over as a marking-definition object.",
    "C08": "custom types with an extension of their own as hosts; hosts that arrive marked (found and repaired KF-C08-3).",
    "C10": "grouping by operator precedence alone, at both levels.",
    "C14": "content already built as a library object handed to parse() with every version argument.",
    "C17": "2.0 network-traffic generated; stand-alone 2.0 observables with resolvable references; rules that only the other spec version has, broken through every entry.",
    "C19": "property tables given as dictionaries the caller extends afterwards.",
    "C20": "every ordered pair of arguments per conversion and descending / shuffled sweeps: answers do not depend on earlier calls.",
}
# property id -> (engine, technique, level text, level note, design ref)
CHECKS = {
    "C20": ("confidence", "TLA+ spec of the five scale tables; TLC exhaustive; complete table replay + trace validation",
            "TLC checks partition / totality / monotonicity / round trip / refusal on the specification's tables and call machine "
            "(complete: the domain is finite); every cell of the TLC-computed result table is replayed on the implementation and the "
            "implementation's answers on a wider domain are validated by the trace spec. The domain is finite and covered completely, "
            "so model checking plus complete conformance is the right level. The repository's own test-suite, recorded from outside by harness/record_plugin.py, is a further driver: every recorded call is validated by the same trace spec (stage S3b).",
            "Trusted: the transcription of STIX 2.1 Appendix A into spec/Confidence.tla; label spellings as documented by the library.",
            "DESIGN.md §3.12"),
    "C15": ("timestamps", "TLA+ integer-arithmetic spec of timestamp text; TLC exhaustive (all us values, all days in thorough); table replay + trace validation",
            "TLC checks on spec/Timestamps.tla that the library's formatting rule satisfies canonical shape / digit count / same-instant-truncated / fixed point / order "
            "for every boundary input (thorough: all 10^6 microsecond values x 6 precision settings and all 3.65M calendar days). The implementation is bound by replaying "
            "the TLC-computed table through every input form and by validating thousands of recorded executions (datetimes, dates, text spellings, STIXdatetime, object properties) "
            "against the property predicates evaluated by TLC. The repository's own test-suite, recorded from outside by harness/record_plugin.py, is a further driver: every recorded call is validated by the same trace spec (stage S3b).",
            "Trusted: proleptic Gregorian arithmetic in the spec (checked invertible by TLC); Python datetime only to build inputs. Outside the replayed table conformance is sampling.",
            "DESIGN.md §3.9"),
    "C05": ("versioning", "TLA+ state machine of new_version/revoke with the clock as environment-chosen argument; TLC exhaustive; case-table replay + trace validation",
            "TLC explores every clock reading (earlier/equal/sub-precision/later) x operation x change set on chains and branches of versions of objects and dicts of both spec versions and "
            "checks chain monotonicity of serialized times, identity preservation, exact changes, revoked-terminal, immutability. Every one-step case TLC computes is replayed on real objects "
            "with the clock substituted, and long random histories over all versionable types are validated line by line by the trace spec. The repository's own test-suite, recorded from "
            "outside by harness/record_plugin.py, is a further driver: every new_version / revoke call its tests make on a versionable object or dictionary is projected onto the object "
            "record (changed properties in slots, the rest as one digest, instants compressed order- and millisecond-preserving) and validated by the same trace spec (stage S3b).",
            "Trusted: clock substitution through stix2.versioning.get_timestamp; projection in harness/impl_versioning.py. Times relative to a base instant within 2^31 us.",
            "DESIGN.md §3.2"),
    "C16": ("canonjson", "TLA+ transcription of RFC 8785 (UTF-16 key order, escapes, ES6 number layout) with a JSON reader; TLC exhaustive over small values; table replay + trace validation",
            "TLC checks on spec/CanonJson.tla that canonical text is order-independent, whitespace-free, reads back to the same value and is a fixed point, over all small values "
            "(keys where UTF-16 and code-point order disagree, every escape class, digit strings x exponents -10..25, nesting 2, NaN/inf refusal). RFC 8785 determines the output "
            "completely, so conformance is equality: every TLC-computed text is compared with the implementation's, and random values/doubles are validated by the trace spec "
            "(number layout from digits established by exact rational arithmetic). The repository's own test-suite, recorded from outside by harness/record_plugin.py, is a further driver: every recorded call is validated by the same trace spec (stage S3b).",
            "Trusted: exact-rational shortest-digit check in the harness (fractions); floats with <=15 digits reconstruct exactly; well-formed Unicode only.",
            "DESIGN.md §3.10"),
    "C14": ("versionrouting", "TLA+ spec of version detection and the routing rule; TLC enumerates the complete (version argument x content shape x id class x allow_custom) matrix; every cell replayed through every entry point and validated by the trace spec",
            "The rule 'outcome = direct parse with the named, else detected, version; identifiers a version does not admit are never accepted' is checked by TLC on the full matrix and the "
            "matrix is replayed completely through 15 public entry points in every input form (dict, JSON text, lists, bundles, planted files), plus a sweep of every versionable built-in type x "
            "identifier class on id and reference properties. The space is finite and covered completely at the abstraction chosen. Absolute clauses besides the relative ones: identifiers a version does not admit and references to a type only the other version has are never accepted strictly, through parse, memory and filesystem entry points; wrappers in the other version's style and member-less bundles are part of the matrix.",
            "Trusted: the direct parse measured on the same content is the routing reference; identifier acceptance per version is frozen in the spec; MemorySink() read through _data.",
            "DESIGN.md §3.8"),
    "C19": ("registry", "TLA+ state machine of the per-version, per-category registries; TLC exhaustive over registration histories with action properties; TLC-generated behaviours replayed on the real registries; trace validation of random histories and a naming sweep",
            "TLC checks ExactlyOne / Exclusive (action properties), OnlyValidNames and TagsUnique over all histories of up to 3 successful registrations interleaved with lookups and parses, "
            "4 categories x 2 versions. All depth-2 behaviours and simulated depth-6 behaviours generated by TLC are replayed through the four decorators of v20 and v21 with the registries "
            "compared after every step; random histories and every character class in first/middle/last position at boundary lengths are validated by the trace spec.",
            "Trusted: registries restored from a snapshot between histories; naming rules frozen in the spec (double hyphens lenient). Custom types are fed to the round-trip/versioning pipelines by C01/C05.",
            "DESIGN.md §3.11"),
    "C07": ("markings", "TLA+ set-algebra model of granular/object markings; TLC proves the algebraic laws over all states and explores the operation machine; TLC-simulated behaviours replayed on real objects; trace validation of random histories",
            "TLC checks the laws (add reported/idempotent/commutative, remove restores, clear leaves others, set = clear;add, queries agree, ancestry by path steps) as theorems over every G,O "
            "of the model universe and the version discipline on the state machine. Simulated behaviours (mutators and queries with all flag combinations) are replayed through functions and "
            "methods on SDO/SRO objects of both versions and dicts realising the hazard selectors, and random histories on every SDO/SRO type are validated line by line. MarkingsLayout.tla states and TLC checks the abstraction from entry lists to pair sets and the layout independence of the mutators (negative config: first-match removal); the drivers re-lay the concrete list between steps (exploded / overlapping / repeated / shuffled), start from content that arrives marked, and branch from earlier objects.",
            "Trusted: projection of granular_markings to pairs; 'no change' outcomes (object returned / MarkingNotFoundError) are not distinguished; multi-marking is_marked not generated.",
            "DESIGN.md §3.4"),
    "C08": ("markings", "TLA+ path enumeration over JSON trees; TLC enumerates every path and near miss of real maximal instances; each candidate replayed through construction, parse and every marking function; trace validation",
            "Selectors.tla defines what a selector addresses independent of stored values; TLC checks it on a hazard tree and computes, for a maximal instance of every versionable type of both "
            "versions plus observables with extensions and a 2.0 container, the complete candidate list (all paths, all near misses) with verdicts; every candidate goes through constructor, "
            "parse, add/set/clear/remove/get/is_marked and the observed verdict is validated by the trace spec.",
            "Trusted: object-to-tree projection (harness/impl_markings.py); selector steps outside the syntax character set carry no obligation.",
            "DESIGN.md §3.4"),
    "C11": ("datastore", "TLA+ model of stores as the plain set of additions; TLC exhaustive over addition orders/forms; TLC-simulated behaviours replayed on MemoryStore + FileSystemStore + a list; trace validation of random histories",
            "TLC checks on spec/DataStore.tla that both stores hold exactly what was added (nothing lost or replaced, reads independent of order and form) for every history of up to 4 additions "
            "over a universe with sub-millisecond versions, an unversioned observable, a 2.0 type and a dictionary-kept custom type. Simulated behaviours (adds in six input forms, get / all_versions / "
            "query / save-load) are replayed on a memory store and a filesystem store side by side, and random populations are validated read by read against the scan semantics evaluated by TLC.",
            "Trusted: abstract<->concrete object mapping (harness/impl_datastore.py); equal (id, modified) only re-added with identical content; filesystem re-addition refused loudly (named deviation).",
            "DESIGN.md §3.6"),
    "C12": ("datastore", "TLA+ filter semantics (Holds) and a transcription of the filesystem search optimizer; TLC proves pruning soundness for every filter sequence; complete table replay through FileSystemSource.query; trace validation of random queries over three filter routes",
            "TLC checks PruningSound and order-independence for all 44k sequences of <=3 type/id filters (every operator, empty/contradictory/repeated) on spec/FsOptimizer.tla and the conjunction/shrinking laws "
            "on DataStore.tla. Every sequence of <=2 filters (sampled at 3) is replayed through the filesystem and memory sources against TLC's expected ids, and random queries with every operator on "
            "every property kind, as argument / attached / passed down by a composite (including a member asked directly afterwards), are validated by the trace spec.",
            "Trusted: order-preserving integer stand-ins for strings; 'contains' only where substring and equality coincide.",
            "DESIGN.md §3.6"),
    "C18": ("datastore", "TLA+ federation and navigation operators (union, newest, de-duplication, Rels/RelatedTo/CreatorOf as scans); trace validation of composites over memory and filesystem members in random attachment orders and of navigation through store, composite and Environment",
            "The composite's answers are specified as functions of the union of its members and navigation as comprehensions over the stored relationship objects; random partitions with overlaps and different "
            "versions over 2-3 members (memory and filesystem) are queried through CompositeDataSource and Environment with filters on both levels, and relationships / related_to / creator_of "
            "(type, source-only, target-only, extra filters, id or object argument, self-loops, hyphenated types) are validated line by line by TLC.",
            "Trusted: reference = de-duplicated union keyed by (id, modified); get under attached filters may answer nothing (documented deviation).",
            "DESIGN.md §3.6"),
    "C06": ("detid", "TLA+ spec of the contributing view, hash choice and RFC 8785 preimage (on CanonJson.tla); TLC checks permutation/non-contributing invariance and contributing sensitivity; TLC computes the preimage of every generated observable, the harness applies UUIDv5 and compares with the library's id along several creation routes",
            "TLC checks on spec/DetId.tla that re-ordering and non-contributing edits keep the preimage and contributing edits change it, and evaluates View/ChooseHash/Canon for every observable the "
            "harness generates (all 18 built-in 2.1 observable types and a registered custom observable, random subsets of contributing and non-contributing properties, falsy values, escapes, "
            "nested extensions with floats, hash dictionaries in every order). The id must equal type--uuid5(namespace, that preimage) via keyword arguments, parsed JSON in shuffled order, "
            "after a round trip, after non-contributing changes, and across processes; with nothing contributing it must be a fresh UUIDv4. Histories: other objects of the type are versioned, revoked, copied, serialized and parsed permissively, then the same content must get the same identifier; floats at every RFC 8785 layout boundary, nested multi-entry hash dictionaries and free-form float lists are in the contributing content.",
            "Trusted: SHA-1/UUIDv5 from hashlib/uuid; contributing lists transcribed from the STIX 2.1 text; floats tagged through Python's shortest repr.",
            "DESIGN.md §3.3"),
    "C09": ("patterns", "TLA+ STIX patterning semantics (bindings over bounded observation sequences); TLC proves every documented rewrite sound for all operand choices; trace validation of the implementation's verdicts and normal forms against Sem",
            "TLC checks on spec/PatternSem.tla + MC_PatternLaws.tla that all 24 documented rewrites are sound for every operand choice (1600 instances over 313 observation sequences each) and that "
            "non-laws (observation-level AND idempotence, FOLLOWEDBY commutation, absorption under REPEATS) are distinguished. For generated patterns the library's verdict on (pattern, documented rewrite), "
            "(pattern, near-rewrite), (pattern, sub-expression) and the library's own normal form are judged by TLC evaluating Sem on both sides (soundness, recognition of single documented rewrites), "
            "plus totality on valid patterns of the whole grammar and reflexivity / symmetry / transitivity / find_equivalent_patterns on batches. Constants of every kind on ordinary and special paths are renamed jointly into the vocabulary (the trace spec re-computes the denotation of CIDR blocks and case-insensitive names itself), so soundness is judged there too; an absorption grid, full distribution of alternating patterns and integers around 2^53 are enumerated.",
            "Trusted: the stix2-patterns grammar decides validity; the bounded universe (one type, two integer properties, <=3 observations, 2 instants) limits which inequivalences are visible; normal form read via _get_pattern_normalizer.",
            "DESIGN.md §3.5"),
    "C10": ("patterns", "TLA+ printing/grouping/normal-structure operators on the pattern AST; TLC checks grouping preserves structure and meaning and enumerates ASTs with their token sequences; trace validation of parse/print round trips by structure (Norm) and meaning (Sem)",
            "spec/PatternPrint.tla places parentheses where the grammar needs them and defines structure up to redundant grouping; TLC checks this on an enumerated AST set (every comparison operator with and "
            "without NOT, both precedence levels, all qualifiers, stacked qualifiers) and hands the token sequences to the replayer. Each AST goes text -> create_pattern_object -> str -> parse, and separately "
            "is assembled from the public model classes and printed; structure and (inside the vocabulary) meaning are compared by TLC, fixed point of print o parse is required. Random ASTs add every constant "
            "kind, escapes, quoted/indexed/reference path steps.",
            "Trusted: stix2-patterns grammar for validity; the harness's own printer and projection (harness/impl_patterns.py); out-of-vocabulary structure compared by the harness's norm().",
            "DESIGN.md §3.5"),
    "C01": ("objectmodel", "TLA+ lifecycle model (construct / serialize with defaulted-slot bookkeeping / reparse) checked exhaustively; round trips of model-generated objects under all option sets validated by a trace spec that reads defaults and property order from the frozen specification model",
            "TLC checks RoundTripEqual and OptionsSameValue on spec/ObjectModel.tla for every input class vector, both custom settings and both default-inclusion settings (203k states). Objects of every type of both "
            "versions generated from the frozen model (plus custom properties, bundles, a 2.0 container, objects built from other objects' values, registered custom types, top-level and nested registered "
            "extensions in alternating combinations) are serialized under the 16 option sets and parsed back without naming a version; class identity, ==, byte equality of the second text, equality of option "
            "sets up to dropped defaults, which properties may be dropped and the pretty key order are judged by TLC against the model.",
            "Trusted: the frozen model spec/frozen/model2x.json (bootstrapped from the pinned commit, audited by hand, see AUDIT.md) with lenient entries creating no obligation; the lexer states leaf facts only; byte-level JSON is simplejson's.", "DESIGN.md §3.1"),
    "C02": ("objectmodel", "TLA+ validity predicate over the frozen specification model (SpecValid.tla, with selector addressing from Selectors.tla) evaluated by TLC on every strict-mode output; inputs are the single-point corruptions of model-generated valid objects, enumerated from the model",
            "TLC checks StrictOutputValid on the lifecycle model and evaluates SpecValid (required, kinds, ranges, enumerations, reference targets, identifier and timestamp classes, no nulls / empty containers, "
            "inter-property constraints, selectors addressing something) on the lexed serialization of everything strict mode produced from: each valid base, each (type, property, corruption kind) triple "
            "(removed, every wrong JSON kind, off-by-one ranges, non-finite floats, out-of-vocabulary, 12 identifier spellings, disallowed/unregistered reference types, 7 timestamp spellings, bad hex/base64/hash, "
            "unknown property, each violated constraint, 7 selector corruptions) through parse(text), parse(dict) and the constructor, and junk inputs.",
            "Trusted: the frozen model spec/frozen/model2x.json (bootstrapped from the pinned commit, audited by hand, see AUDIT.md) with lenient entries creating no obligation; the lexer states leaf facts only; byte-level JSON is simplejson's.", "DESIGN.md §3.1"),
    "C03": ("objectmodel", "TLA+ validity predicate decides which generated inputs are specification-valid; strict parsing of those (alone, in a bundle, in a 2.0 container) must succeed and preserve content; trace validation",
            "TLC checks ValidAccepted on the lifecycle model. For every type of both versions the generator (driven by the frozen model, never the library) produces required-only / everything / each optional property alone / "
            "random subsets / every enumeration entry, boundary number, falsy value, timestamp spelling (1-9 digits), reference target type, a granular marking on each property, and inter-referencing 2.0 containers; "
            "TLC first decides from the model whether the input is valid (invalid inputs create no obligation), then requires acceptance, slot-by-slot preservation (timestamps as instants) and that only optional defaults are added.",
            "Trusted: the frozen model spec/frozen/model2x.json (bootstrapped from the pinned commit, audited by hand, see AUDIT.md) with lenient entries creating no obligation; the lexer states leaf facts only; byte-level JSON is simplejson's.", "DESIGN.md §3.1"),
    "C04": ("objectmodel", "TLA+ lifecycle model checks strict refusal and flag <=> strict-reparse-refusal for every injection place of the synthetic schema; injection places of every real type are derived from the frozen model and replayed in strict and permissive mode; trace validation",
            "TLC checks StrictRefuses and FlagIffStrictRefusal exhaustively on spec/ObjectModel.tla. For every type, custom content is injected at every place the frozen model offers (top level, each embedded object, "
            "registered extensions, unregistered extension keys first/last, library-known-but-non-specification and unknown hash algorithms, references to unregistered and to other-version-only types through "
            "whitelists / generic categories / blacklists, bundle members, 2.0 container members, a clean control); strict mode must refuse, permissive mode must set has_custom exactly when a strict parse of the serialization is refused.",
            "Trusted: the frozen model spec/frozen/model2x.json (bootstrapped from the pinned commit, audited by hand, see AUDIT.md) with lenient entries creating no obligation; the lexer states leaf facts only; byte-level JSON is simplejson's.", "DESIGN.md §3.1"),
    "C17": ("objectmodel", "TLA+ lifecycle model checks that every failing step maps to the documented error family; junk inputs (whole documents, wrong kinds in every inspected member at every nesting level, malformed container members, odd member names, deep nesting) validated by a trace spec; registry/store snapshots around failures",
            "TLC checks NoInternalEscape on spec/ObjectModel.tla. Arbitrary JSON values as whole input, every type with each of 15 inspected members replaced by each of 9 JSON kinds (with the version named and left to detection, "
            "strict and permissive), junk inside embedded objects / extensions / members, bundle members and container entries lacking what dispatch inspects, odd custom member names, nesting to 800 levels, and all C02 corruptions "
            "are parsed / constructed; whatever escapes must be a STIXError, ValueError or TypeError, successes in strict mode must be valid (C02), and failed constructions / registrations / store additions must leave registries and stores unchanged.",
            "Trusted: the frozen model spec/frozen/model2x.json (bootstrapped from the pinned commit, audited by hand, see AUDIT.md) with lenient entries creating no obligation; the lexer states leaf facts only; byte-level JSON is simplejson's.", "DESIGN.md §3.13"),
    "C13": ("frame", "TLA+ heap model with the frame condition as an action property (NoMutation), checked by TLC; TLC-simulated behaviours of abstract operations replayed through ~120 public calls with deep before/after snapshots; trace validation; catalogue pass applying every call twice to the same input",
            "TLC checks on spec/Frame.tla that no library step changes an existing heap cell, that objects stay put, and (negative config) that an in-place 'new version' is caught. Behaviours generated by TLC "
            "(caller_makes / caller_mutates / construct / new_version / deepcopy / gather / assign_refused, with the cells and objects they touch) are replayed on the library: every abstract step is realised by one of the "
            "public calls (constructors, parse, parse_observable, Bundle in every positional form, stores, factory, environment, versioning and marking functions on objects and dictionaries, serialization, deepcopy, "
            "setattr/delattr/item assignment) on nested argument shapes of both spec versions; snapshots of all arguments, all earlier objects, the shared TLP constants and similarity weights are compared by the trace spec. The repository's own test-suite, recorded from outside by harness/record_plugin.py, is a further driver: every recorded call is validated by the same trace spec (stage S3b).",
            "Trusted: the snapshot function (container kinds, list order, dictionary content, leaf types; key order ignored). Stores/sinks/factories are receivers that change by design. Outside the catalogue and the generated shapes nothing is claimed; object similarity needs rapidfuzz (absent) and only its error path runs.",
            "DESIGN.md §3.14"),
}

NOT_YET = {}

ENGINES = [
    {"name": "tlc", "path": "harness/tlc.py", "kind_free_text": "TLC 1.8 explicit-state model checker: exhaustive MC_*.cfg, Neg_*.cfg negative configs, Trace_*.tla trace validation", "serves_properties": sorted(CHECKS)},
]


def build():
    props = [json.loads(l) for l in open(os.path.join(VERIF, "properties.jsonl"))]
    checks = []
    na = []
    for p in props:
        pid = p["id"]
        if pid in CHECKS:
            eng, tech, text, note, ref = CHECKS[pid]
            if pid in SYSTEM_STAGE:
                tech += "; composition spec Stix2System.tla (TLC exhaustive / simulated behaviours replayed call by call)"
                text += (" A further stage binds the composition spec/Stix2System.tla (one population of objects going through versioning, every marking operation as a versioning step, "
                         "selector re-validation, round trips and copies, memory and filesystem stores and their federation): TLC checks its invariants (frame, chain monotonicity through every "
                         "producer of versions, no dangling selector, copies equal, nothing lost, lookups never stale, federation newest) " + SYSTEM_STAGE[pid] +
                         "; TLC-generated behaviours (seven handles, two markings, six clock steps) are replayed call by call through the public interface and every produced object, read answer and "
                         "error class is compared with the specification's; deviations are attributed to this property by the clause they break.")
            if pid in GEN7:
                text += " Generation-7 strengthening: " + GEN7[pid]
            if pid in GEN8:
                text += " Generation-8 strengthening: " + GEN8[pid]
            checks.append({
                "property_id": pid,
                "quick_cmd": "./check %s --tier quick" % pid,
                "thorough_cmd": "./check %s --tier thorough" % pid,
                "evidence_file": "evidence/%s.json" % pid,
                "replay_cmd_template": "./check %s --replay {path}" % pid,
                "engine": "tlc",
                "level_claimed": {"category": "model_checking", "text": text, "design_ref": ref},
                "level_note": note,
                "technique": tech,
            })
        else:
            na.append({"property_id": pid, "reason": NOT_YET.get(pid, "check not built yet in this round (planned: see DESIGN.md §3); not claimed until its machinery exists")})
    m = {
        "version": 1,
        "setup_cmd": "./setup.sh",
        "hooks": {
            "guard": "STIX2_VERIF_TRACE",
            "enable": "no source hooks in /repo. The only instrumentation is /verif/harness/record_plugin.py, loaded from outside into a run of the repository's own tests "
                      "(cd /repo && STIX2_VERIF_TRACE=<dir> PYTHONPATH=/verif pytest -p harness.record_plugin ...): it wraps public callables at import time and writes one NDJSON "
                      "file per trace specification; without the guard variable it does nothing. Stages S3b of C05, C13, C15, C16 and C20 run it.",
            "baseline_off_cmd": "cd /repo && /venv/bin/python -m pytest -ra -q -p no:cacheprovider --timeout=900 --continue-on-collection-errors",
            "source_commits": [],
            "add_only": True,
        },
        "engines": ENGINES,
        "checks": checks,
        "not_applicable": na,
        "notes": "All checks: ./check <id> [--tier quick|thorough] [--replay file]; exit 0 held / 1 VIOLATION / 2 machinery failure. See DESIGN.md.",
    }
    return m


def validate(m):
    try:
        import jsonschema
    except ImportError:
        return
    sp = "/root/.vp/MANIFEST.schema.json"
    if os.path.exists(sp):
        jsonschema.validate(m, json.load(open(sp)))
    ep = "/root/.vp/EVIDENCE.schema.json"
    if os.path.exists(ep):
        sch = json.load(open(ep))
        for c in m["checks"]:
            f = os.path.join(VERIF, c["evidence_file"])
            if os.path.exists(f):
                jsonschema.validate(json.load(open(f)), sch)
            else:
                print("warning: no evidence yet for", c["property_id"], file=sys.stderr)


if __name__ == "__main__":
    m = build()
    validate(m)
    with open(os.path.join(VERIF, "MANIFEST.json"), "w") as f:
        json.dump(m, f, indent=1)
        f.write("\n")
    print("MANIFEST.json: %d checks, %d not claimed" % (len(m["checks"]), len(m["not_applicable"])))
