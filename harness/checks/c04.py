"""C04 -- custom content is admitted only on request and is always detected.  Specs: ObjectModel.tla (S1: StrictRefuses, FlagIffStrictRefusal), Trace_ObjectModel.tla."""
import json

from .. import common
from . import om

PREFIX = "C04:"


def run(chk):
    quick = chk.tier == "quick"
    chk.rule = ("a case is (valid object, place where custom content is injected, allow_custom setting): places are derived from the frozen model for every type (top level, each embedded object, "
                "each registered extension, unregistered extension keys, hash dictionaries, each reference, bundle members, 2.0 container members); distinct_nontrivial counts distinct "
                "(version, type, place, mode, outcome)")
    chk.assumptions = ["the custom_properties= keyword is itself a request for customisation and is never used to smuggle content in strict mode (documented API)",
                       "extension keys of the form extension-definition--<uuid> are not generated (the library documents them as non-custom)"]
    om.s1(chk)
    lines = om.custom_lines(chk, quick)
    for ln in lines:
        chk.case([ln["v"], ln["key"], ln["place"].split(":")[0:2], ln["mode"], ln["refused"], ln["has_custom"], ln["strict_reparse_refused"]])

    def rep(ln, clause, extra):
        chk.violation({"entry": "parse(allow_custom=%s)" % (ln["mode"] == "permissive"), "clause": clause, "case": "%s %s place=%s" % (ln["v"], ln["key"], ln["place"][:70])},
                      {"line": ln, "clause": clause}, "S2")
    rejected = om.validate(chk, lines, PREFIX, rep)
    chk.sample({"custom_line": {k: v for k, v in lines[0].items() if k != "input"}})
    good = [json.loads(json.dumps({k: x[k] for k in om.KEEP["custom"]})) for i, x in enumerate(lines) if i not in rejected and x["mode"] == "permissive" and not x["refused"]][:8]
    good[3]["has_custom"] = not good[3]["has_custom"]
    rej = common.validate_trace(chk, "Trace_ObjectModel", "Trace_ObjectModel", good, "S4_selftest", env={"MODEL_FILE": om.lex.model_file("2.1")}, count=False)
    hit = sorted({r[0] for r in rej})
    ok4 = hit == [4]
    chk.notes["binding_selftest"] = {"corrupted_lines": 1, "rejected_lines": len(hit), "ok": ok4}
    if not ok4:
        chk.machinery("binding self-test failed: %r" % (rej,))


def replay(path):
    d = json.load(open(path))["detail"]["line"]
    if isinstance(d.get("input"), dict) and set(d["input"]) == {"generated"}:
        # a line of a systematic stage (objects built by the harness, sequences): re-run the stage and show the lines of the same name
        from .. import common

        class Quiet(object):
            tier, seed = "quick", 0
            import random as _r
            rng = _r.Random(0)
            notes, stages = {}, {}
            scratch = common.tlc.make_scratch("replay")

            def case(self, *a, **k):
                pass
        name = d.get("place") or d.get("ctx")
        lines = [ln for ln in om.custom_lines(Quiet(), True) if (ln.get("place") or ln.get("ctx")) == name]
        print(json.dumps({"recorded": {k: v for k, v in d.items() if k != "doc"}, "now": [{k: v for k, v in ln.items() if k not in ("doc", "output")} for ln in lines[:6]]}, indent=1, default=str)[:4000])
        return 0
    print(json.dumps(om.custom_one(d["v"], d["key"], d["place"], d["input"], d["mode"], om.is_obs20(d["key"], d["v"])), indent=1)[:3000])
    return 0
