"""C11 / C12 / C18 -- stores, filters, federation.  Specs: spec/DataStore.tla, spec/FsOptimizer.tla.  c12.py and c18.py share this pipeline."""
import copy
import json
import os
import shutil
import tempfile

from .. import common, tlc
from .. import impl_datastore as D

PREFIX = "C11:"
FORMS = ["object", "dict", "list", "bundle_obj", "bundle_dict", "json"]


class Pair(object):
    """a MemoryStore and a FileSystemStore fed with the same additions, plus the plain list"""

    def __init__(self, scratch):
        import stix2
        self.dir = tempfile.mkdtemp(prefix="c11-", dir=scratch)
        self.mem = stix2.MemoryStore(allow_custom=True)
        self.fs = stix2.FileSystemStore(self.dir, allow_custom=True)
        self.listed = {"mem": [], "fs": []}          # abstract records, the plain list per store
        self.ref = {}                                  # (id, ver) -> the dict that was added

    def add(self, form, recs, rng=None):
        dicts = [D.build(r, spelling=(rng.choice(["min", "ms"]) if rng else "min")) for r in recs]
        res = {}
        for name, store in (("mem", self.mem), ("fs", self.fs)):
            f = form
            if name == "mem" and form == "json":
                f = "dict"          # the memory sink does not document JSON text
            try:
                store.add(D.in_form(f, dicts))
                res[name] = "ok"
                for r in recs:
                    if r not in self.listed[name]:
                        self.listed[name].append(r)
            except Exception as e:  # noqa
                res[name] = type(e).__name__
        for r, d in zip(recs, dicts):
            self.ref.setdefault((r["id"], r["ver"]), d)
        return res

    def close(self):
        shutil.rmtree(self.dir, ignore_errors=True)


WATCH = []        # the filter sets attached to the sources of the current history: a read must leave every one of them as it was


def watch(*sources):
    for x in sources:
        fs = getattr(x, "filters", None)
        if fs is not None and not any(fs is w for w in WATCH):
            WATCH.append(fs)
        src = getattr(x, "source", None)
        if src is not None and src is not x:
            watch(src)
        for m in getattr(x, "data_sources", []) or []:
            watch(m)


def read_line(tid, op, store_name, listed, ref, call, id_=0, filters=(), nav=None, obj=None, extra=None):
    before = [sorted(map(repr, fs)) for fs in WATCH]
    try:
        out = call()
        exc = "none"
    except Exception as e:  # noqa
        out, exc = [], type(e).__name__
        if os.environ.get("VERIF_DEBUG"):
            import traceback
            traceback.print_exc()
    filters_kept = before == [sorted(map(repr, fs)) for fs in WATCH]
    ans, same = D.answer(out, ref)
    line = {"tid": tid, "op": op, "store": store_name, "S": list(listed), "id": id_, "filters": [dict(f, val=sorted(f["val"]) if f["op"] in ("in", "=seq", "!=seq") else f["val"]) for f in filters],
            "nav": nav or {"rtype": 0, "src_only": False, "tgt_only": False}, "obj": obj or D.mk(21, 1), "ans": ans, "same_content": same, "exc": exc, "filters_kept": filters_kept}
    if extra:
        line.update(extra)
    return line


def flt(prop, op, val):
    return {"prop": prop, "op": op, "val": val}


def rand_filter(rng, recs):
    prop = rng.choice(["type", "id", "modified", "name", "num", "labels", "refs.s", "refs.v", "nosuch", "created_by_ref", "type", "id", "modified"])
    ids = sorted({r["id"] for r in recs}) or [11]
    dom = {"type": [1, 2, 3, 4, 5, 6, 7, 8, 9], "id": ids + [12, 69], "modified": [1, 2, 3, 11, 12, 21], "name": [1, 2, 3], "num": [0, 1, 50, 100], "labels": [1, 2, 3],
           "refs.s": [1, 2, 3], "refs.v": [1, 2, 3, 4, 5], "nosuch": [1], "created_by_ref": [41, 46]}[prop]
    ops = ["=", "!=", "in", "<", "<=", ">", ">="] + (["contains"] if prop in ("labels", "type", "name") else [])
    if prop in ("nosuch",):
        ops = ["=", "!="]
    op = rng.choice(ops)
    if prop in ("type", "id") and rng.random() < 0.2:
        # = / != handed a whole list on a scalar property (only "in" looks inside a list)
        return flt(prop, rng.choice(["=seq", "!=seq", "!=seq"]), sorted(rng.sample(dom, rng.randint(1, min(3, len(dom))))))
    if op == "in":
        return flt(prop, op, sorted(rng.sample(dom, rng.randint(0, min(3, len(dom))))))
    return flt(prop, op, rng.choice(dom))


def rand_universe(rng):
    """a population: several versions of several ids of every type kind, with labels / refs / numbers / creators / relationships"""
    recs = []
    ids = rng.sample([11, 16, 21, 22, 26, 31, 32, 41, 46, 51, 61, 66, 81, 86, 91, 92], rng.randint(3, 8))
    if 51 not in ids and rng.random() < 0.6:
        ids.append(51)           # a STIX 2.0 object (millisecond precision) in most populations
    if rng.random() < 0.3:       # a type whose every id is a non-v4 UUID
        ids = [i for i in ids if i // 10 != 6] + [66, 67]
    for i in ids:
        t = i // 10
        if t == D.T_FILE:
            vers = [0]
        elif t == D.T_IND20:
            vers = rng.sample([1, 11, 21, 31], rng.randint(1, 3))
        else:
            vers = rng.sample([1, 2, 3, 11, 12, 21], rng.randint(1, 4))
        for v in vers:
            r = D.mk(i, v, name=rng.choice([1, 2, 3]))
            if D.TYPES[t] in ("attack-pattern", "campaign", "malware", "threat-actor", "x-unreg") and rng.random() < 0.6:
                r["num"] = rng.choice([0, 1, 50, 100])
            if t != D.T_FILE and (rng.random() < 0.6 or t == D.T_IND20):
                r["labels"] = [rng.choice([1, 2, 3]) for _ in range(rng.randint(1, 3))]
            if t != D.T_FILE and rng.random() < 0.5:
                r["refs"] = [{"s": rng.choice([1, 2, 3]), "v": rng.choice([1, 2, 3, 4, 5])} for _ in range(rng.randint(1, 2))]
            if t not in (D.T_FILE, D.T_UNREG, D.T_IDENTITY) and rng.random() < 0.4:
                r["creator"] = 41 if t == D.T_IND20 else rng.choice([41, 46])
            recs.append(r)
    sdo = [i for i in ids if i // 10 not in (D.T_FILE, D.T_REL, D.T_UNREG)]
    for k in range(rng.randint(0, 4)):
        if len(sdo) >= 1:
            a, b = rng.choice(sdo), rng.choice(sdo)
            for v in rng.sample([1, 2, 11], rng.randint(1, 3)):
                if rng.random() < 0.4:          # a later version of the relationship may point elsewhere (also: what was its source becomes its target)
                    a, b = rng.choice([(b, a), (rng.choice(sdo), a), (a, rng.choice(sdo))])
                recs.append(D.mk(D.T_REL * 10 + k + 1, v, name=D.ABSENT, src=a, tgt=b, rtype=rng.choice([1, 2])))
    return recs


def pipeline(chk):
    """returns trace lines for all three properties"""
    import stix2
    from stix2 import CompositeDataSource, Environment, FileSystemSource, MemorySource, MemoryStore
    quick = chk.tier == "quick"
    rng = chk.rng
    lines = []
    # ---------------- S1
    for name, mod, cfg in (("S1_datastore", "MC_DataStore", "MC_DataStore"), ("S1_fs_optimizer", "MC_FsOptimizer", "MC_FsOptimizer")):
        env = {}
        if mod == "MC_FsOptimizer":
            env["OUT_FILE"] = os.path.join(chk.scratch, "fsopt.json")
        res = chk.add_tlc(name, tlc.run(mod, cfg, workers=16, env=env, scratch=chk.scratch, timeout=7200, coverage=True))
        if not res.completed:
            chk.spec_violation(name, res)
    neg = tlc.run("Neg_FsOptimizer", "Neg_FsOptimizer", workers=2, scratch=chk.scratch)
    chk.stages["S1_negative_config"] = {"invariant_violated_as_required": bool(neg.invariant_violated)}
    if not neg.invariant_violated:
        chk.machinery("Neg_FsOptimizer did not produce a counterexample")

    # ---------------- S2a: TLC behaviours of the store machine replayed on a memory store, a filesystem store and the plain list
    sim = tlc.run("MC_DataStoreGen", "Sim_DataStore", workers=1, simulate="num=%d" % (150 if quick else 4000), depth=10, seed=chk.seed, scratch=chk.scratch)
    behs = [json.loads(t[1]) for t in sim.marked("BEH")]
    uni = {(21, 1): D.mk(21, 1, 1), (21, 2): D.mk(21, 2, 2), (21, 11): D.mk(21, 11, 1), (51, 1): D.mk(51, 1, 1), (31, 0): D.mk(31, 0, 1), (91, 1): D.mk(91, 1, 2), (91, 11): D.mk(91, 11, 1)}
    nsteps = 0
    for bi, beh in enumerate(behs):
        pair = Pair(chk.scratch)
        try:
            for step in beh:
                nsteps += 1
                if step["op"] == "add":
                    recs = [uni[(k["id"], k["ver"])] for k in step["objs"]]
                    res = pair.add(step["form"], recs)
                    if (res["fs"] == "ok") != (step["fsres"] == "ok") or res["mem"] != "ok":
                        lines.append({"tid": bi, "op": "add_outcome", "store": "both", "S": pair.listed["mem"], "id": 0, "filters": [], "nav": {"rtype": 0, "src_only": False, "tgt_only": False},
                                      "obj": D.mk(21, 1), "ans": [], "same_content": True, "exc": json.dumps(res), "stage": "S2", "spec_fsres": step["fsres"],
                                      "direct": "C11:add_outcome_differs_from_model form=%s" % step["form"]})
                    continue
                if step["op"] == "saveload":
                    p = os.path.join(pair.dir, "..", "saved-%d.json" % bi)
                    p = os.path.abspath(p)
                    try:
                        if pair.listed["mem"]:
                            pair.mem.save_to_file(p)
                            st2 = MemoryStore(allow_custom=True)
                            st2.load_from_file(p)
                            lines.append(read_line(bi, "query", "memory(save/load)", pair.listed["mem"], pair.ref, lambda: st2.query(), extra={"stage": "S2"}))
                    finally:
                        if os.path.exists(p):
                            os.remove(p)
                    continue
                for name, store in (("memory", pair.mem), ("fs", pair.fs)):
                    listed = pair.listed["mem" if name == "memory" else "fs"]
                    if step["op"] == "get":
                        ln = read_line(bi, "get", name, listed, pair.ref, lambda: store.get(D.sid(step["id"])), id_=step["id"])
                    elif step["op"] == "all_versions":
                        ln = read_line(bi, "all_versions", name, listed, pair.ref, lambda: store.all_versions(D.sid(step["id"])), id_=step["id"])
                    else:
                        fl = [dict(f) for f in (step["filters"] or [])]
                        ln = read_line(bi, "query", name, listed, pair.ref, lambda: store.query([D.conc_filter(f, rng) for f in fl]), filters=fl)
                    ln["stage"] = "S2"
                    exp = step["mem" if name == "memory" else "fs"] or []
                    got = sorted((a["id"], a["ver"], a["name"]) for a in ln["ans"])
                    ln["spec_answer"] = exp
                    if got != sorted((k["id"], k["ver"], k["name"]) for k in exp):
                        ln["replay_differs"] = True
                    lines.append(ln)
        finally:
            pair.close()
        chk.traces += 1
    chk.stages["S2_store_behaviours"] = {"behaviours_replayed": len(behs), "steps": nsteps}
    if behs:
        chk.sample({"S2_behaviour_first_steps": behs[0][:3]})

    # ---------------- S2b: every filter sequence of the optimizer model through FileSystemSource.query and a memory source
    rows = json.load(open(os.path.join(chk.scratch, "fsopt.json")))["rows"]
    pop = [D.mk(11, 1), D.mk(11, 2, 2), D.mk(12, 1), D.mk(21, 1), D.mk(22, 11, 2), D.mk(31, 0)]
    pair = Pair(chk.scratch)
    try:
        for r in pop:
            pair.add("dict", [r])
        if quick:
            rng.shuffle(rows)
            rows = [r for r in rows if len(r["fs"]) <= 1] + [r for r in rows if len(r["fs"]) > 1][:500]
        for ri, row in enumerate(rows):
            fl = [dict(f) for f in row["fs"]]
            for name, store in (("fs", pair.fs), ("memory", pair.mem)):
                ln = read_line(300000 + ri, "query", name, pair.listed["fs"], pair.ref, lambda: store.query([D.conc_filter(f) for f in fl]), filters=fl,
                               extra={"stage": "S2", "spec_ids": sorted(row["expect"]), "optimizer": True})
                if sorted({a["id"] for a in ln["ans"]}) != sorted(row["expect"]):
                    ln["replay_differs"] = True
                lines.append(ln)
        chk.stages["S2_optimizer_table"] = {"filter_sequences_replayed": len(rows)}
        chk.traces += 1
    finally:
        pair.close()

    # ---------------- S2c: three and four members each holding one version of the same id, in every attachment order: the composite answers with the newest, all versions once
    import itertools
    for nmem, vers in ((3, [1, 2, 11]), (3, [2, 12, 21]), (4, [1, 2, 11, 21])):
        recs = [D.mk(11, v, name=1) for v in vers] + [D.mk(21, 1, name=2)]
        ref = {(r["id"], r["ver"]): D.build(r) for r in recs}
        for kindsel in (0, 1):
            dirs = []
            try:
                members = []
                for m in range(nmem):
                    part = [recs[m]] + ([recs[-1]] if m == 0 else [])
                    if (m + kindsel) % 2:
                        members.append(MemorySource([D.in_form("dict", [D.build(r)]) for r in part], allow_custom=True))
                    else:
                        dd = tempfile.mkdtemp(prefix="c18o-", dir=chk.scratch)
                        dirs.append(dd)
                        sink = stix2.FileSystemSink(dd, allow_custom=True)
                        for r in part:
                            sink.add(D.build(r))
                        members.append(FileSystemSource(dd, allow_custom=True))
                for order in itertools.permutations(range(nmem)):
                    comp = CompositeDataSource()
                    comp.add_data_sources([members[i] for i in order])
                    tid = 300000 + len(lines)
                    for front_name, front in (("composite", comp), ("environment", Environment(source=comp))):
                        lines.append(read_line(tid, "cget", front_name, recs, ref, lambda: front.get(D.sid(11)), id_=11, extra={"member_order": list(order)}))
                        lines.append(read_line(tid, "call_versions", front_name, recs, ref, lambda: front.all_versions(D.sid(11)), id_=11, extra={"member_order": list(order)}))
                    lines.append(read_line(tid, "cquery", "composite", recs, ref, lambda: comp.query(), extra={"member_order": list(order), "routes": {}}))
            finally:
                for dd in dirs:
                    shutil.rmtree(dd, ignore_errors=True)
        chk.traces += 1
    # ---------------- S2d: one relationship in two versions whose end points moved (v1 A->B, v2 C->A), in one source: navigation from each end point, every option
    A_, B_, C_ = 11, 21, 22
    for swap in (False, True):
        recs = [D.mk(A_, 1, name=1), D.mk(B_, 1, name=1), D.mk(C_, 1, name=2),
                D.mk(D.T_REL * 10 + 1, 1, name=D.ABSENT, src=A_, tgt=B_, rtype=1), D.mk(D.T_REL * 10 + 1, 2, name=D.ABSENT, src=(B_ if swap else C_), tgt=A_, rtype=1)]
        ref = {(r["id"], r["ver"]): D.build(r) for r in recs}
        dd = tempfile.mkdtemp(prefix="c18r-", dir=chk.scratch)
        try:
            mem = stix2.MemoryStore([D.in_form("dict", [D.build(r)]) for r in recs], allow_custom=True)
            fss = stix2.FileSystemStore(dd, allow_custom=True)
            for r in recs:
                fss.add(D.build(r))
            comp = CompositeDataSource()
            comp.add_data_sources([mem.source])
            for front_name, front in (("memory", mem), ("fs", fss), ("composite", comp), ("environment", Environment(store=mem))):
                for node in (A_, B_, C_):
                    for src_only, tgt_only in ((False, False), (True, False), (False, True)):
                        nav = {"rtype": 0, "src_only": src_only, "tgt_only": tgt_only}
                        kw = dict(relationship_type=None, source_only=src_only, target_only=tgt_only)
                        lines.append(read_line(310000 + len(lines), "relationships", front_name, recs, ref, lambda: front.relationships(D.sid(node), **kw), id_=node, nav=nav))
                        lines.append(read_line(310000 + len(lines), "related_to", front_name, recs, ref, lambda: front.related_to(D.sid(node), **kw), id_=node, nav=nav))
        finally:
            shutil.rmtree(dd, ignore_errors=True)
        chk.traces += 1
    # ---------------- S2e: three systematic histories in which state survives from one call to the next
    n2e = len(lines)
    # (i) a filter attached to a composite (directly, through an environment, on the outer of two nested composites) over ONE member that holds several versions of an id, of
    #     which some pass the filter and some do not, stored in every order: every version is judged by the filter, not only the first one examined
    vers = [D.mk(11, 1, name=1), D.mk(11, 2, name=2), D.mk(11, 11, name=1), D.mk(11, 12, name=2)]
    other = D.mk(21, 1, name=2)
    for perm in ([(0, 1, 2, 3), (1, 0, 2, 3), (3, 2, 1, 0), (2, 3, 0, 1), (1, 2, 3, 0), (0, 3, 1, 2)] if quick else list(itertools.permutations(range(4)))):
        recs = [vers[i] for i in perm] + [other]
        ref = {(r["id"], r["ver"]): D.build(r) for r in recs}
        for mkind in ("memory_source", "memory_store", "filesystem") if (not quick or perm[0] in (0, 3)) else ("memory_source", "memory_store"):
            dd = None
            try:
                if mkind == "filesystem":
                    dd = tempfile.mkdtemp(prefix="c18f-", dir=chk.scratch)
                    sink = stix2.FileSystemSink(dd, allow_custom=True)
                    for r in recs:
                        sink.add(D.build(r))
                    member = FileSystemSource(dd, allow_custom=True)
                elif mkind == "memory_source":
                    member = MemorySource([D.build(r) for r in recs], allow_custom=True)
                else:
                    st = stix2.MemoryStore(allow_custom=True)
                    for r in recs:
                        st.add(D.build(r))
                    member = st.source
                for catt in ([flt("name", "=", 1)], [flt("name", "=", 2)], [flt("modified", ">", 2)], [flt("modified", "<", 12), flt("name", "!=", 1)]):
                    for front_name in ("composite", "environment", "nested"):
                        comp = CompositeDataSource()
                        comp.add_data_sources([member])
                        holder = comp
                        if front_name == "nested":
                            holder = CompositeDataSource()
                            holder.add_data_sources([comp])
                        holder.filters.add([D.conc_filter(f, rng) for f in catt])
                        front = Environment(source=holder) if front_name == "environment" else holder
                        tid = 350000 + len(lines)
                        ex = {"member_order": [0], "member_kind": mkind, "routes": {"composite": len(catt)}}
                        lines.append(read_line(tid, "call_versions", front_name, recs, ref, lambda: front.all_versions(D.sid(11)), id_=11, filters=catt, extra=ex))
                        lines.append(read_line(tid, "cget", front_name, recs, ref, lambda: front.get(D.sid(11)), id_=11, filters=catt, extra=ex))
                        lines.append(read_line(tid, "cquery", front_name, recs, ref, lambda: front.query(), filters=catt, extra=ex))
                        lines.append(read_line(tid, "call_versions", front_name, recs, ref, lambda: front.all_versions(D.sid(11)), id_=11, filters=catt, extra=ex))
            finally:
                if dd:
                    shutil.rmtree(dd, ignore_errors=True)
    # (ii) a memory store / source that already holds versions of an id loads a file holding other versions of it (and of other ids): the store is the union
    for loader in ("store", "source"):
        for held, filed in (([D.mk(11, 1), D.mk(11, 11), D.mk(21, 1)], [D.mk(11, 2), D.mk(11, 12), D.mk(41, 1)]), ([D.mk(11, 12)], [D.mk(11, 1), D.mk(11, 2)]),
                            ([D.mk(11, 1), D.mk(21, 2)], [D.mk(11, 1), D.mk(21, 11)])):
            a = stix2.MemoryStore(allow_custom=True)
            b = stix2.MemoryStore(allow_custom=True)
            for r in held:
                a.add(D.build(r))
            for r in filed:
                b.add(D.build(r))
            pth = os.path.join(chk.scratch, "load-%d.json" % len(lines))
            b.save_to_file(pth)
            try:
                (a if loader == "store" else a.source).load_from_file(pth)
                lexc = "none"
            except Exception as e:  # noqa
                lexc = type(e).__name__
            both = held + [r for r in filed if r not in held]
            ref = {(r["id"], r["ver"]): D.build(r) for r in both}
            tid = 360000 + len(lines)
            ex = {"routes": {"loaded_into_nonempty_%s" % loader: 1}, "load_exc": lexc}
            for id_ in sorted({r["id"] for r in both}):
                lines.append(read_line(tid, "get", "mem", both, ref, lambda: a.get(D.sid(id_)), id_=id_, extra=ex))
                lines.append(read_line(tid, "all_versions", "mem", both, ref, lambda: a.all_versions(D.sid(id_)), id_=id_, extra=ex))
            lines.append(read_line(tid, "query", "mem", both, ref, lambda: a.query(), extra=ex))
    # (iii) ONE long-lived filesystem source: it is asked while a type directory does not exist / is empty / holds only a flat file, objects of that type are
    #       then written through a sink on the same directory, and the same source is asked again (what it learned about the directory must not outlive the change)
    for start in ("absent", "empty_dir", "flat_file"):
        dd = tempfile.mkdtemp(prefix="c12l-", dir=chk.scratch)
        try:
            src = FileSystemSource(dd, allow_custom=True)
            sink = stix2.FileSystemSink(dd, allow_custom=True)
            present = []
            tname = D.sid(11).split("--")[0]
            if start != "absent":
                os.makedirs(os.path.join(dd, tname))
            if start == "flat_file":
                r0 = D.mk(12, 1, name=2)
                with open(os.path.join(dd, tname, D.sid(12) + ".json"), "w") as f:
                    json.dump(D.build(r0), f)
                present.append(r0)
            tid = 370000 + len(lines)
            phases = [[], [D.mk(11, 1, name=1)], [D.mk(11, 11, name=2), D.mk(13, 2, name=1)]]
            for ph, adds in enumerate(phases):
                for r in adds:
                    sink.add(D.build(r))
                    present.append(r)
                ref = {(r["id"], r["ver"]): D.build(r) for r in present}
                ex = {"routes": {"long_lived_source:%s:phase%d" % (start, ph): 1}}
                for fl in ([], [flt("type", "=", 1)], [flt("id", "=", 11)], [flt("name", "=", 1)]):
                    lines.append(read_line(tid, "query", "fs", present, ref, lambda: src.query([D.conc_filter(f, rng) for f in fl]), filters=fl, extra=ex))
                for id_ in (11, 12, 13):
                    lines.append(read_line(tid, "get", "fs", present, ref, lambda: src.get(D.sid(id_)), id_=id_, extra=ex))
                    lines.append(read_line(tid, "all_versions", "fs", present, ref, lambda: src.all_versions(D.sid(id_)), id_=id_, extra=ex))
        finally:
            shutil.rmtree(dd, ignore_errors=True)
    chk.stages["S2e_state_between_calls"] = {"lines": len(lines) - n2e}
    chk.traces += 1
    # ---------------- S3: random populations: stores, three filter routes, composites in every attachment order, navigation
    for h in range(12 if quick else 500):
        recs = rand_universe(rng)
        rng.shuffle(recs)
        pair = Pair(chk.scratch)
        dirs = []
        D.UPPER_TYPES.clear()
        D.V7_TYPES.clear()
        if h % 3 == 2:       # every identifier of one or two (2.1) types is a UUID of a version the RFC added later (not identities: 2.0 content refers to them)
            cands = sorted({r["type"] for r in recs} - {D.T_IDENTITY})
            D.V7_TYPES.update(rng.sample(cands, min(len(cands), rng.choice([1, 2]))))
        if h % 3 == 1:       # every identifier of one or two types spelled with upper-case hex letters
            D.UPPER_TYPES.update(rng.sample(sorted({r["type"] for r in recs}), min(len({r["type"] for r in recs}), rng.choice([1, 2]))))
        try:
            i = 0
            while i < len(recs):
                k = rng.choice([1, 1, 2, 3])
                batch = recs[i:i + k]
                form = rng.choice(["object", "dict", "json"] if len(batch) == 1 else ["list", "bundle_obj", "bundle_dict"])
                if any(r["type"] == D.T_UNREG for r in batch) and form in ("object",):
                    form = "dict"
                pair.add(form, batch, rng)
                i += k
            if recs and rng.random() < 0.5:       # a re-addition of something already there
                pair.add(rng.choice(["object", "dict"]) if recs[0]["type"] != D.T_UNREG else "dict", [recs[0]], rng)
            tid = 400000 + h
            del WATCH[:]
            watch(pair.mem, pair.fs)
            ids = sorted({r["id"] for r in recs})
            for name, store in (("memory", pair.mem), ("fs", pair.fs)):
                listed = pair.listed["mem" if name == "memory" else "fs"]
                for id_ in ids + [69]:
                    lines.append(read_line(tid, "get", name, listed, pair.ref, lambda: store.get(D.sid(id_)), id_=id_))
                    lines.append(read_line(tid, "all_versions", name, listed, pair.ref, lambda: store.all_versions(D.sid(id_)), id_=id_))
                for q in range(6 if quick else 14):
                    fl = [rand_filter(rng, recs) for _ in range(rng.choice([0, 1, 1, 2, 3]))]
                    att = [rand_filter(rng, recs) for _ in range(rng.choice([0, 1, 1]))]
                    src = store.source
                    src.filters.add([D.conc_filter(f, rng) for f in att])
                    try:
                        if rng.random() < 0.35:
                            # the query handed over as a FilterSet object the caller keeps: it is used again on the other store (which has nothing attached) and must still
                            # say what it said
                            from stix2.datastore.filters import FilterSet
                            fset = FilterSet([D.conc_filter(f, rng) for f in fl])
                            lines.append(read_line(tid, "query", name, listed, pair.ref, lambda: store.query(fset), filters=fl + att,
                                                   extra={"routes": {"argument": len(fl), "attached": len(att), "filterset_object": 1}}))
                            oname, ostore = ("fs", pair.fs) if name == "memory" else ("memory", pair.mem)
                            lines.append(read_line(tid, "query", oname, pair.listed["fs" if oname == "fs" else "mem"], pair.ref, lambda: ostore.query(fset), filters=fl,
                                                   extra={"routes": {"argument": len(fl), "filterset_object": 2}}))
                        else:
                            lines.append(read_line(tid, "query", name, listed, pair.ref, lambda: store.query([D.conc_filter(f, rng) for f in fl]), filters=fl + att,
                                                   extra={"routes": {"argument": len(fl), "attached": len(att)}}))
                        if att:
                            # lookups by id under the attached filters: every version is checked against them, not only the first one
                            multi = [i for i in ids if len([r for r in recs if r["id"] == i]) >= 2] or ids
                            for id_ in multi[:2]:
                                lines.append(read_line(tid, "all_versions", name, listed, pair.ref, lambda: store.all_versions(D.sid(id_)), id_=id_, filters=att, extra={"routes": {"attached": len(att)}}))
                                lines.append(read_line(tid, "get", name, listed, pair.ref, lambda: store.get(D.sid(id_)), id_=id_, filters=att, extra={"routes": {"attached": len(att)}}))
                    finally:
                        src.filters.remove([f for f in list(src.filters)])
            # timestamp filters whose value lies strictly between two instants a STIX 2.0 object could have (2.0 keeps milliseconds, the value has finer digits): the value is
            # an instant, not something to be rounded to the property's precision first
            ind20 = [r for r in recs if r["type"] == D.T_IND20]
            if ind20:
                r0 = rng.choice(ind20)
                for name, store in (("memory", pair.mem), ("fs", pair.fs)):
                    listed = pair.listed["mem" if name == "memory" else "fs"]
                    for op in ("=", "!=", "<", "<=", ">", ">="):
                        for val in (r0["ver"] + 1, r0["ver"] + 2):
                            fl = [flt("modified", op, val)] + ([flt("type", "=", D.T_IND20)] if rng.random() < 0.5 else [])
                            lines.append(read_line(tid, "query", name, listed, pair.ref, lambda: store.query([D.conc_filter(f, rng) for f in fl]), filters=fl,
                                                   extra={"routes": {"argument": len(fl), "sub_precision_value": 1}}))
            # composite over 2-3 members holding overlapping parts of the population
            nm = rng.choice([2, 3])
            parts = [[] for _ in range(nm)]
            for r in recs:
                for m in rng.sample(range(nm), rng.choice([1, 1, 2])):
                    parts[m].append(r)
            members = []
            for m, part in enumerate(parts):
                if rng.random() < 0.5:
                    ms = MemorySource([D.in_form("dict", [D.build(r)]) for r in part] or None, allow_custom=True)
                else:
                    d = tempfile.mkdtemp(prefix="c18-", dir=chk.scratch)
                    dirs.append(d)
                    sink = stix2.FileSystemSink(d, allow_custom=True)
                    for r in part:
                        sink.add(D.build(r))
                    ms = FileSystemSource(d, allow_custom=True)
                members.append(ms)
            order = list(range(nm))
            rng.shuffle(order)
            comp = CompositeDataSource()
            comp.add_data_sources([members[i] for i in order])
            union = []
            for part in parts:
                for r in part:
                    if r not in union:
                        union.append(r)
            ref = {(r["id"], r["ver"]): D.build(r) for r in union}
            env = Environment(source=comp)
            watch(comp, *members)
            for front_name, front in (("composite", comp), ("environment", env)):
                for id_ in ids[:4]:
                    lines.append(read_line(tid, "cget", front_name, union, ref, lambda: front.get(D.sid(id_)), id_=id_, extra={"member_order": order}))
                    lines.append(read_line(tid, "call_versions", front_name, union, ref, lambda: front.all_versions(D.sid(id_)), id_=id_, extra={"member_order": order}))
                for q in range(3 if quick else 8):
                    fl = [rand_filter(rng, recs) for _ in range(rng.choice([0, 1, 2]))]
                    catt = [rand_filter(rng, recs) for _ in range(rng.choice([0, 1, 1]))]
                    comp.filters.add([D.conc_filter(f, rng) for f in catt])
                    try:
                        lines.append(read_line(tid, "cquery", front_name, union, ref, lambda: front.query([D.conc_filter(f, rng) for f in fl]), filters=fl + catt,
                                               extra={"member_order": order, "routes": {"argument": len(fl), "composite": len(catt)}}))
                    finally:
                        comp.filters.remove([f for f in list(comp.filters)])
            # a composite query with no argument while composite filters are attached, then every member asked directly:
            # filters passed down by the composite must not stay behind in a member
            catt = [rand_filter(rng, recs)]
            comp.filters.add([D.conc_filter(f, rng) for f in catt])
            try:
                lines.append(read_line(tid, "cquery", "composite", union, ref, lambda: comp.query(), filters=catt, extra={"member_order": order, "routes": {"composite": 1}}))
            finally:
                comp.filters.remove([f for f in list(comp.filters)])
            for m, ms in enumerate(members):
                pref = {(r["id"], r["ver"]): D.build(r) for r in parts[m]}
                lines.append(read_line(tid, "query", "member-after-composite", parts[m], pref, lambda: ms.query(), extra={"routes": {"after_composite": 1}}))
                fl = [rand_filter(rng, recs)]
                lines.append(read_line(tid, "query", "member-after-composite", parts[m], pref, lambda: ms.query([D.conc_filter(f, rng) for f in fl]), filters=fl,
                                       extra={"routes": {"after_composite": 1, "argument": 1}}))
            # members that carry attached filters of their own while the composite (with its filters) is asked without an argument: afterwards each member,
            # asked directly, answers under its own filters only
            for m, ms in enumerate(members):
                matt = [rand_filter(rng, recs)]
                ms.filters.add([D.conc_filter(f, rng) for f in matt])
                catt = [rand_filter(rng, recs)]
                comp.filters.add([D.conc_filter(f, rng) for f in catt])
                try:
                    try:
                        comp.query()
                        if rng.random() < 0.5:
                            comp.query(None)
                    except Exception:  # noqa  (judged elsewhere)
                        pass
                finally:
                    comp.filters.remove([f for f in list(comp.filters)])
                pref = {(r["id"], r["ver"]): D.build(r) for r in parts[m]}
                try:
                    lines.append(read_line(tid, "query", "member-with-own-filters-after-composite", parts[m], pref, lambda: ms.query(), filters=matt,
                                           extra={"routes": {"after_composite": 1, "attached": 1}}))
                finally:
                    ms.filters.remove([f for f in list(ms.filters)])
                lines.append(read_line(tid, "query", "member-after-composite", parts[m], pref, lambda: ms.query(), extra={"routes": {"after_composite": 2}}))
            # the composite as a member of another composite / as the source of an environment that gets a filter: what the parent hands down on a query
            # must not stay attached to the nested composite, and taking the filter off the parent restores the parent's answers
            outer = CompositeDataSource()
            outer.add_data_sources([comp])
            watch(outer)
            env2 = Environment(source=comp)
            for parent_name, parent, addf in (("nested-composite", outer, lambda fs: outer.filters.add(fs)), ("environment-filter", env2, lambda fs: [env2.add_filter(f) for f in fs])):
                oatt = [rand_filter(rng, recs)]
                concrete = [D.conc_filter(f, rng) for f in oatt]
                addf(concrete)
                try:
                    if parent is outer:
                        lines.append(read_line(tid, "cquery", parent_name, union, ref, lambda: parent.query(), filters=oatt, extra={"member_order": order, "routes": {"composite": 1, "nested": 1}}))
                        fl = [rand_filter(rng, recs)]
                        lines.append(read_line(tid, "cquery", parent_name, union, ref, lambda: parent.query([D.conc_filter(f, rng) for f in fl]), filters=fl + oatt,
                                               extra={"member_order": order, "routes": {"argument": 1, "composite": 1, "nested": 1}}))
                    else:
                        try:
                            parent.query()
                        except Exception:  # noqa
                            pass
                    if parent is outer:
                        # the nested composite asked directly while its parent still carries the filter
                        lines.append(read_line(tid, "cquery", "composite-under-filtered-parent", union, ref, lambda: comp.query(), extra={"member_order": order, "routes": {"nested": 2}}))
                        for id_ in ids[:2]:
                            lines.append(read_line(tid, "cget", "composite-under-filtered-parent", union, ref, lambda: comp.get(D.sid(id_)), id_=id_, extra={"member_order": order}))
                finally:
                    tgt = outer.filters if parent is outer else comp.filters
                    tgt.remove([f for f in list(tgt)])
                lines.append(read_line(tid, "cquery", "composite-after-parent", union, ref, lambda: comp.query(), extra={"member_order": order, "routes": {"nested": 3}}))
                if parent is outer:
                    lines.append(read_line(tid, "cquery", parent_name, union, ref, lambda: parent.query(), extra={"member_order": order, "routes": {"nested": 4}}))
            # a composite with filters of its own, nested next to a sibling that is attached after it, under a parent with a filter: the sibling answers under the parent's
            # filter only; the nested composite under both.  (The sibling holds objects the nested composite does not have, so the two parts of the answer can be told apart.)
            sib_recs = [D.mk(i, v, name=rng.choice([1, 2, 3])) for i in (12, 17, 23) for v in rng.sample([1, 2, 11], 2)]
            sib = MemorySource([D.in_form("dict", [D.build(r)]) for r in sib_recs], allow_custom=True)
            sib_ids = {D.sid(r["id"]) for r in sib_recs}
            sref = {(r["id"], r["ver"]): D.build(r) for r in sib_recs}
            def no_ts():       # (timestamp filters meet the recorded finding about dictionary-kept objects, which would hide what this scenario is about)
                while True:
                    f = rand_filter(rng, recs + sib_recs)
                    if f["prop"] != "modified":
                        return f
            f_in, f_out = [no_ts()], [no_ts()]
            comp.filters.add([D.conc_filter(f, rng) for f in f_in])
            outer2 = CompositeDataSource()
            outer2.add_data_sources([comp, sib])
            outer2.filters.add([D.conc_filter(f, rng) for f in f_out])
            watch(outer2, sib)
            try:
                for rep in range(2):
                    lines.append(read_line(tid, "cquery", "sibling-after-filtered-nested-composite", sib_recs, sref, lambda: [o for o in outer2.query() if o["id"] in sib_ids],
                                           filters=f_out, extra={"member_order": order, "routes": {"nested": 5, "composite": 1}}))
                    lines.append(read_line(tid, "cquery", "filtered-nested-composite-before-sibling", union, ref, lambda: [o for o in outer2.query() if o["id"] not in sib_ids],
                                           filters=f_in + f_out, extra={"member_order": order, "routes": {"nested": 6, "composite": 2}}))
            finally:
                comp.filters.remove([f for f in list(comp.filters)])
                outer2.filters.remove([f for f in list(outer2.filters)])
            # an environment given both a store and a source answers from both
            part_store = stix2.MemoryStore([D.in_form("dict", [D.build(r)]) for r in sib_recs], allow_custom=True)
            env3 = Environment(store=part_store, source=comp)
            both = list(sib_recs) + [r for r in union if r not in sib_recs]
            bref = dict(ref)
            bref.update(sref)
            lines.append(read_line(tid, "cquery", "environment(store+source)", both, bref, lambda: env3.query(), extra={"member_order": order, "routes": {"store_and_source": 1}}))
            for id_ in [sib_recs[0]["id"]] + ids[:2]:
                lines.append(read_line(tid, "cget", "environment(store+source)", both, bref, lambda: env3.get(D.sid(id_)), id_=id_, extra={"member_order": order}))
                lines.append(read_line(tid, "call_versions", "environment(store+source)", both, bref, lambda: env3.all_versions(D.sid(id_)), id_=id_, extra={"member_order": order}))
            # navigation through a single store, the composite and the environment
            sdo = [r for r in recs if r["type"] not in (D.T_FILE, D.T_REL, D.T_UNREG)]
            for front_name, front, S, rf in (("memory", pair.mem, pair.listed["mem"], pair.ref), ("fs", pair.fs, pair.listed["fs"], pair.ref),
                                             ("composite", comp, union, ref), ("environment", env, union, ref)):
                for r in rng.sample(sdo, min(3, len(sdo))):
                    nav = {"rtype": rng.choice([0, 0, 1, 2]), "src_only": rng.random() < 0.3, "tgt_only": False}
                    if not nav["src_only"] and rng.random() < 0.3:
                        nav["tgt_only"] = True
                    kw = dict(relationship_type=D.RTYPES.get(nav["rtype"]), source_only=nav["src_only"], target_only=nav["tgt_only"])
                    arg = D.sid(r["id"]) if rng.random() < 0.5 else D.build(r)
                    lines.append(read_line(tid, "relationships", front_name, S, rf, lambda: front.relationships(arg, **kw), id_=r["id"], nav=nav))
                    fl = [rand_filter(rng, recs) for _ in range(rng.choice([0, 0, 1]))]
                    lines.append(read_line(tid, "related_to", front_name, S, rf, lambda: front.related_to(arg, filters=[D.conc_filter(f, rng) for f in fl], **kw),
                                           id_=r["id"], nav=nav, filters=fl))
                    lines.append(read_line(tid, "creator_of", front_name, S, rf, lambda: front.creator_of(D.build(r)), obj=r))
        finally:
            D.UPPER_TYPES.clear()
            D.V7_TYPES.clear()
            pair.close()
            for d in dirs:
                shutil.rmtree(d, ignore_errors=True)
        chk.traces += 1
    return lines


def sig(ln):
    return [ln["op"], ln["store"], sorted((f["prop"], f["op"]) for f in ln["filters"]), len(ln["ans"]) > 0, ln["exc"], ln.get("routes"),
            sorted({r["type"] for r in ln["S"]})[:7], ln["nav"]["rtype"] != 0, ln["nav"]["src_only"], ln["nav"]["tgt_only"]]


def report(chk, ln, clause, stage, wrong=None):
    import re
    if clause.endswith("version_returned_twice") or clause.endswith("version_not_deduplicated"):
        seen, dup = set(), set()
        for r in ln["ans"]:
            k = (r["id"], r["ver"])
            if k in seen:
                dup.add(D.TYPES.get(r["type"], "?"))
            seen.add(k)
        types = sorted(dup)
    elif wrong is not None:
        types = sorted(D.TYPES.get(int(x), "?") for x in re.findall(r"\d+", str(wrong)))
    else:
        types = sorted({D.TYPES.get(r["type"], "?") for r in ln["ans"]} | {D.TYPES.get(r["type"], "?") for r in ln["S"] if r["id"] == ln["id"]})
    chk.violation({"entry": "%s.%s" % (ln["store"].split("(")[0], {"cget": "get", "call_versions": "all_versions", "cquery": "query"}.get(ln["op"], ln["op"])),
                   "clause": clause,
                   "culprit": ("timestamp of a dictionary-kept object compared as text" if (types == ["x-unreg"] or (ln["exc"] == "TypeError" and any(r["type"] == D.T_UNREG for r in ln["S"])))
                               and (any(f["prop"] == "modified" for f in ln["filters"]) or ln["op"] in ("get", "cget") or clause.endswith("version_returned_twice")) else "other"),
                   "case": "filters=%s wrong_types=%s exc=%s" % (",".join(sorted({"%s %s" % (f["prop"], f["op"]) for f in ln["filters"]})) or "none", "+".join(types) or "-", ln["exc"])},
                  {"line": {k: v for k, v in ln.items()}, "clause": clause}, stage)


def validate(chk, lines, prefix):
    for ln in lines:
        chk.case(sig(ln))
    rejected = set()
    keep = ("tid", "op", "store", "S", "id", "filters", "nav", "obj", "ans", "same_content", "exc", "filters_kept")
    slim = [{k: ln[k] for k in keep} for ln in lines]
    for i in range(0, len(slim), 4000):
        part = slim[i:i + 4000]
        for r in common.validate_trace(chk, "Trace_DataStore", "Trace_DataStore", part, "S3_code_to_spec"):
            rejected.add(i + r[0] - 1)
            if lines[i + r[0] - 1]["exc"] != "none":
                continue         # the read raised: reported once below as read_raised_<class>, not also as a wrong answer
            if r[2].startswith(prefix):
                report(chk, lines[i + r[0] - 1], r[2], lines[i + r[0] - 1].get("stage", "S3"), wrong=r[3] if len(r) > 3 else None)
    for i, ln in enumerate(lines):
        if ln.get("direct", "").startswith(prefix):
            report(chk, ln, ln["direct"], "S2")
        owner = {"g": "C11:", "a": "C11:", "q": "C12:", "c": "C18:", "r": "C18:"}.get(ln["op"][0], "C11:")
        if ln["op"] in ("get", "all_versions") and ln["filters"]:
            owner = "C12:"          # a lookup by id under filters is judged by the filter clauses (C12:get_with_filters, C12:all_versions_with_filters): so is its failure
        if ln["exc"] != "none" and ln["op"] != "add_outcome" and prefix == owner:
            if not (ln["op"] in ("relationships", "related_to") and ln["nav"]["src_only"] and ln["nav"]["tgt_only"]):
                report(chk, ln, prefix + "read_raised_" + ln["exc"], ln.get("stage", "S3"))
    chk.notes["replay_answers_differing_from_tlc"] = sum(1 for ln in lines if ln.get("replay_differs"))
    return rejected


def selftest(chk, lines, rejected, op):
    keep = ("tid", "op", "store", "S", "id", "filters", "nav", "obj", "ans", "same_content", "exc")
    good = [json.loads(json.dumps({k: x[k] for k in keep})) for i, x in enumerate(lines) if i not in rejected and x["op"] == op and len(x["ans"]) >= 1 and x["exc"] == "none"][:10]
    if len(good) < 6:
        chk.machinery("binding self-test: not enough accepted %s lines" % op)
        return
    good[1]["ans"] = good[1]["ans"][1:]                    # an object silently missing from the answer
    good[4]["ans"][0]["ver"] = good[4]["ans"][0]["ver"] + 7   # a version that was never added
    rej = common.validate_trace(chk, "Trace_DataStore", "Trace_DataStore", good, "S4_selftest", count=False)
    ok4 = sorted({r[0] for r in rej}) == [2, 5]
    chk.notes["binding_selftest"] = {"corrupted_lines": 2, "rejected_lines": len({r[0] for r in rej}), "ok": ok4}
    if not ok4:
        chk.machinery("binding self-test failed: %r" % (rej,))


def run(chk):
    chk.rule = ("a case is one read (get / all_versions / query / navigation) on a store after a history of additions; distinct_nontrivial counts distinct "
                "(operation, store, filter (property, operator) set, empty/non-empty answer, exception, filter routes, types present, navigation options)")
    chk.assumptions = ["integer stand-ins for type / id / name / label strings are order-preserving; 'contains' is used only where substring and equality coincide",
                       "the same (id, modified) is re-added only with identical content (consumer behaviour otherwise undefined by STIX)",
                       "a re-addition to the filesystem store is refused with DataSourceError (named deviation) and made one object at a time",
                       "the memory sink is not given JSON text (not documented for it)"]
    lines = pipeline(chk)
    rejected = validate(chk, lines, PREFIX)
    chk.sample({"trace_line": {k: v for k, v in lines[-1].items() if k != "S"}})
    selftest(chk, lines, rejected, "all_versions")


def replay(path):
    d = json.load(open(path))["detail"]["line"]
    print(json.dumps(d, indent=1)[:5000])
    return 0
