"""C12 -- queries return exactly the objects satisfying every filter.  Shares the store pipeline of c11.py; owns clauses C12:*."""
from . import c11

PREFIX = "C12:"


def run(chk):
    chk.rule = ("a case is one query (filter set over every operator and property kind, reaching the source as argument, attached, or passed down by a composite) "
                "on a populated memory / filesystem source, plus every type/id filter sequence of the optimizer model; distinct_nontrivial counts distinct "
                "(operation, store, filter (property, operator) set, empty/non-empty answer, exception, routes, types present)")
    chk.assumptions = ["integer stand-ins for strings are order-preserving; 'contains' only where substring and equality coincide",
                       "timestamp filter values are given as text (two spellings) and as datetime objects; objects kept as dictionaries hold text",
                       "a lookup by id with attached filters may answer nothing when the newest version fails them (documented deviation)"]
    lines = c11.pipeline(chk)
    rejected = c11.validate(chk, lines, PREFIX)
    chk.sample({"trace_line": {k: v for k, v in [l for l in lines if l["op"] == "query" and l["filters"]][-1].items() if k != "S"}})
    c11.selftest(chk, lines, rejected, "query")


def replay(path):
    return c11.replay(path)
