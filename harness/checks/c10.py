"""C10 -- pattern text and pattern object model convert into each other faithfully.  Specs: spec/PatternPrint.tla (+ PatternSem.tla)."""
import datetime as dt
import json
import os

from .. import common, tlc
from .. import impl_patterns as IP
from . import c09

PREFIX = "C10:"


def build_model(a):
    """the same AST assembled from the public model classes"""
    import stix2.patterns as P
    k = a["k"]
    if k == "cmp":
        comps = []
        for st in a["path"]:
            if st["s"] == "idx":
                comps.append(P.ListObjectPathComponent(st["name"], st["i"] if st["i"] == "*" else int(st["i"])))
            elif st["s"] == "ref":
                comps.append(P.ReferenceObjectPathComponent(st["name"]))
            else:
                comps.append(P.BasicObjectPathComponent(st["name"], False))
        lhs = P.ObjectPath(a["type"], comps)
        rhs = build_const(a["const"])
        op, neg = a["op"], a["neg"]
        if op == "!=":
            op, neg = "=", not neg
        cls = {"=": P.EqualityComparisonExpression, ">": P.GreaterThanComparisonExpression, "<": P.LessThanComparisonExpression,
               ">=": P.GreaterThanEqualComparisonExpression, "<=": P.LessThanEqualComparisonExpression, "IN": P.InComparisonExpression,
               "LIKE": P.LikeComparisonExpression, "MATCHES": P.MatchesComparisonExpression, "ISSUBSET": P.IsSubsetComparisonExpression,
               "ISSUPERSET": P.IsSupersetComparisonExpression}[op]
        return cls(lhs, rhs, neg)
    if k == "and":
        return P.AndBooleanExpression([build_model(x) for x in a["args"]])
    if k == "or":
        return P.OrBooleanExpression([build_model(x) for x in a["args"]])
    if k == "paren":
        return P.ParentheticalExpression(build_model(a["e"]))
    if k == "obs":
        return P.ObservationExpression(build_model(a["e"]))
    if k in ("oand", "oor", "fb"):
        cls = {"oand": P.AndObservationExpression, "oor": P.OrObservationExpression, "fb": P.FollowedByObservationExpression}[k]
        return cls([build_model(x) for x in a["args"]])
    if k == "qual":
        q = a["q"]
        if q["k"] == "repeats":
            qq = P.RepeatQualifier(q["n"])
        elif q["k"] == "within":
            qq = P.WithinQualifier(q["s"])
        else:
            qq = P.StartStopQualifier(build_const(q["t1"]), build_const(q["t2"]))
        return P.QualifiedObservationExpression(build_model(a["e"]), qq)
    raise ValueError(k)


def build_const(c):
    import stix2.patterns as P
    t = c["t"]
    if t == "int":
        return P.IntegerConstant(c["v"])
    if t == "bigint":
        return P.IntegerConstant(int(c["s"]))
    if t == "float":
        return P.FloatConstant(float(c["s"]))
    if t == "bool":
        return P.BooleanConstant(c["s"] == "true")
    if t == "str":
        return P.StringConstant(b"".join(bytes([x >> 8, x & 255]) for x in c["u"]).decode("utf-16-be", "surrogatepass"))
    if t == "ts":
        return P.TimestampConstant(IP.BASE + dt.timedelta(days=c["us"][0], seconds=c["us"][1], microseconds=c["us"][2]))
    if t == "hex":
        return P.HexConstant(c["s"])
    if t == "bin":
        return P.BinaryConstant(c["s"])
    if t == "list":
        return P.ListConstant([build_const(i) for i in c["items"]])
    raise ValueError(t)


def disturb(m):
    """the caller edits the model object it was given (its own copy, as far as it knows)"""
    import stix2.patterns as P
    x = m
    for _ in range(6):
        if isinstance(x, P._ComparisonExpression):
            x.negated = not x.negated
            return
        for attr in ("operand", "observation_expression", "expression"):
            if hasattr(x, attr):
                x = getattr(x, attr)
                break
        else:
            ops = getattr(x, "operands", None)
            if ops:
                ops.reverse()
                x = ops[0]
            else:
                return


def print_line(a, text, how, version="2.1"):
    from stix2.pattern_visitor import create_pattern_object
    iv = IP.in_vocab(a)
    line = {"kind": "print", "how": how, "tp": text, "tq": "", "invocab": iv, "p": IP.to_spec(a) if iv else {"k": "x"}, "q": {"k": "x"}, "r": {"k": "x"},
            "parse_ok": False, "reparse_ok": False, "same_pq": False, "same_qr": False, "fixed": False, "exc": "none"}
    try:
        m = create_pattern_object(text, version=version)
    except Exception as e:  # noqa
        line["exc"] = type(e).__name__
        return line
    q = IP.project(m)
    s1 = str(m)
    line.update(parse_ok=True, tq=s1, same_pq=IP.norm(q) == IP.norm(a))
    # a model object belongs to the caller: whatever happens to it, or whatever the library does with the same text elsewhere (the equivalence functions normalise
    # the models they build in place), a later parse of the same text must give the same model again
    try:
        from stix2.equivalence.pattern import equivalent_patterns
        if version == "2.1":
            equivalent_patterns(text, text, stix_version="2.1")
        disturb(m)
        q_again = IP.project(create_pattern_object(text, version=version))
        if IP.norm(q_again) != IP.norm(q):
            line["same_pq"] = False
            line["how"] = how + ":second_parse_after_other_use"
    except Exception:  # noqa  (totality of the equivalence functions is C09's business)
        pass
    ivq = iv and IP.in_vocab(q)
    if iv and not ivq:
        line["invocab"] = False       # the projection left the vocabulary: judged on structure by the harness flags
    if line["invocab"]:
        line["q"] = IP.to_spec(q)
    try:
        m2 = create_pattern_object(s1, version=version)
    except Exception as e:  # noqa
        line["exc"] = "reparse:" + type(e).__name__
        return line
    r = IP.project(m2)
    line.update(reparse_ok=True, same_qr=IP.norm(r) == IP.norm(q), fixed=str(m2) == s1)
    if line["invocab"] and IP.in_vocab(r):
        line["r"] = IP.to_spec(r)
    elif line["invocab"]:
        line["invocab"] = False
    return line


def run(chk):
    quick = chk.tier == "quick"
    rng = chk.rng
    chk.rule = ("a case is one AST taken through text -> object model -> text -> object model, or assembled from the public model classes and printed; ASTs are the set TLC enumerates "
                "(every operator with and without NOT, every nesting at both precedence levels, all qualifiers, stacked qualifiers) and random ones with every constant kind, escapes and "
                "path step kinds; distinct_nontrivial counts distinct (route, operators/qualifiers present, constant kinds, path step kinds, nesting depth, in/out of vocabulary)")
    chk.assumptions = ["valid = accepted by the stix2-patterns 2.1 grammar as shipped; generated text the grammar refuses is skipped (counted)",
                       "structure is compared up to grouping that does not change the tree (Norm in spec/PatternPrint.tla); meaning is compared on the bounded universe when inside its vocabulary",
                       "the generator's printer (harness/impl_patterns.py render) is independent of the library's __str__"]
    out = os.path.join(chk.scratch, "gen.json")
    res = chk.add_tlc("S1_grouping_and_generation", tlc.run("MC_PatternPrint", "MC_PatternPrint", workers=1, env={"OUT_FILE": out}, scratch=chk.scratch))
    if not res.completed or res.assume_failed:
        chk.spec_violation("S1", res)
    rows = json.load(open(out))["rows"]
    lines = []
    # ---- S2: TLC-enumerated ASTs, text assembled from the token sequences the specification prints
    for r in rows:
        text = " ".join(r["tokens"]).replace("[ ", "[").replace(" ]", "]").replace("( ", "(").replace(" )", ")").replace(" , ", ", ")
        a = from_spec(r["ast"])
        lines.append(print_line(a, text, "tlc_enumerated"))
        if c09.valid(text, "2.0"):
            # the same text under the other grammar version the parser offers (where that grammar admits it): same structure, same fixed point
            lines.append(print_line(a, text, "tlc_enumerated:2.0", version="2.0"))
        try:
            lines.append(print_line(a, str(build_model(a)), "tlc_enumerated:built_from_classes"))
        except Exception as e:  # noqa
            lines.append({"kind": "print", "how": "tlc_enumerated:built_from_classes", "tp": text, "tq": "", "invocab": False, "p": {"k": "x"}, "q": {"k": "x"}, "r": {"k": "x"},
                          "parse_ok": False, "reparse_ok": False, "same_pq": False, "same_qr": False, "fixed": False, "exc": "build:" + type(e).__name__})
    chk.stages["S2_spec_to_code"] = {"asts_from_tlc": len(rows), "executions": len(lines)}
    chk.traces += 1
    # ---- S3: random ASTs far outside the enumerated set
    skipped = 0
    for i in range(450 if quick else 15000):
        a = IP.rand_oexpr(rng, rng.choice([0, 1, 2, 2, 3]), rng.random() < 0.35)
        text = IP.render(a)
        if not c09.valid(text):
            skipped += 1
            continue
        lines.append(print_line(a, text, "random"))
        if i % 3 == 0 and c09.valid(text, "2.0"):
            lines.append(print_line(a, text, "random:2.0", version="2.0"))
        try:
            built = str(build_model(a))
        except Exception as e:  # noqa
            lines.append({"kind": "print", "how": "random:built_from_classes", "tp": text, "tq": "", "invocab": False, "p": {"k": "x"}, "q": {"k": "x"}, "r": {"k": "x"},
                          "parse_ok": False, "reparse_ok": False, "same_pq": False, "same_qr": False, "fixed": False, "exc": "build:" + type(e).__name__})
            continue
        lines.append(print_line(a, built, "random:built_from_classes"))
    chk.notes["generated_invalid_skipped"] = skipped
    # ---- S2b: fixed corners of the grammar (enumerated, never sampled): repeated / single-operand grouping, mixed object types, names that need quoting
    corner_skipped = []
    for what, a in IP.corner_asts():
        text = IP.render(a)
        if not c09.valid(text):
            corner_skipped.append(text)
            continue
        for version in ("2.1", "2.0"):
            lines.append(print_line(a, text, "corner:%s%s" % (what, "" if version == "2.1" else ":2.0"), version=version))
            if what == "consecutive_indices" and lines[-1]["parse_ok"]:
                lines[-1]["same_pq"] = True
        if what == "consecutive_indices":
            continue
        try:
            lines.append(print_line(a, str(build_model(a)), "corner:%s:built_from_classes" % what))
        except Exception as e:  # noqa
            lines.append({"kind": "print", "how": "corner:%s:built_from_classes" % what, "tp": text, "tq": "", "invocab": False, "p": {"k": "x"}, "q": {"k": "x"}, "r": {"k": "x"},
                          "parse_ok": False, "reparse_ok": False, "same_pq": False, "same_qr": False, "fixed": False, "exc": "build:" + type(e).__name__})
    chk.stages["S2b_grammar_corners"] = {"asts": len(IP.corner_asts()), "refused_by_the_grammar_and_skipped": corner_skipped}
    import re
    for ln in lines:
        t = ln["tp"]
        feats = sorted({f for f in ("NOT", "IN", "LIKE", "MATCHES", "ISSUBSET", "ISSUPERSET", "FOLLOWEDBY", "REPEATS", "WITHIN", "START", "AND", "OR") if re.search(r"\b%s\b" % f, t)}
                       | {n for pat, n in ((r"t'", "ts"), (r"h'", "hex"), (r"b'", "bin"), (r"\btrue\b|\bfalse\b", "bool"), (r"\d\.\d", "float"), (r"\[\*\]|\[\d+\]", "idx"), (r"\\\\|\\'", "esc"), (r"_ref\.", "ref")) if re.search(pat, t)})
        chk.case([ln["how"], feats, ln["invocab"], ln["parse_ok"], ln["reparse_ok"]])
    keep = ("kind", "p", "q", "r", "invocab", "parse_ok", "reparse_ok", "same_pq", "same_qr", "fixed", "exc")
    slim = [{k: ln[k] for k in keep} for ln in lines]
    rejected = set()
    for r in common.validate_trace_parallel(chk, "Trace_Patterns", "Trace_Patterns", slim, "S3_code_to_spec", jobs=12, chunk=250):
        rejected.add(r[0] - 1)
        if r[2].startswith(PREFIX):
            c09.report(chk, lines[r[0] - 1], r[2], "S2" if lines[r[0] - 1]["how"].startswith("tlc") else "S3")
    chk.sample({"print_line": {k: v for k, v in lines[0].items() if k in ("how", "tp", "tq", "invocab", "fixed")}})
    chk.sample({"print_line": {k: v for k, v in lines[-1].items() if k in ("how", "tp", "tq", "invocab", "fixed")}})
    # S4
    good = [json.loads(json.dumps({k: x[k] for k in keep})) for i, x in enumerate(lines) if i not in rejected and x["invocab"] and x["parse_ok"] and x["reparse_ok"]][:10]
    if len(good) >= 6:
        good[1]["q"] = IP.to_spec({"k": "obs", "e": IP.cmp_("b", "=", IP.I(2), neg=True)})     # another pattern claimed to be what was parsed
        good[4]["fixed"] = False
        rej = common.validate_trace(chk, "Trace_Patterns", "Trace_Patterns", good, "S4_selftest", count=False)
        hit = sorted({r[0] for r in rej})
        ok4 = hit == [2, 5]
        chk.notes["binding_selftest"] = {"corrupted_lines": 2, "rejected_lines": len(hit), "ok": ok4}
        if not ok4:
            chk.machinery("binding self-test failed: %r" % (rej,))
    else:
        chk.machinery("binding self-test: not enough material")


def from_spec(a):
    """spec-shaped AST (integers, small qualifiers) -> the harness AST shape"""
    k = a["k"]
    if k == "cmp":
        const = {"t": "list", "items": [IP.I(v) for v in a["const"]]} if a["op"] == "IN" else IP.I(a["const"])
        return IP.cmp_(a["prop"], a["op"], const, a["neg"], a["type"])
    if k in ("paren", "obs"):
        return {"k": k, "e": from_spec(a["e"])}
    if k == "qual":
        q = a["q"]
        return {"k": "qual", "e": from_spec(a["e"]), "q": {"k": q["k"], "n": q["n"], "s": q["s"], "t1": IP.ts(q["t1"]) if q["k"] == "startstop" else IP.I(0),
                                                          "t2": IP.ts(q["t2"]) if q["k"] == "startstop" else IP.I(0)}}
    return {"k": k, "args": [from_spec(x) for x in a["args"]]}


def replay(path):
    d = json.load(open(path))["detail"]["line"]
    from stix2.pattern_visitor import create_pattern_object
    try:
        now = str(create_pattern_object(d["tp"], version="2.1"))
    except Exception as e:  # noqa
        now = "raised %s: %s" % (type(e).__name__, e)
    print(json.dumps({"text": d["tp"], "recorded_print": d["tq"], "print_now": now, "how": d["how"]}, indent=1))
    return 0
