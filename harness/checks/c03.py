"""C03 -- every specification-valid object is accepted and its content preserved.  Specs: SpecValid.tla (oracle), Trace_ObjectModel.tla."""
import json

from .. import common
from . import om

PREFIX = "C03:"


def run(chk):
    quick = chk.tier == "quick"
    chk.rule = ("a case is one JSON object generated from the frozen specification model (required only / everything / each optional property alone / random subsets / every enumeration entry, "
                "boundary number, falsy value, timestamp spelling, reference target type, granular marking on each property), parsed strictly alone, inside a bundle, or (2.0 observables) "
                "inside an observed-data container; TLC decides from the model whether the input is valid; distinct_nontrivial counts distinct (version, type, construction, wrapper, outcome)")
    chk.assumptions = ["'valid per the specification' = valid per spec/frozen/model2x.json as judged by SpecValid.tla; inputs TLC does not find valid create no obligation",
                       "values the audit marks lenient (language tags, MIME types, CPE, patterns of other languages, open vocabularies) are generated in one plain form only"]
    om.s1(chk)
    lines = om.accept_lines(chk, quick)
    for ln in lines:
        chk.case([ln["v"], ln["key"], ln["how"].split("=")[0], ln["wrap"], ln["ok"], ln["exc"]])

    def rep(ln, clause, extra):
        how = ln["how"].split("=")[0]
        import re
        culprit = "other"
        if ln["exc"] == "InvalidValueError" and "timestamp" in ln.get("msg", "") and re.search(r"\.\d{7,}Z", json.dumps(ln["input"])):
            culprit = "timestamp with more than six fractional digits"
        chk.violation({"entry": "parse(%s)" % ln["wrap"], "clause": clause, "culprit": culprit, "case": "%s %s %s exc=%s differs=%s" % (ln["v"], ln["key"], how, ln["exc"], ",".join(ln.get("differs", []))[:60])},
                      {"line": {k: v for k, v in ln.items() if k != "doc"}, "clause": clause}, "S2")
    rejected = om.validate(chk, lines, PREFIX, rep)
    chk.notes["inputs_tlc_found_invalid_(no_obligation)"] = "see S3 stage NOOBLIGATION lines (not counted as cases)"
    chk.sample({"accept_line": {k: v for k, v in lines[0].items() if k in ("v", "key", "how", "wrap", "ok", "preserved", "extra", "input")}})
    good = [json.loads(json.dumps({k: x[k] for k in om.KEEP["accept"]})) for i, x in enumerate(lines) if i not in rejected and x["ok"] and x["v"] == "2.1"][:10]
    good[3]["ok"] = False
    good[6]["extra"] = ["name"]
    rej = common.validate_trace(chk, "Trace_ObjectModel", "Trace_ObjectModel", good, "S4_selftest", env={"MODEL_FILE": om.lex.model_file("2.1")}, count=False)
    hit = sorted({r[0] for r in rej})
    ok4 = hit == [4, 7]
    chk.notes["binding_selftest"] = {"corrupted_lines": 2, "rejected_lines": len(hit), "ok": ok4}
    if not ok4:
        chk.machinery("binding self-test failed: %r" % (rej,))


def replay(path):
    d = json.load(open(path))["detail"]["line"]
    print(json.dumps(om.accept_one(d["v"], d["key"], d["how"], d["input"], d["wrap"]), indent=1, default=str)[:3000])
    return 0
