"""C15 -- timestamp text.  Spec: spec/Timestamps.tla (pure integer arithmetic formatter / reader / property)."""
import datetime as dt
import json
import os

from .. import common, tlc

PCS = [("any", "exact"), ("any", "min"), ("second", "exact"), ("second", "min"), ("millisecond", "exact"), ("millisecond", "min")]
US_PATTERNS = [0, 1, 9, 10, 99, 100, 500, 999, 1000, 1001, 1500, 9999, 10000, 99999, 100000, 120000, 123000, 123400,
               123450, 123456, 499999, 500000, 999000, 999499, 999500, 999900, 999990, 999999]


def codes(s):
    return [ord(ch) for ch in s]


def civil(d, off):
    return {"y": d.year, "mo": d.month, "d": d.day, "h": d.hour, "mi": d.minute, "s": d.second, "us": d.microsecond, "off": off}


def mkdt(c, naive):
    tz = None if naive else dt.timezone(dt.timedelta(minutes=c["off"], seconds=c.get("offs", 0)))
    return dt.datetime(c["y"], c["mo"], c["d"], c["h"], c["mi"], c["s"], c["us"], tzinfo=tz)


class VarTz(dt.tzinfo):
    """a zone whose offset depends on the date (daylight saving; a zone that moved its standard meridian): ONE tzinfo object shared by many datetimes"""

    def __init__(self, winter, summer, months=(4, 10)):
        self.winter, self.summer, self.months = winter, summer, months

    def utcoffset(self, d):
        return dt.timedelta(seconds=self.summer if d is not None and self.months[0] <= d.month <= self.months[1] else self.winter)

    def dst(self, d):
        return dt.timedelta(0)

    def tzname(self, d):
        return "var"


def shared_zones():
    zs = [VarTz(3600, 7200), VarTz(-18000, -14400), VarTz(0, 3600, (3, 9)), VarTz(34200, 37800), VarTz(-1172, 0, (7, 12))]
    try:
        import zoneinfo
        for name in ("Europe/Berlin", "America/New_York", "Australia/Sydney"):
            zs.append(zoneinfo.ZoneInfo(name))
    except Exception:  # noqa  (no zone database here: the hand-made zones cover the case)
        pass
    return zs


def zone_lines(rng, n):
    """datetimes that share one date-dependent tzinfo object, written one after the other, alternating between its offsets"""
    lines = []
    for z in shared_zones():
        for i in range(n):
            prec, con = rng.choice(PCS)
            c = rand_civil(rng, boundary=0.3)
            c["y"] = rng.randint(1975, 2035)
            c["mo"] = rng.choice([1, 2, 12, 11] if i % 2 else [6, 7, 8, 5])
            c["d"] = min(c["d"], 28)
            c.pop("offs", None)
            x = dt.datetime(c["y"], c["mo"], c["d"], c["h"], c["mi"], c["s"], c["us"], tzinfo=z)
            sec = int(x.utcoffset().total_seconds())
            c["off"] = int(sec / 60)
            if sec - c["off"] * 60:
                c["offs"] = sec - c["off"] * 60
            ok, exc, out, ok2, out2 = fmt(x, prec, con)
            lines.append({"form": "dt", "first": [], "c": c, "naive": False, "src": [], "prec": prec, "con": con, "ok": ok, "exc": exc, "out": codes(out), "ok2": ok2, "out2": codes(out2),
                          "hasb": False, "cb": {}, "outb": [], "zone": "shared:" + str(getattr(z, "key", "hand-made"))})
    return lines


def fmt(x, prec, con):
    """the observed composite; returns (ok, exc, text, ok2, text2)"""
    from stix2.utils import format_datetime, parse_into_datetime
    try:
        out = format_datetime(parse_into_datetime(x, prec, con))
    except Exception as e:  # noqa
        return False, type(e).__name__, "", False, ""
    try:
        out2 = format_datetime(parse_into_datetime(out, prec, con))
        ok2 = True
    except Exception:  # noqa
        out2, ok2 = "", False
    return True, "none", out, ok2, out2


def observe(form, c, naive, src, prec, con, nb=None, first=None):
    if form == "str":
        x = src
    elif form == "stixdt":
        from stix2.utils import parse_into_datetime
        x = parse_into_datetime(mkdt(c, naive), *first)
        c = civil(x, 0)     # the value actually handed over is the (possibly truncated) STIXdatetime, in UTC
    elif form == "date":
        x = dt.date(c["y"], c["mo"], c["d"])
    else:
        x = mkdt(c, naive)
    ok, exc, out, ok2, out2 = fmt(x, prec, con)
    line = {"form": "dt" if form == "stixdt" else form, "first": list(first) if first else [], "c": c if c else {}, "naive": bool(naive), "src": codes(src) if src else [], "prec": prec, "con": con,
            "ok": ok, "exc": exc, "out": codes(out), "ok2": ok2, "out2": codes(out2), "hasb": False, "cb": {}, "outb": []}
    if nb is not None and ok:
        okb, _, outb, _, _ = fmt(mkdt(nb, False), prec, con)
        if okb:
            line.update(hasb=True, cb=nb, outb=codes(outb))
    return line


def rand_civil(rng, boundary=0.5):
    if rng.random() < boundary:
        y = rng.choice([1, 2, 9, 10, 99, 100, 400, 999, 1000, 1582, 1600, 1899, 1900, 1970, 2000, 2016, 2017, 2024, 2038, 2100, 9998, 9999])
    else:
        y = rng.randint(1, 9999)
    mo = rng.randint(1, 12)
    last = 31 if mo in (1, 3, 5, 7, 8, 10, 12) else 30 if mo != 2 else (29 if (y % 4 == 0 and y % 100 != 0) or y % 400 == 0 else 28)
    d = rng.choice([1, last, rng.randint(1, last)])
    h, mi, s = rng.choice([(0, 0, 0), (23, 59, 59), (rng.randint(0, 23), rng.randint(0, 59), rng.randint(0, 59))])
    us = rng.choice(US_PATTERNS) if rng.random() < boundary else rng.randint(0, 999999)
    off = rng.choice([0, 0, 840, -840, 330, 345, -1, 1, -720, -1439, 1439, rng.randint(-1439, 1439)])
    c = {"y": y, "mo": mo, "d": d, "h": h, "mi": mi, "s": s, "us": us, "off": off}
    if rng.random() < 0.12:        # an offset with a seconds part (local mean time, e.g. +00:19:32), same sign as the minutes
        c["offs"] = rng.choice([32, 30, 59, 1]) * (-1 if off < 0 else 1)
    return c


def later_neighbour(rng, c):
    """a civil time (UTC) a little later than c, as civil record with off=0, or None"""
    try:
        a = mkdt(c, False).astimezone(dt.timezone.utc)
        b = a + dt.timedelta(microseconds=rng.choice([0, 1, 1, 499, 500, 999, 1000, 1001, 999999, 1000000, rng.randint(1, 2000000)]))
    except OverflowError:
        return None
    return civil(b, 0)


def spell(rng, c):
    """an accepted text spelling of civil c (UTC)"""
    nf = rng.choice([0, 1, 2, 3, 4, 5, 6, 6])
    us = c["us"] // 10 ** (6 - nf) * 10 ** (6 - nf) if nf else 0
    c = dict(c, us=us, off=0)
    c.pop("offs", None)
    w = rng.choice(["%02d", "%02d", "%d"])
    s = ("%04d-" + w + "-" + w + "%s" + w + ":" + w + ":" + w) % (c["y"], c["mo"], c["d"], rng.choice("TTt"), c["h"], c["mi"], c["s"])
    if nf:
        s += "." + ("%06d" % us)[:nf]
    return s + rng.choice("ZZz"), c


def run(chk):
    quick = chk.tier == "quick"
    rng = chk.rng
    chk.rule = ("a case is one (input form, civil fields/offset or text spelling, precision, constraint) observation of "
                "format_datetime(parse_into_datetime(x,p,c)) plus write-read-write and a later neighbour; distinct_nontrivial counts distinct "
                "(form, year-digit-count, us class, offset sign, precision, constraint, output length)")
    chk.assumptions = ["proleptic Gregorian arithmetic of spec/Timestamps.tla (checked invertible by TLC over the model's dates)",
                       "a naive datetime denotes UTC (documented by the library)",
                       "inputs whose UTC image falls outside years 1..9999 carry no obligation"]
    # ---- S1
    out = os.path.join(chk.scratch, "table.json")
    res = chk.add_tlc("S1_model_check", tlc.run("MC_Timestamps", "MC_Timestamps", workers=16, env={"OUT_FILE": out}, scratch=chk.scratch, timeout=3000))
    if not res.completed:
        chk.spec_violation("S1", res)
    neg = tlc.run("Neg_Timestamps", "Neg_Timestamps", workers=2, scratch=chk.scratch)
    chk.stages["S1_negative_config"] = {"invariant_violated_as_required": bool(neg.invariant_violated)}
    if not neg.invariant_violated:
        chk.machinery("Neg_Timestamps did not produce a counterexample")
    if not quick:
        r2 = chk.add_tlc("S1_all_microseconds", tlc.run("MC_TimestampsUs", "MC_TimestampsUs", workers=16, scratch=chk.scratch, timeout=7200))
        if not r2.completed:
            chk.spec_violation("S1_all_microseconds", r2)
        r3 = chk.add_tlc("S1_all_days", tlc.run("MC_TimestampsDays", "MC_TimestampsDays", workers=16, scratch=chk.scratch, timeout=7200, extra=("-maxSetSize", "4000000")))
        if not r3.completed:
            chk.spec_violation("S1_all_days", r3)

    def sig(line):
        c = line["c"] or {}
        us = c.get("us", -1)
        usc = "0" if us == 0 else "ms" if us % 1000 == 0 else "sub-ms" if us > 0 else "text"
        return [line["form"], len(str(c.get("y", 0))), usc, (c.get("off", 0) > 0) - (c.get("off", 0) < 0), "offs" in c, line["prec"], line["con"], len(line["out"])]

    def report(line, clause, stage):
        c = line["c"] or {}
        ycls = "year<1000" if "".join(map(chr, line["out"])).find("-") in (1, 2, 3) else "year>=1000"
        chk.violation({"entry": "format_datetime(parse_into_datetime)", "case": "%s %s %s/%s %s" % (clause, line["form"], line["prec"], line["con"], ycls)},
                      {"line": line, "clause": clause, "out_text": "".join(map(chr, line["out"])), "src_text": "".join(map(chr, line["src"]))}, stage)

    # ---- S2 spec -> code: the TLC-computed table replayed through every input form
    rows = json.load(open(out))["rows"]
    rng.shuffle(rows)
    if quick:
        rows = rows[:6000]
    n2 = 0
    deviations = [0]
    s2lines = []
    for r in rows:
        c, prec, con = r["c"], r["prec"], r["con"]
        exp = "".join(map(chr, r["text"]))
        forms = [("dt", False)] + ([("dt", True)] if c["off"] == 0 else [])
        for form, naive in forms:
            ok, exc, got, ok2, got2 = fmt(mkdt(c, naive), prec, con)
            n2 += 1
            line = {"form": form, "c": c, "naive": naive, "src": [], "prec": prec, "con": con, "ok": ok, "exc": exc, "out": codes(got)}
            chk.case(sig(line))
            if ok and got != exp:
                deviations[0] += 1
            s2lines.append(observe(form, c, naive, None, prec, con))
        # the same instant handed over as canonical text: the output must be the same text again
        if c["off"] == 0 and prec == "any":
            ok, exc, got, _, _ = fmt(exp, prec, con)
            n2 += 1
            if not ok or got != exp:
                report({"form": "str", "c": c, "src": codes(exp), "prec": prec, "con": con, "ok": ok, "exc": exc, "out": codes(got)},
                       "canonical_text_not_fixed_point", "S2")
    chk.traces += 1
    chk.stages["S2_spec_to_code"] = {"table_rows": len(rows), "executions": n2, "text_differs_from_model": deviations[0]}
    chk.sample({"S2_row": rows[0]})

    # ---- S3 code -> spec
    n = 6000 if quick else 150000
    lines = list(s2lines)
    for i in range(n):
        prec, con = rng.choice(PCS)
        c = rand_civil(rng)
        k = rng.random()
        if k < 0.15:
            c["off"] = 0
            c.pop("offs", None)
            try:
                lines.append(observe("stixdt", c, False, None, prec, con, None, first=rng.choice(PCS)))
            except OverflowError:
                pass
        elif k < 0.55:
            naive = rng.random() < 0.3
            if naive:
                c["off"] = 0
                c.pop("offs", None)
            lines.append(observe("dt", c, naive, None, prec, con, later_neighbour(rng, c)))
        elif k < 0.65:
            c.update(h=0, mi=0, s=0, us=0, off=0)
            c.pop("offs", None)
            lines.append(observe("date", c, False, None, prec, con))
        else:
            s, c2 = spell(rng, c)
            lines.append(observe("str", None, False, s, prec, con, later_neighbour(rng, c2)))
    zl = zone_lines(rng, 30 if quick else 600)
    chk.stages["S3_shared_zone_objects"] = {"lines": len(zl), "zones": sorted({x["zone"] for x in zl})}
    lines += [{k: v for k, v in x.items() if k != "zone"} for x in zl]
    lines += property_lines(rng, 300 if quick else 5000)
    for ln in lines:
        chk.case(sig(ln))
    batch = 20000
    rejected = set()
    for i in range(0, len(lines), batch):
        part = lines[i:i + batch]
        for r in common.validate_trace(chk, "Trace_Timestamps", "Trace_Timestamps", part, "S3_code_to_spec"):
            report(part[r[0] - 1], r[2], "S3")
            rejected.add(i + r[0] - 1)
    chk.sample({"trace_line": lines[0]})
    chk.sample({"trace_line": next(x for x in lines if x["form"] == "str")})

    # ---- S3b: the repository's own tests as drivers (every format_datetime call recorded from outside by harness/record_plugin.py)
    rl, summ = common.repo_test_traces(chk, ["timestamps"])
    tl = rl["timestamps"]
    for ln in tl:
        chk.case(["repo-test"] + sig(ln))
    for r in (common.validate_trace(chk, "Trace_Timestamps", "Trace_Timestamps", [{k: v for k, v in x.items() if k != "test"} for x in tl], "S3b_repo_tests") if tl else []):
        ln = tl[r[0] - 1]
        ln["recorded_from_repository_test"] = ln.get("test", "")
        report(ln, r[2], "S3b")
    chk.stages["S3b_repo_tests"] = dict(chk.stages.get("S3b_repo_tests", {}), recorded_distinct_calls=len(tl), tests_passed_under_recording=summ["tests_passed_under_recording"],
                                        recorder_errors=summ["recorder_errors"])

    # ---- S4 binding self-test
    good = [x for i, x in enumerate(lines) if x["ok"] and x["form"] == "dt" and i not in rejected][:50]
    bad = [dict(x) for x in good]
    bad[7]["out"] = bad[7]["out"][:-2] + [bad[7]["out"][-2] ^ 1, 90]   # flip last digit before Z
    rej = common.validate_trace(chk, "Trace_Timestamps", "Trace_Timestamps", bad, "S4_selftest", count=False)
    ok4 = len({r[0] for r in rej}) == 1 and rej[0][0] == 8
    chk.notes["binding_selftest"] = {"corrupted_lines": 1, "rejected_lines": len({r[0] for r in rej}), "ok": ok4}
    if not ok4:
        chk.machinery("binding self-test failed: %r" % (rej,))


# timestamp-valued properties and the precision the specifications give them (frozen; not read from the code)
PROP_TABLE = [
    ("2.0", "Indicator", "created", "millisecond", "exact"), ("2.0", "Indicator", "modified", "millisecond", "exact"),
    ("2.0", "Indicator", "valid_from", "any", "exact"),
    ("2.1", "Indicator", "created", "millisecond", "min"), ("2.1", "Indicator", "modified", "millisecond", "min"),
    ("2.1", "Indicator", "valid_from", "any", "exact"),
    ("2.0", "Campaign", "first_seen", "any", "exact"), ("2.1", "Campaign", "first_seen", "any", "exact"),
    ("2.1", "File", "ctime", "any", "exact"), ("2.0", "File", "created", "any", "exact"),
    ("2.1", "Relationship", "start_time", "any", "exact"),
    ("2.0", "Sighting", "first_seen", "any", "exact"), ("2.1", "Sighting", "last_seen", "any", "exact"),
    ("2.1", "MarkingDefinition", "created", "millisecond", "min"),
]
BASE_ARGS = {
    "Indicator": {"pattern": "[file:name = 'a']", "labels": ["malicious-activity"], "pattern_type": "stix", "valid_from": "2000-01-01T00:00:00Z"},
    "Campaign": {"name": "c"}, "File": {"name": "f"},
    "Relationship": {"relationship_type": "uses", "source_ref": "campaign--11111111-1111-4111-8111-111111111111",
                     "target_ref": "malware--11111111-1111-4111-8111-111111111111"},
    "Sighting": {"sighting_of_ref": "malware--11111111-1111-4111-8111-111111111111"},
    "MarkingDefinition": {"definition_type": "statement", "definition": {"statement": "x"}},
}


def property_lines(rng, n):
    """timestamps as they appear in serialized objects, through constructor and parse"""
    import stix2.v20
    import stix2.v21
    lines = []
    for i in range(n):
        ver, cls, prop, prec, con = rng.choice(PROP_TABLE)
        mod = stix2.v20 if ver == "2.0" else stix2.v21
        c = rand_civil(rng)
        if c["y"] > 9000:
            c["y"] = 8000     # leave room for "modified >= created" style constraints
        args = dict(BASE_ARGS[cls])
        if ver == "2.0":
            args.pop("pattern_type", None)
        if cls == "MarkingDefinition" and ver == "2.0":
            args["definition"] = stix2.v20.StatementMarking("x")
        if cls == "MarkingDefinition" and ver == "2.1":
            args["definition"] = stix2.v21.StatementMarking("x")
        args[prop] = mkdt(c, False)
        first = None
        if rng.random() < 0.45:
            # the value as another object would hand it over: a STIXdatetime that already carries a precision label (possibly of another property's rule) and its digits
            from stix2.utils import parse_into_datetime
            first = rng.choice(PCS)
            try:
                args[prop] = parse_into_datetime(args[prop], *first)
                c = civil(args[prop].astimezone(dt.timezone.utc), 0)       # the value actually handed over, in UTC
            except Exception:  # noqa  (OverflowError near the ends of the range; whatever else the conversion refuses is judged by the dt / stixdt lines)
                args[prop] = mkdt(c, False)
                first = None
        if prop == "created" and cls != "File":
            args["modified"] = dt.datetime(9000, 1, 1, tzinfo=dt.timezone.utc)
        if prop == "modified":
            args["created"] = args[prop]
        if prop == "valid_from":
            args["valid_until"] = dt.datetime(9900, 1, 1, tzinfo=dt.timezone.utc)
        if prop == "last_seen":
            args["first_seen"] = args[prop]
        if cls == "MarkingDefinition":
            args.pop("modified", None)
        line = {"form": "prop", "c": c, "naive": False, "src": [], "prec": prec, "con": con, "hasb": False, "cb": {}, "outb": [],
                "where": "%s %s.%s" % (ver, cls, prop), "first": list(first) if first else []}
        try:
            obj = getattr(mod, cls)(**args)
            out = json.loads(obj.serialize())[prop]
            line.update(ok=True, exc="none", out=codes(out))
            try:
                d = json.loads(obj.serialize())
                out2 = json.loads(stix2.parse(d, version=ver).serialize())[prop]
                line.update(ok2=True, out2=codes(out2))
            except Exception:  # noqa
                line.update(ok2=False, out2=[])
        except OverflowError:
            line.update(ok=False, exc="OverflowError", out=[], ok2=False, out2=[])
        except Exception as e:  # noqa
            line.update(ok=False, exc=type(e).__name__, out=[], ok2=False, out2=[])
        lines.append(line)
    return lines


def replay(path):
    d = json.load(open(path))["detail"]
    ln = d["line"]
    x = "".join(map(chr, ln["src"])) if ln["form"] == "str" else (dt.date(ln["c"]["y"], ln["c"]["mo"], ln["c"]["d"]) if ln["form"] == "date" else mkdt(ln["c"], ln.get("naive", False)))
    print(json.dumps({"input": str(x), "prec": ln["prec"], "con": ln["con"], "recorded_out": "".join(map(chr, ln["out"])), "now": fmt(x, ln["prec"], ln["con"])}, indent=1))
    return 0
