"""C02 -- whatever the library emits in strict mode is valid STIX.  Specs: SpecValid.tla (validity), ObjectModel.tla (S1), Trace_ObjectModel.tla."""
import json

from .. import common
from . import om

PREFIX = "C02:"


def culprit(ln, faults):
    f = str(faults)
    for key, name in (("confidence:above_max", "confidence outside 0..100 (2.1)"), ("confidence:below_min", "confidence outside 0..100 (2.1)"), ("non_finite_number", "non-finite float emitted"),
                      ("malformed_identifier", "identifier not in canonical UUID form"), ("not_base64", "binary property not base64"), ("not_hex", "hex property not hex"),
                      ("not_later_than_valid_from", "2.0 indicator valid_until not after valid_from"), ("earlier_than_first_seen", "2.0 sighting last_seen before first_seen"),
                      ("uuid_not_allowed_in_version", "UUID version not allowed in this spec version"), ("reference_to_disallowed_type", "reference to a disallowed type"),
                      ("reference_to_unregistered_type", "reference to an unregistered type"), ("extensions:empty_dictionary", "empty extensions dictionary emitted")):
        if key in f:
            return name
    return "other"


def run(chk):
    quick = chk.tier == "quick"
    chk.rule = ("a case is (type, property, corruption kind) applied to a valid base object generated from the frozen model, through parse (text and dict) and the constructor, "
                "plus the valid bases themselves and junk inputs; TLC judges every strict-mode output with SpecValid; distinct_nontrivial counts distinct "
                "(version, type, corruption kind, entry, outcome class)")
    chk.assumptions = ["only what spec/frozen/model2x.json encodes is enforced; lenient entries create no obligation",
                       "leaf formats (canonical timestamp, UUID spelling and version, hex, base64) are facts stated by the lexer (harness/lex.py); SpecValid.tla decides validity from them"]
    om.s1(chk)
    lines = om.emit_lines(chk, quick, junk=True)
    for ln in lines:
        chk.case([ln["v"], ln["key"], ln["ctx"].split(":")[-2:] if ln["ctx"].startswith("junk") else ln["ctx"].split(":", 1)[-1], ln["entry"], ln["ok"], ln["exc"]])

    def rep(ln, clause, faults):
        kind = ln["ctx"].split(":", 1)[-1] if not ln["ctx"].startswith("junk") else "junk"
        chk.violation({"entry": ln["entry"], "clause": clause, "culprit": culprit(ln, faults),
                       "case": "%s %s %s faults=%s" % (ln["v"], ln["key"], kind[:40], str(faults)[:120])},
                      {"line": {k: v for k, v in ln.items() if k != "doc"}, "clause": clause, "faults": str(faults)}, "S2")
    rejected = om.validate(chk, lines, PREFIX, rep)
    ok_lines = [l for l in lines if l["ok"]]
    chk.notes["outcomes"] = {"accepted_or_normalised": len(ok_lines), "rejected_with_error": len(lines) - len(ok_lines)}
    chk.sample({"emit_line": {k: v for k, v in lines[1].items() if k in ("v", "key", "ctx", "entry", "ok", "exc", "msg")}})
    good = [json.loads(json.dumps({k: x[k] for k in om.KEEP["emit"]})) for i, x in enumerate(lines) if i not in rejected and x["ok"] and x["strict"] and x["v"] == "2.1" and x["key"] == "objects:identity"][:6]
    if len(good) >= 4:
        good[2]["doc"]["props"] = [p for p in good[2]["doc"]["props"] if p["name"] != "name"]      # a required property missing from the output
        rej = common.validate_trace(chk, "Trace_ObjectModel", "Trace_ObjectModel", good, "S4_selftest", env={"MODEL_FILE": om.lex.model_file("2.1")}, count=False)
        hit = sorted({r[0] for r in rej})
        ok4 = hit == [3]
        chk.notes["binding_selftest"] = {"corrupted_lines": 1, "rejected_lines": len(hit), "ok": ok4}
        if not ok4:
            chk.machinery("binding self-test failed: %r" % (rej,))
    else:
        chk.machinery("binding self-test: not enough material")


def replay(path):
    d = json.load(open(path))["detail"]["line"]
    if isinstance(d.get("input"), dict) and set(d["input"]) == {"generated"}:
        # a line of a systematic stage (objects built by the harness, sequences): re-run the stage and show the lines of the same name
        from .. import common

        class Quiet(object):
            tier, seed = "quick", 0
            import random as _r
            rng = _r.Random(0)
            notes, stages = {}, {}
            scratch = common.tlc.make_scratch("replay")

            def case(self, *a, **k):
                pass
        name = d.get("place") or d.get("ctx")
        lines = [ln for ln in om.emit_lines(Quiet(), True) if (ln.get("place") or ln.get("ctx")) == name]
        print(json.dumps({"recorded": {k: v for k, v in d.items() if k != "doc"}, "now": [{k: v for k, v in ln.items() if k not in ("doc", "output")} for ln in lines[:6]]}, indent=1, default=str)[:4000])
        return 0
    ln = om.emit_one(d["v"], d["key"], d["ctx"], d["input"], d["entry"]) if not d["ctx"].startswith("junk") else om.junk_one(d["ctx"], d["input"], d["v"], d["strict"])
    print(json.dumps({k: v for k, v in ln.items() if k != "doc"}, indent=1, default=str)[:3000])
    return 0
