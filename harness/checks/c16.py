"""C16 -- RFC 8785 canonical JSON.  Spec: spec/CanonJson.tla."""
import json
import math
import os
import re
import struct
from fractions import Fraction

from .. import common, tlc


def units(s):
    b = s.encode("utf-16-be", "surrogatepass")
    return [(b[i] << 8) | b[i + 1] for i in range(0, len(b), 2)]


def from_units(u):
    return b"".join(struct.pack(">H", x) for x in u).decode("utf-16-be", "surrogatepass")


def canon(value, utf8=False):
    from stix2.canonicalization.Canonicalize import canonicalize
    return canonicalize(value, utf8=utf8)


def build(v):
    """tagged value -> Python value; returns (value, exact) where exact=False if a float could not be reconstructed faithfully"""
    k = v["k"]
    if k == "null":
        return None, True
    if k == "bool":
        return v["v"], True
    if k == "str":
        return from_units(v["u"]), True
    if k == "zero":
        return 0.0 if v.get("float") else 0, True
    if k == "nan":
        return float("nan"), True
    if k == "inf":
        return float("-inf") if v.get("neg") else float("inf"), True
    if k == "num":
        ds = "".join(map(str, v["digits"]))
        x = float(Fraction(int(ds)) * Fraction(10) ** (v["n"] - len(ds)))
        if v["neg"]:
            x = -x
        ok = len(ds) <= 15 and -300 < v["n"] < 300
        if v.get("int") and x == int(x) and abs(x) < 2 ** 53:
            return int(x), ok
        return x, ok
    if k == "list":
        items = [build(i) for i in v["items"]]
        return [i[0] for i in items], all(i[1] for i in items)
    vals = [build(i) for i in v["vals"]]
    return {from_units(key): val[0] for key, val in zip(v["keys"], vals)}, all(x[1] for x in vals)


def shuffled(rng, value):
    if isinstance(value, dict):
        items = list(value.items())
        rng.shuffle(items)
        return {k: shuffled(rng, x) for k, x in items}
    if isinstance(value, list):
        return [shuffled(rng, x) for x in value]
    return value


def value_line(rng, v):
    value, exact = build(v)
    if not exact:
        return None
    line = {"t": "value", "v": v, "perm_ok": True, "utf8_ok": True}
    try:
        out = canon(value)
    except Exception as e:  # noqa
        line.update(ok=False, exc=type(e).__name__, out=[])
        return line
    line.update(ok=True, exc="none", out=units(out))
    try:
        line["perm_ok"] = all(canon(shuffled(rng, value)) == out for _ in range(3))
        line["utf8_ok"] = canon(value, utf8=True) == out.encode("utf-8")
    except Exception:  # noqa
        line["perm_ok"] = False
    return line


NUM_RE = re.compile(r"^(-?)(\d+)(?:\.(\d+))?(?:e([+-])(\d+))?$")


def number_line(x):
    """x: float (finite, non-zero) or int.  digits/n are read off the implementation's own output and then
    checked with exact rational arithmetic: round trip, shortest, closest."""
    line = {"t": "number", "neg": False, "digits": [], "n": 0, "rt_ok": False, "shortest_ok": False, "closest_ok": False,
            "repr": repr(x)}
    try:
        out = canon(x)
    except Exception as e:  # noqa
        line.update(ok=False, exc=type(e).__name__, out=[])
        return line
    line.update(ok=True, exc="none", out=units(out))
    m = NUM_RE.match(out)
    if not m:
        return line
    sign, ip, fp, es, ev = m.groups()
    fp = fp or ""
    alld = ip + fp
    lead = len(alld) - len(alld.lstrip("0"))
    ds = alld.strip("0")
    if not ds:
        return line
    n = len(ip) - lead + (int(ev) * (-1 if es == "-" else 1) if ev else 0)
    k = len(ds)
    xf = float(x)
    exact = Fraction(abs(xf))
    dec = Fraction(int(ds)) * Fraction(10) ** (n - k)
    line.update(neg=sign == "-", digits=[int(c) for c in ds], n=n)
    line["rt_ok"] = (float(dec) == abs(xf)) and ((sign == "-") == (xf < 0))

    def roundtrips(d):
        try:
            return d > 0 and float(d) == abs(xf)
        except OverflowError:       # beyond the largest double: does not denote xf
            return False
    # shortest: no decimal with k-1 significant digits round-trips (the two neighbours of the exact value suffice)
    if k == 1:
        line["shortest_ok"] = True
    else:
        scale = Fraction(10) ** (n - (k - 1))
        lo = (exact / scale).__floor__()
        line["shortest_ok"] = not (roundtrips(lo * scale) or roundtrips((lo + 1) * scale))
    # closest among the k-digit decimals that round-trip
    scale = Fraction(10) ** (n - k)
    mine = abs(dec - exact)
    line["closest_ok"] = all(not roundtrips(c) or abs(c - exact) >= mine for c in (dec - scale, dec + scale))
    return line


def rand_double(rng):
    k = rng.random()
    if k < 0.25:
        bits = rng.getrandbits(64)
    elif k < 0.35:   # subnormals
        bits = (rng.getrandbits(1) << 63) | rng.getrandbits(52)
    elif k < 0.5:    # near powers of ten around the layout thresholds
        e = rng.choice([-8, -7, -6, -5, -1, 0, 1, 15, 16, 17, 20, 21, 22, 23, 300, 308, -300, -323])
        x = float("%de%d" % (rng.choice([1, 1, 9, 5, 123, 999999, rng.randint(1, 10 ** rng.randint(1, 17))]), e))
        return x * rng.choice([1, -1])
    elif k < 0.7:    # integers incl. beyond 2^53
        return rng.choice([1, -1]) * rng.choice([2 ** 53, 2 ** 53 + 1, 2 ** 53 + 2, 2 ** 63, 2 ** 64, 10 ** 20, 10 ** 21, 10 ** 21 - 1, 10 ** 22,
                                                 rng.randint(1, 10 ** rng.randint(1, 25))])
    else:
        x = rng.random() * 10 ** rng.randint(-12, 25)
        return x if rng.random() < 0.5 else float(repr(x)[:rng.randint(3, 12)].rstrip("e-+.") or "1")
    x = struct.unpack(">d", struct.pack(">Q", bits))[0]
    return x


UNI_POOL = [0, 1, 8, 9, 10, 12, 13, 31, 32, 34, 47, 92, 127, 128, 159, 160, 233, 0x7ff, 0x800, 0x2028, 0x2029, 0xd7ff, 0xe000, 0xfb33, 0xfffd, 0xffff,
            0x10000, 0x1f600, 0x10ffff, 97, 98, 65, 48, 49]


def rand_str(rng, maxlen=6):
    cps = [rng.choice(UNI_POOL) if rng.random() < 0.6 else rng.choice([rng.randint(0, 0xd7ff), rng.randint(0xe000, 0x10ffff)]) for _ in range(rng.randint(0, maxlen))]
    return units("".join(map(chr, cps)))


def rand_value(rng, depth):
    k = rng.random()
    if depth <= 0 or k < 0.45:
        a = rng.random()
        if a < 0.1:
            return {"k": "null"}
        if a < 0.2:
            return {"k": "bool", "v": rng.random() < 0.5}
        if a < 0.5:
            return {"k": "str", "u": rand_str(rng)}
        if a < 0.55:
            return {"k": "zero", "float": rng.random() < 0.5}
        ds = str(rng.randint(1, 10 ** rng.randint(1, 15))).rstrip("0") or "1"
        return {"k": "num", "neg": rng.random() < 0.4, "digits": [int(c) for c in ds], "n": rng.randint(-12, 26), "int": rng.random() < 0.5}
    if k < 0.7:
        return {"k": "list", "items": [rand_value(rng, depth - 1) for _ in range(rng.randint(0, 4))]}
    keys = []
    for _ in range(rng.randint(0, 5)):
        u = rand_str(rng, 3)
        if u not in keys:
            keys.append(u)
    return {"k": "obj", "keys": keys, "vals": [rand_value(rng, depth - 1) for _ in keys]}


def val_sig(v):
    k = v["k"]
    if k == "num":
        n, kk = v["n"], len(v["digits"])
        lay = "int" if kk <= n <= 21 else "point" if 0 < n <= 21 else "lead0" if -6 < n <= 0 else "exp"
        return "num:" + lay
    if k == "str":
        cls = set()
        for c in v["u"]:
            cls.add("ctl" if c < 32 else "esc" if c in (34, 92) else "ascii" if c < 128 else "sur" if 0xd800 <= c < 0xe000 else "bmp")
        return "str:" + "+".join(sorted(cls))
    if k == "list":
        return "list[" + ",".join(sorted({val_sig(i) for i in v["items"]})) + "]"
    if k == "obj":
        return "obj%d[" % len(v["keys"]) + ",".join(sorted({val_sig(i) for i in v["vals"]})) + "]"
    return k


def run(chk):
    quick = chk.tier == "quick"
    rng = chk.rng
    chk.rule = ("cases are JSON values (tagged, insertion-ordered) and single numbers; distinct_nontrivial counts distinct structural signatures "
                "(kinds, number layout class, string character classes, member counts) for values and distinct (layout class, digit count, exponent) for numbers")
    chk.assumptions = ["floats in structured values carry <= 15 significant digits, so their shortest round-trip digits are the generating digits",
                       "shortest/closest digit facts for arbitrary doubles are established by exact rational arithmetic in the harness (fractions.Fraction; int/int division correctly rounded)",
                       "well-formed Unicode only (no lone surrogates)"]
    out = os.path.join(chk.scratch, "table.json")
    res = chk.add_tlc("S1_model_check", tlc.run("MC_CanonJson", "MC_CanonJson" if quick else "MC_CanonJsonThorough", workers=16, env={"OUT_FILE": out}, scratch=chk.scratch, timeout=7200))
    if not res.completed:
        chk.spec_violation("S1", res)
    neg = tlc.run("Neg_CanonJson", "Neg_CanonJson", workers=2, scratch=chk.scratch)
    chk.stages["S1_negative_config"] = {"invariant_violated_as_required": bool(neg.invariant_violated)}
    if not neg.invariant_violated:
        chk.machinery("Neg_CanonJson did not produce a counterexample")

    def report(line, clause, stage):
        if line["t"] == "number":
            case = "%s number repr=%s" % (clause, "exp" if "e" in line.get("repr", "") else "plain")
            if clause in ("finite_value_refused",):
                case = "%s number" % clause
        else:
            case = "%s %s" % (clause, val_sig(line["v"])[:80])
        chk.violation({"entry": "canonicalize", "case": case}, {"line": line, "clause": clause, "out_text": from_units(line["out"]) if line.get("out") else ""}, stage)

    # S2: the TLC table replayed
    rows = json.load(open(out))["rows"]
    n2 = 0
    skipped = 0
    for r in rows:
        v, exp = r["v"], r["text"]
        value, exact = build(v)
        if not exact:
            skipped += 1
            continue
        n2 += 1
        chk.case(["value", val_sig(v)], {"value": v, "expected_units": exp} if n2 in (5, 900) else None)
        try:
            got = units(canon(value))
            ok = True
        except Exception as e:  # noqa
            got, ok = [], False
            exc = type(e).__name__
        line = {"t": "value", "v": v, "ok": ok, "out": got}
        if exp == [-1]:
            if ok:
                report(line, "nonfinite_not_refused", "S2")
        elif not ok:
            report(line, "finite_value_refused", "S2")
        elif got != exp:
            report(line, "text_differs_from_rfc8785", "S2")
    chk.traces += 1
    chk.stages["S2_spec_to_code"] = {"table_rows": len(rows), "executions": n2, "skipped_unreconstructible": skipped}

    # S3: random values and numbers
    lines = []
    for i in range(2500 if quick else 60000):
        v = rand_value(rng, 3)
        ln = value_line(rng, v)
        if ln is not None:
            lines.append(ln)
            chk.case(["value", val_sig(v)])
    for bad in ({"k": "nan"}, {"k": "inf"}, {"k": "inf", "neg": True}):
        for wrap in (lambda x: x, lambda x: {"k": "list", "items": [{"k": "null"}, x]}, lambda x: {"k": "obj", "keys": [[97]], "vals": [x]},
                     lambda x: {"k": "obj", "keys": [[97]], "vals": [{"k": "list", "items": [x]}]}):
            lines.append(value_line(rng, wrap(bad)))
    # histories: a call that is refused part-way (a non-finite number deep inside) must leave nothing behind -- the same Python object, repaired in place, is then
    # canonicalized like a fresh copy of it; and calls before do not matter to calls after
    for i in range(40 if quick else 2000):
        v = rand_value(rng, 2)
        inner, exact = build(v)
        if not exact:
            continue
        holder = {"a": [inner, float("nan")], "b": {"c": [float("inf")]}} if i % 2 else [{"k": inner}, [float("nan")]]
        try:
            canon(holder)
            refused = False
        except Exception:  # noqa
            refused = True
        if i % 2:
            holder["a"][1] = 1
            holder["b"]["c"][0] = 2
            tagged = {"k": "obj", "keys": [units("a"), units("b")], "vals": [{"k": "list", "items": [v, {"k": "num", "neg": False, "digits": [1], "n": 1, "int": True}]},
                                                                            {"k": "obj", "keys": [units("c")], "vals": [{"k": "list", "items": [{"k": "num", "neg": False, "digits": [2], "n": 1, "int": True}]}]}]}
        else:
            holder[1][0] = 1
            tagged = {"k": "list", "items": [{"k": "obj", "keys": [units("k")], "vals": [v]}, {"k": "list", "items": [{"k": "num", "neg": False, "digits": [1], "n": 1, "int": True}]}]}
        line = {"t": "value", "v": tagged, "perm_ok": True, "utf8_ok": True, "history": "same object after a refused call" + ("" if refused else " (first call was not refused)")}
        try:
            out = canon(holder)
            line.update(ok=True, exc="none", out=units(out))
        except Exception as e:  # noqa
            line.update(ok=False, exc=type(e).__name__, out=[])
        lines.append(line)
        chk.case(["value-after-refused-call", val_sig(tagged)])
    for i in range(4000 if quick else 200000):
        x = rand_double(rng)
        if isinstance(x, float) and (math.isnan(x) or math.isinf(x) or x == 0):
            continue
        ln = number_line(x)
        lines.append(ln)
        chk.case(["number", len(ln["digits"]), ln["n"], ln["ok"]])
    rejected = set()
    for i in range(0, len(lines), 20000):
        part = lines[i:i + 20000]
        for r in common.validate_trace(chk, "Trace_CanonJson", "Trace_CanonJson", part, "S3_code_to_spec"):
            report(part[r[0] - 1], r[2], "S3")
            rejected.add(i + r[0] - 1)
    chk.sample({"trace_line": lines[0]})
    chk.sample({"trace_line": lines[-1]})
    # S3b: the repository's own tests as drivers (canonicalize calls recorded from outside by harness/record_plugin.py: mostly identifier-contributing
    # properties of 2.1 observables)
    rl, summ = common.repo_test_traces(chk, ["canonjson"], select=["stix2/test/v21"])
    cl = rl["canonjson"]
    for ln in cl:
        chk.case(["repo-test value", val_sig(ln["v"])])
    for r in (common.validate_trace(chk, "Trace_CanonJson", "Trace_CanonJson", [{k: v for k, v in x.items() if k != "test"} for x in cl], "S3b_repo_tests") if cl else []):
        ln = cl[r[0] - 1]
        ln["recorded_from_repository_test"] = ln.pop("test", "")
        report(ln, r[2], "S3b")
    chk.stages["S3b_repo_tests"] = dict(chk.stages.get("S3b_repo_tests", {}), recorded_distinct_values=len(cl), tests_passed_under_recording=summ["tests_passed_under_recording"],
                                        recorder_errors=summ["recorder_errors"], values_outside_model=summ["counts"].get("canonjson:outside_model", 0))
    # S4
    good = [json.loads(json.dumps(x)) for i, x in enumerate(lines) if x["ok"] and i not in rejected and x["t"] == "value" and len(x["out"]) > 3][:30]
    good[4]["out"][1] ^= 1
    nums = [json.loads(json.dumps(x)) for i, x in enumerate(lines) if x["ok"] and i not in rejected and x["t"] == "number"][:10]
    nums[3]["n"] += 1
    rej = common.validate_trace(chk, "Trace_CanonJson", "Trace_CanonJson", good + nums, "S4_selftest", count=False)
    ok4 = sorted({r[0] for r in rej}) == [5, 34]
    chk.notes["binding_selftest"] = {"corrupted_lines": 2, "rejected_lines": len({r[0] for r in rej}), "ok": ok4}
    if not ok4:
        chk.machinery("binding self-test failed: %r" % (rej,))


def replay(path):
    d = json.load(open(path))["detail"]["line"]
    if d["t"] == "value":
        value, _ = build(d["v"])
        try:
            now = canon(value)
        except Exception as e:  # noqa
            now = "refused: %r" % e
        print(json.dumps({"value": repr(value), "recorded_out": from_units(d["out"]), "now": now}, indent=1))
    else:
        print(json.dumps({"repr": d["repr"], "recorded": from_units(d["out"])}))
    return 0
