"""C07 -- marking algebra.  Specs: spec/Markings.tla (+ Selectors.tla for selector validity).  C08 shares the pipeline (c08.py)."""
import copy
import json
import os

from .. import common, tlc
from .. import impl_markings as IM
from .. import objects as O

PREFIX = "C07:"


def sig(line):
    return [line["op"], len(line["ms"]), len(line["ss"]), line["ur"], line["ul"], line["inh"], line["desc"], line["res"]["k"], line["res"].get("e", ""),
            len(line["pre"]["G"]) > 0, len(line["pre"]["O"]) > 0, line["via"], line.get("host", "")]


def report(chk, line, clause, stage):
    kinds = sorted({IM.leaf_class(line["tree"], s) if tuple(s) in set(map(tuple, IM.paths(line["tree"]))) else "absent" for s in line["ss"]})
    chk.violation({"entry": "markings." + {"add": "add_markings", "remove": "remove_markings", "clear": "clear_markings", "set": "set_markings",
                                          "get": "get_markings", "is_marked": "is_marked", "is_marked_any": "is_marked",
                                          "addO": "add_markings(object)", "removeO": "remove_markings(object)", "setO": "set_markings(object)",
                                          "clearO": "clear_markings(object)", "getO": "get_markings(object)", "is_markedO": "is_marked(object)",
                                          "construct": "constructor", "parse": "parse"}.get(line["op"], line["op"]),
                   "clause": clause,
                   "case": "inherited=%s descendants=%s marking_given=%s target=%s depth=%d host=%s" % (
                       line["inh"], line["desc"], bool(line["ms"]), "+".join(kinds), max([len(s) for s in line["ss"]] or [0]), line.get("hostkind", "?"))},
                  {"line": line, "clause": clause}, stage)


def map_step(step, mapping):
    st = dict(step)
    st["ss"] = [mapping[tuple(s)].split(".") for s in step["ss"]]
    return st


def unmap(line, mapping):
    back = {tuple(v.split(".")): list(k) for k, v in mapping.items()}
    return [[back.get(tuple(p[0]), p[0]), p[1]] for p in line["post"]["G"]]


def relayout(obj, rng):
    """the same set of (selector, marking) pairs in another concrete layout of granular_markings: one entry per pair, overlapping entries, repeated entries,
    another order.  Objects built only through add_markings are always in compressed form; real content is not."""
    gms = [dict(g) for g in O.plain(dict(obj)).get("granular_markings", []) or []]
    if not gms:
        return obj
    pairs = []
    for g in gms:
        key = "marking_ref" if "marking_ref" in g else "lang"
        for s in g["selectors"]:
            if (s, key, g[key]) not in pairs:
                pairs.append((s, key, g[key]))
    how = rng.choice(["exploded", "overlapping", "repeated", "shuffled"])
    if how == "exploded":
        new = [{"selectors": [s], k: m} for s, k, m in pairs]
    elif how == "overlapping":
        new = []
        by = {}
        for s, k, m in pairs:
            by.setdefault((k, m), []).append(s)
        for (k, m), ss in by.items():
            if len(ss) >= 2:
                new += [{"selectors": ss[:-1], k: m}, {"selectors": ss[1:], k: m}] if len(ss) > 2 else [{"selectors": ss, k: m}, {"selectors": [ss[rng.randrange(2)]], k: m}]
            else:
                new += [{"selectors": ss, k: m}, {"selectors": list(ss), k: m}]
    elif how == "repeated":
        new = gms + [dict(gms[rng.randrange(len(gms))])]
    else:
        new = list(gms)
        rng.shuffle(new)
        for g in new:
            g["selectors"] = list(reversed(g["selectors"]))
    try:
        if isinstance(obj, dict):
            d = copy.deepcopy(obj)
            d["granular_markings"] = new
            return d
        return type(obj)(**dict({k: v for k, v in dict(obj).items() if k != "granular_markings"}, granular_markings=new))
    except Exception:  # noqa  (a layout the library refuses is not this check's subject)
        return obj


def behaviours(chk, quick):
    sim = tlc.run("MC_MarkingsGen", "Sim_Markings", workers=1, simulate="num=%d" % (150 if quick else 3000), depth=11, seed=chk.seed, scratch=chk.scratch)
    behs = [json.loads(t[1]) for t in sim.marked("BEH")]
    chk.rng.shuffle(behs)
    return behs[:250 if quick else 12000]


def pipeline(chk, prefix):
    """runs S1..S4 for the marking specs; violations whose clause starts with `prefix` belong to the calling property"""
    quick = chk.tier == "quick"
    rng = chk.rng
    res = chk.add_tlc("S1_model_check", tlc.run("MC_MarkingsAlgebra", "MC_Markings" if quick else "MC_MarkingsThorough", workers=16, scratch=chk.scratch, timeout=7200))
    if not res.completed:
        chk.spec_violation("S1", res)
    neg = tlc.run("Neg_Markings", "MC_Markings", workers=2, scratch=chk.scratch)
    chk.stages["S1_negative_config"] = {"assumption_false_as_required": bool(neg.assume_failed)}
    if not neg.assume_failed:
        chk.machinery("Neg_Markings did not fail")
    if prefix == "C07:":
        # the representation side: lists of entries abstract to sets of pairs, and the mutators computed on expanded lists do not depend on the layout
        lay = chk.add_tlc("S1_layout_independence", tlc.run("MC_MarkingsLayout", "MC_MarkingsLayout", workers=4, scratch=chk.scratch, timeout=3600))
        if not lay.completed or lay.assume_failed:
            chk.spec_violation("S1_layout_independence", lay)
        nlay = tlc.run("Neg_MarkingsLayout", "Neg_MarkingsLayout", workers=2, scratch=chk.scratch)
        chk.stages["S1_negative_config_layout"] = {"assumption_false_as_required": bool(nlay.assume_failed)}
        if not nlay.assume_failed:
            chk.machinery("Neg_MarkingsLayout did not fail")
    lines = []
    # ---- S2: TLC behaviours replayed on hosts realising the hazard selectors
    behs = behaviours(chk, quick)
    hs = IM.hosts()
    nrep = 0
    for bi, beh in enumerate(behs):
        name, obj, mapping = hs[bi % len(hs)]
        if name.startswith("v20") and any(m.startswith("L") for st in beh for m in st["ms"]):
            name, obj, mapping = hs[bi % 2]       # language markings do not exist in STIX 2.0
        for i, step in enumerate(beh):
            st = map_step(step, mapping)
            if rng.random() < 0.25:
                obj = relayout(obj, rng)        # same abstract state, another concrete layout
            line, new = IM.observe(bi, obj, st, "method" if (bi + i) % 2 else "function")
            line["host"], line["hostkind"] = name, name
            line["stage"] = "S2"
            line["spec"] = {"res": step["res"], "G": step["G"], "O": step["O"]}
            line["impl_G_in_model_terms"] = unmap(line, mapping)
            lines.append(line)
            nrep += 1
            obj = new
        chk.traces += 1
    chk.stages["S2_spec_to_code"] = {"behaviours_replayed": len(behs), "steps": nrep}
    if behs:
        chk.sample({"S2_behaviour_first_steps": behs[0][:3]})
    # ---- S3: random histories on objects of every SDO/SRO type with random content; selectors drawn from the object's real paths and near misses
    n_hist = 25 if quick else 1200
    for h in range(n_hist):
        v = rng.choice(["2.0", "2.1"])
        typ = rng.choice(sorted(O.TABLES[v]))
        cls, base, roles = O.TABLES[v][typ]
        args = copy.deepcopy(base)
        for role, (prop, a, b) in roles.items():
            if role == "name" or rng.random() < 0.7:
                args[prop] = copy.deepcopy(rng.choice([a, b]))
        args.update(created=O.us(0), modified=O.us(rng.choice([0, 5000])))
        if rng.random() < 0.5:
            args["external_references"] = copy.deepcopy(rng.choice([O.ER_A, O.ER_B, O.ER_A + O.ER_A]))
        if rng.random() < 0.4 and "labels" not in args and not (v == "2.0" and typ in ("indicator", "malware", "report", "threat-actor", "tool")):
            args["labels"] = rng.choice([["x"], ["x", "x"], ["x", "y", "x"]])
        if rng.random() < 0.3:
            args["revoked"] = False
        if rng.random() < 0.5:        # content that arrives already marked at object level
            args["object_marking_refs"] = [IM.MARK[m] for m in rng.sample(["M1", "M2", "M3"], rng.choice([1, 2]))]
        try:
            obj = getattr(O.module(v), cls)(**args)
        except Exception as e:  # noqa
            chk.machinery("cannot build %s %s: %r" % (v, typ, e))
            continue
        if rng.random() < 0.3:
            obj = json.loads(obj.serialize())
        kind = "%s-%s-%s" % (v, typ, "dict" if isinstance(obj, dict) else "obj")
        earlier = [obj]
        for i in range(rng.randint(4, 12)):
            if rng.random() < 0.3:
                obj = rng.choice(earlier)        # several operations start from the same object (it must still be what it was)
            tree = IM.tree_of(O.plain(dict(obj)))
            ps = [p for p in IM.paths(tree) if not IM.lenient(p)]
            near = [p[:-1] + ("zzz",) for p in rng.sample(ps, min(2, len(ps)))] + [("zzz",), ("labels", "[9]"), ("name", "[0]"), ("created", "foo")]
            pick = lambda: list(rng.choice(ps) if rng.random() < 0.88 else rng.choice(near))
            existing = [tuple(p[0]) for p in IM.project(O.plain(dict(obj)))["G"]]
            ss = []
            for _ in range(rng.choice([1, 1, 1, 2])):
                s = list(rng.choice(existing)) if existing and rng.random() < 0.45 else pick()
                if s not in ss:
                    ss.append(s)
            k = rng.random()
            op = "add" if k < 0.3 else "remove" if k < 0.4 else "clear" if k < 0.48 else "set" if k < 0.56 else "get" if k < 0.7 else "is_marked" if k < 0.76 \
                else "is_marked_any" if k < 0.8 else rng.choice(["addO", "addO", "addO", "removeO", "setO", "clearO", "getO", "is_markedO"])
            ms = rng.sample(["M1", "M2", "M3", "L1", "L2"] if v == "2.1" else ["M1", "M2", "M3"], rng.choice([1, 1, 2]))
            if op in ("is_marked", "is_markedO"):
                ms = ms[:1]
            if op.endswith("O"):
                ms = [m for m in ms if m.startswith("M")] or ["M1"]
                ss = []
            if op in ("clear", "get", "is_marked_any", "clearO", "getO"):
                ms = []
            step = {"op": op, "ms": ms, "ss": ss, "ur": rng.random() < 0.8, "ul": rng.random() < 0.8, "inh": rng.random() < 0.4, "desc": rng.random() < 0.4}
            if op in ("add", "remove", "is_marked", "is_marked_any") or op.endswith("O"):
                step["ur"] = step["ul"] = True
            if rng.random() < 0.3:
                obj = relayout(obj, rng)
            line, obj = IM.observe(100000 + h, obj, step, rng.choice(["method", "function"]))
            line["hostkind"] = "obj" if "obj" in kind else "dict"
            line["host"] = kind
            line["stage"] = "S3"
            lines.append(line)
            earlier.append(obj)
        chk.traces += 1
    return lines


def validate(chk, lines, prefix):
    for ln in lines:
        chk.case(sig(ln))
    rejected = set()
    slim = [{k: v for k, v in ln.items() if k not in ("spec", "impl_G_in_model_terms")} for ln in lines]
    for i in range(0, len(slim), 4000):
        part = slim[i:i + 4000]
        for r in common.validate_trace(chk, "Trace_Markings", "Trace_Markings", part, "S3_code_to_spec"):
            rejected.add(i + r[0] - 1)
            if r[2].startswith(prefix):
                report(chk, lines[i + r[0] - 1], r[2], lines[i + r[0] - 1].get("stage", "S3"))
            elif prefix == "C07:" and r[2] == "C08:selector_addressing_something_rejected" and lines[i + r[0] - 1]["op"] not in ("construct", "parse"):
                # the algebra is quantified over all selectors of the object: an operation refused on an existing selector has no effect where it must have one
                report(chk, lines[i + r[0] - 1], "C07:operation_refused_on_existing_selector", lines[i + r[0] - 1].get("stage", "S3"))
            else:
                chk.notes.setdefault("rejections_belonging_to_other_property", 0)
                chk.notes["rejections_belonging_to_other_property"] += 1
    # frame clause shared with C13: the call must not have modified the object it was given
    for ln in lines:
        if not ln["orig_unchanged"] and prefix == "C07:":
            report(chk, ln, "C07:argument_object_modified", ln.get("stage", "S3"))
    return rejected


def selftest(chk, lines, rejected):
    good = [json.loads(json.dumps({k: v for k, v in x.items() if k not in ("spec", "impl_G_in_model_terms")})) for i, x in enumerate(lines)
            if i not in rejected and x["op"] == "add" and x["res"]["k"] == "new" and not x["lenient"]][:12]
    if len(good) < 8:
        chk.machinery("binding self-test: not enough accepted add lines")
        return
    good[2]["post"]["G"] = good[2]["pre"]["G"]                 # the add is lost
    good[6]["res"] = {"k": "err", "e": "InvalidSelectorError"}   # a valid selector refused
    good[6]["post"] = good[6]["pre"]
    rej = common.validate_trace(chk, "Trace_Markings", "Trace_Markings", good, "S4_selftest", count=False)
    ok4 = sorted({r[0] for r in rej}) == [3, 7]
    chk.notes["binding_selftest"] = {"corrupted_lines": 2, "rejected_lines": len({r[0] for r in rej}), "ok": ok4}
    if not ok4:
        chk.machinery("binding self-test failed: %r" % (rej,))


def run(chk):
    chk.rule = ("a case is one marking call (operation, markings, selectors, flags) in a history on a real object; distinct_nontrivial counts distinct "
                "(operation, |markings|, |selectors|, flags, outcome, granular/object markings present before, method/function, host)")
    chk.assumptions = ["marking tokens M1..M3 are marking-definition ids, L1..L2 language tags",
                       "remove/clear of absent markings: 'object returned unchanged' and MarkingNotFoundError are both 'no change' (only the resulting set is compared)",
                       "inherited lookups include object-level markings regardless of the marking_ref flag, as the library documents",
                       "multi-marking is_marked queries (ANY vs ALL is documented inconsistently) are not generated"]
    lines = pipeline(chk, PREFIX)
    rejected = validate(chk, lines, PREFIX)
    chk.sample({"trace_line": {k: v for k, v in lines[-1].items() if k != "tree"}})
    selftest(chk, lines, rejected)


def replay(path):
    d = json.load(open(path))["detail"]["line"]
    print(json.dumps({k: v for k, v in d.items() if k != "tree"}, indent=1)[:4000])
    return 0
