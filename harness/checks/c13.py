"""C13 -- library operations never modify their arguments or existing objects.  Spec: spec/Frame.tla.

The model is a heap of mutable cells; the frame condition (NoMutation) says that a library step leaves every existing cell as it was.
Binding: TLC-generated behaviours over the abstract operations (caller_makes, caller_mutates, construct, new_version, deepcopy, gather,
assign_refused) are replayed on the real library -- each abstract operation is realised by one of many public calls -- with deep snapshots
of every argument and of every previously created object taken before and after each call; the recorded lines are validated by
Trace_Frame.tla.  A second, systematic pass runs every public call of the catalogue on several argument shapes, twice on the same input.
"""
import copy
import datetime
import io
import json
import os
import random
import shutil

import logging

import stix2
import stix2.base
import stix2.equivalence.pattern
import stix2.markings
import stix2.parsing
import stix2.utils
import stix2.versioning
from stix2 import v20, v21
from stix2.base import _STIXBase

from .. import common, schema, tlc
from .. import objects as O

VERSIONS = ["2.0", "2.1"]
MOD = {"2.0": v20, "2.1": v21}
TLPS = {"white": stix2.TLP_WHITE, "green": stix2.TLP_GREEN, "amber": stix2.TLP_AMBER, "red": stix2.TLP_RED}
TLP21 = {"white": v21.TLP_WHITE, "green": v21.TLP_GREEN, "amber": v21.TLP_AMBER, "red": v21.TLP_RED}
TLP20 = {"white": v20.TLP_WHITE, "green": v20.TLP_GREEN, "amber": v20.TLP_AMBER, "red": v20.TLP_RED}


# ------------------------------------------------------------------------------------------------ snapshots
def snap(x, depth=0, seen=None):
    """a deep, value-level picture of x: container kinds, element order of lists, dictionary content (key order ignored), leaf types and values"""
    if seen is None:
        seen = set()
    if depth > 40:
        return ("deep",)
    if isinstance(x, (str, int, float, bool, bytes, type(None))):
        return (type(x).__name__, repr(x))
    if isinstance(x, datetime.datetime):
        return (type(x).__name__, x.isoformat(), str(getattr(x, "precision", None)), str(getattr(x, "precision_constraint", None)))
    if id(x) in seen:
        return ("cycle",)
    seen = seen | {id(x)}
    if isinstance(x, _STIXBase):
        return ("O", type(x).__module__ + "." + type(x).__name__, snap(x._inner, depth + 1, seen),
                tuple(sorted((k, snap(v, depth + 1, seen)) for k, v in vars(x).items() if k not in ("_inner", "_STIXBase__now", "_STIXBase__INTEROPERABILITY_types"))))
    if isinstance(x, dict):
        return ("D", type(x).__name__, tuple(sorted(((repr(k), snap(v, depth + 1, seen)) for k, v in x.items()), key=lambda kv: kv[0])))
    if isinstance(x, (list, tuple)):
        return ("L", type(x).__name__, tuple(snap(v, depth + 1, seen) for v in x))
    if isinstance(x, (set, frozenset)):
        return ("S", type(x).__name__, tuple(sorted(repr(snap(v, depth + 1, seen)) for v in x)))
    if hasattr(x, "__dict__"):
        return ("X", type(x).__name__, snap(vars(x), depth + 1, seen))
    return (type(x).__name__, repr(x))


def public(s):
    """a snapshot without the private bookkeeping of library objects (reference tables, custom flags): what `equal` means for a copy"""
    if isinstance(s, tuple) and s and s[0] == "O":
        return ("O", s[1], public(s[2]), ())
    if isinstance(s, tuple):
        return tuple(public(x) for x in s)
    return s


def first_diff(a, b, path="$"):
    if a == b:
        return None
    if not isinstance(a, tuple) or not isinstance(b, tuple) or not a or not b or a[0] != b[0] or a[0] not in ("O", "D", "L"):
        return "%s: %s -> %s" % (path, str(a)[:80], str(b)[:80])
    if a[0] == "O":
        return first_diff(a[2], b[2], path) or "%s: private attributes differ" % path
    if a[0] == "D":
        da, db = dict(a[2]), dict(b[2])
        for k in sorted(set(da) | set(db)):
            if k not in da:
                return "%s[%s]: key added" % (path, k)
            if k not in db:
                return "%s[%s]: key removed" % (path, k)
            d = first_diff(da[k], db[k], "%s[%s]" % (path, k))
            if d:
                return d
    if a[0] == "L":
        if len(a[2]) != len(b[2]):
            return "%s: length %d -> %d" % (path, len(a[2]), len(b[2]))
        for i, (u, w) in enumerate(zip(a[2], b[2])):
            d = first_diff(u, w, "%s[%d]" % (path, i))
            if d:
                return d
    return "%s: differs" % path


def diff_class(d):
    """the stable part of a difference, for signatures: the path without indices and values"""
    import re
    p = (d or "").split(":")[0]
    p = re.sub(r"\[\d+\]", "[i]", p)
    p = re.sub(r"--[0-9a-f-]{36}", "--<uuid>", p)
    return p[:80] + (": length" if ": length" in (d or "") else "")


def mutable_ids(x, out=None, depth=0):
    """identities of the mutable containers reachable from x"""
    if out is None:
        out = {}
    if depth > 40 or id(x) in out:
        return out
    if isinstance(x, _STIXBase):
        out[id(x)] = x
        mutable_ids(x._inner, out, depth + 1)
    elif isinstance(x, dict):
        out[id(x)] = x
        for v in x.values():
            mutable_ids(v, out, depth + 1)
    elif isinstance(x, (list, set, bytearray)):
        out[id(x)] = x
        if not isinstance(x, bytearray):
            for v in x:
                mutable_ids(v, out, depth + 1)
    elif isinstance(x, tuple):
        for v in x:
            mutable_ids(v, out, depth + 1)
    return out


def is_globalconst(x):
    """module-level constants shared by every user (the TLP marking definitions): sharing them is not sharing mutable state of the original"""
    return False


# ------------------------------------------------------------------------------------------------ recorder
class Recorder(object):
    def __init__(self, chk):
        self.chk = chk
        self.live = []          # [label, object]
        self.lines = []
        self.details = {}       # line number -> detail for reporting
        self.okcount = {}
        for n, o in sorted(TLP20.items()):
            self.live.append(["TLP20_" + n, o])
        for n, o in sorted(TLP21.items()):
            self.live.append(["TLP21_" + n, o])
        import stix2.equivalence.object as eo
        self.live.append(["WEIGHTS", eo.WEIGHTS])

    def reset_live(self):
        del self.live[9:]

    def add_live(self, label, obj):
        if isinstance(obj, (_STIXBase, dict, list)) and not any(o is obj for _, o in self.live):
            self.live.append([label, obj])

    def call(self, kind, name, args, thunk, ctx, extra=None):
        """args: [(argname, value)] -- everything the caller hands in or still holds"""
        pre_args = [snap(v) for _, v in args]
        pre_live = [snap(o) for _, o in self.live]
        res, exc = None, "none"
        try:
            res = thunk()
        except Exception as e:  # noqa  (a refused call is fine; the frame condition holds on the error path too)
            exc = type(e).__name__
        post_args = [snap(v) for _, v in args]
        post_live = [snap(o) for _, o in self.live]
        line = {"kind": kind, "op": name, "exc": exc,
                "args": [{"name": n, "unchanged": a == b} for (n, _), a, b in zip(args, pre_args, post_args)],
                "live": [{"name": n, "unchanged": a == b} for (n, _), a, b in zip(self.live, pre_live, post_live)],
                "refused": False, "copy_equal": True, "copy_disjoint": True, "ctx": ctx}
        diffs = [["arg", n, first_diff(a, b)] for (n, _), a, b in zip(args, pre_args, post_args) if a != b]
        diffs += [["live", n, first_diff(a, b)] for (n, _), a, b in zip(self.live, pre_live, post_live) if a != b]
        if extra:
            line.update(extra(res, exc))
        if diffs:
            line["diffs"] = diffs
        self.lines.append(line)
        k = self.okcount.setdefault(name, [0, 0])
        k[0] += 1
        k[1] += exc == "none"
        self.chk.case([kind, name, ctx.get("v"), ctx.get("shape"), exc != "none"])
        return res, exc


# ------------------------------------------------------------------------------------------------ argument shapes
def marking_ids(v):
    return [m.id for m in (TLP20 if v == "2.0" else TLP21).values()]


def selectable(doc):
    return [k for k in doc if k not in ("type", "id", "granular_markings", "spec_version")]


def sub_selectors(doc, rng):
    out = []
    for k in selectable(doc):
        out.append(k)
        if isinstance(doc[k], list) and doc[k]:
            out.append("%s.[0]" % k)
            if isinstance(doc[k][0], dict) and doc[k][0]:
                out.append("%s.[0].%s" % (k, sorted(doc[k][0])[0]))
        elif isinstance(doc[k], dict) and doc[k]:
            kk = sorted(doc[k])[0]
            if "." not in kk:
                out.append("%s.%s" % (k, kk))
    return out


def make_doc(w, rng, want=None, marked=True):
    """a STIX document (dict) with nested dictionaries and lists; SDO/SRO documents get object and granular markings"""
    g = w.g
    keys = [k for k in g.keys() if not (w.v == "2.0" and k.startswith("observables:"))]
    if want == "sdo":
        keys = [k for k in keys if k.startswith("objects:") and k.split(":")[1] not in ("marking-definition", "relationship", "sighting")]
    elif want == "sco":
        keys = [k for k in keys if k.startswith("observables:")] or keys
    key = rng.choice(keys)
    doc = g.instance(key, rng.choice(["max", "max", "rand"]))
    if key.startswith("objects:") and doc.get("type") != "marking-definition" and marked:
        mids = marking_ids(w.v)
        if rng.random() < 0.7:
            doc["object_marking_refs"] = rng.sample(mids, rng.choice([1, 2]))
        if rng.random() < 0.8:
            sels = sub_selectors(doc, rng)
            gm = []
            for _ in range(rng.choice([1, 2, 3])):
                e = {"selectors": rng.sample(sels, 1 if rng.random() < 0.6 else min(2, len(sels)))}
                if w.v == "2.1" and rng.random() < 0.3:
                    e["lang"] = rng.choice(["en", "fr"])
                else:
                    e["marking_ref"] = rng.choice(mids)
                gm.append(e)
            doc["granular_markings"] = gm
    if rng.random() < 0.3 and key.startswith("objects:"):
        doc["x_custom"] = {"nested": [1, {"deep": ["a"]}]}
    if rng.random() < 0.6:
        relax_hash_names(doc, rng)
    return key, doc


def relax_hash_names(x, rng, top=True):
    """hash dictionaries given with the relaxed algorithm spellings the library accepts (md5, sha256, Sha-1 ...): it writes the specification's names into ITS copy.
    Only top-level `hashes` and those of external references: nested ones (extensions, containers) are looked up by exact name elsewhere."""
    relaxed = {"MD5": ["md5", "Md5"], "SHA-1": ["sha1", "sha-1", "SHA1"], "SHA-256": ["sha256", "SHA256", "sha-256"], "SHA-512": ["sha512", "SHA512"], "SHA3-256": ["sha3-256", "SHA3256"],
               "SHA3-512": ["sha3-512"], "SSDEEP": ["ssdeep"]}
    if isinstance(x, dict):
        h = x.get("hashes")
        if isinstance(h, dict) and h:
            for k in list(h):
                if k in relaxed and rng.random() < 0.7:
                    h[rng.choice(relaxed[k])] = h.pop(k)
        if top:
            for er in x.get("external_references", []) or []:
                relax_hash_names(er, rng, top=False)


def simple_obj(w, rng):
    m = MOD[w.v]
    k = rng.random()
    if k < 0.4:
        return m.Identity(name="id-%d" % rng.randint(0, 99), identity_class="organization")
    if k < 0.7:
        kw = {"is_family": False} if w.v == "2.1" else {"labels": ["ransomware"]}
        return m.Malware(name="mw-%d" % rng.randint(0, 99), **kw)
    return m.Campaign(name="c-%d" % rng.randint(0, 99), aliases=["a", "b"])


def make_list(w, rng):
    """a caller's list of documents, objects already created in this history, and fresh objects"""
    n = rng.choice([1, 2, 2, 3])
    out = []
    sdos = [o for o in w.objs.values() if isinstance(o, _STIXBase) and "id" in o and "type" in o and o["type"] != "bundle"]
    for _ in range(n):
        k = rng.random()
        if k < 0.35 and sdos:
            out.append(rng.choice(sdos))
        elif k < 0.7:
            out.append(make_doc(w, rng, "sdo")[1])
        else:
            out.append(simple_obj(w, rng))
    return out


def make_kw(w, rng):
    """keyword arguments whose values are library objects and nested containers"""
    m = MOD[w.v]
    ident = m.Identity(name="creator", identity_class="individual")
    tl = TLP20 if w.v == "2.0" else TLP21
    stmt = m.MarkingDefinition(definition_type="statement", definition=m.StatementMarking(statement="(c) x"))
    er = [m.ExternalReference(source_name="capec", external_id="CAPEC-1"), {"source_name": "x", "url": "https://x.example/", "hashes": {rng.choice(["SHA-256", "sha256", "sha-256"]): "aa" * 32, rng.choice(["MD5", "md5"]): "aa" * 16}}]
    kw = {"name": "n", "created_by_ref": rng.choice([ident, ident.id]), "object_marking_refs": [tl["red"], stmt, tl["green"].id][:rng.choice([1, 2, 3])],
          "external_references": er[:rng.choice([1, 2])],
          "granular_markings": [m.GranularMarking(marking_ref=tl["amber"].id, selectors=["name"]), {"marking_ref": stmt.id, "selectors": ["external_references.[0].source_name"]}][:rng.choice([1, 2])]}
    which = rng.choice(["attack-pattern", "malware", "tool", "observed-data", "report", "indicator"])
    if which == "attack-pattern":
        kw["kill_chain_phases"] = [m.KillChainPhase(kill_chain_name="k", phase_name="p"), {"kill_chain_name": "k2", "phase_name": "p2"}]
        cls = m.AttackPattern
    elif which == "malware":
        kw.update({"is_family": False} if w.v == "2.1" else {"labels": ["ransomware"]})
        cls = m.Malware
    elif which == "tool":
        if w.v == "2.0":
            kw["labels"] = ["remote-access"]
        kw["kill_chain_phases"] = [{"kill_chain_name": "k2", "phase_name": "p2"}]
        cls = m.Tool
    elif which == "indicator":
        kw.update(pattern="[file:name = 'a']", valid_from="2020-01-01T00:00:00Z")
        kw.update({"pattern_type": "stix"} if w.v == "2.1" else {"labels": ["malicious-activity"]})
        cls = m.Indicator
    elif which == "report":
        kw.update(published="2020-01-01T00:00:00Z", object_refs=[ident, simple_obj(w, rng), "malware--11111111-1111-4111-8111-111111111111"])
        kw.update({"report_types": ["threat-report"]} if w.v == "2.1" else {"labels": ["threat-report"]})
        cls = m.Report
    else:
        kw.pop("name")
        kw["granular_markings"] = [{"marking_ref": stmt.id, "selectors": ["number_observed"]}]
        kw.update(first_observed="2020-01-01T00:00:00Z", last_observed="2020-01-01T00:00:01Z", number_observed=1)
        f_ext = {"ntfs-ext": {"sid": "S-1", "alternate_data_streams": [{"name": "ads", "hashes": {"MD5": "aa" * 16}}]}}
        if w.v == "2.0":
            kw["objects"] = {"0": m.File(name="f", extensions=copy.deepcopy(f_ext), _valid_refs={"1": "directory"}, parent_directory_ref="1"),
                             "1": {"type": "directory", "path": "/d", "contains_refs": ["0"]},
                             "2": {"type": "email-message", "is_multipart": True, "body_multipart": [{"body": "b", "content_type": "text/plain"}, {"body_raw_ref": "0"}]}}
        else:
            f = m.File(name="f", extensions={"ntfs-ext": m.NTFSExt(sid="S-1", alternate_data_streams=[m.AlternateDataStream(name="ads", hashes={"MD5": "aa" * 16})])})
            if rng.random() < 0.5:
                kw["object_refs"] = [f, m.Directory(path="/d", contains_refs=[f])]
            else:
                fid = "file--11111111-1111-4111-8111-111111111111"
                kw["objects"] = {"0": {"type": "file", "id": fid, "name": "f", "extensions": f_ext}, "1": m.Directory(path="/d", contains_refs=[fid])}
        cls = m.ObservedData
    return cls, kw


# ------------------------------------------------------------------------------------------------ the world of one history
class World(object):
    def __init__(self, v, rng, rec, scratch):
        self.v, self.rng, self.rec, self.scratch = v, rng, rec, scratch
        self.g = schema.Gen(v, rng)
        self.cells = {}
        self.objs = {}
        self.mem = stix2.MemoryStore()
        self.fsdir = None

    def fs(self):
        if self.fsdir is None:
            self.fsdir = os.path.join(self.scratch, "fs-%d" % self.rng.randint(0, 10 ** 9))
            os.makedirs(self.fsdir, exist_ok=True)
        return stix2.FileSystemStore(self.fsdir, allow_custom=True)

    def close(self):
        if self.fsdir:
            shutil.rmtree(self.fsdir, ignore_errors=True)

    def new_cell(self, cid, shape=None):
        rng = self.rng
        shape = shape or rng.choice(["doc", "doc", "list", "kw", "sco", "custom"])
        if shape == "custom":
            key, doc = make_custom_doc(self, rng)
            self.cells[cid] = {"shape": "doc", "key": key, "val": doc, "custom_type": True}
        elif shape == "doc":
            key, doc = make_doc(self, rng, "sdo" if rng.random() < 0.7 else None)
            self.cells[cid] = {"shape": "doc", "key": key, "val": doc}
        elif shape == "sco":
            if self.v == "2.0":
                doc = rng.choice([{"type": "file", "name": "f", "hashes": {"MD5": "aa" * 16}, "extensions": {"archive-ext": {"contains_refs": ["1"], "comment": "c"}}, "parent_directory_ref": "1"},
                                  {"type": "email-message", "is_multipart": True, "from_ref": "1", "to_refs": ["1"], "body_multipart": [{"body": "b", "content_type": "text/plain"}],
                                   "additional_header_fields": {"X-A": ["1", "2"]}},
                                  {"type": "network-traffic", "src_ref": "1", "protocols": ["tcp", "http"], "extensions": {"http-request-ext": {"request_method": "get", "request_value": "/", "request_header": {"A": "b"}}}}])
                self.cells[cid] = {"shape": "sco", "key": "observables:" + doc["type"], "val": doc, "refs": {"1": rng.choice(["directory", "email-addr", "ipv4-addr"])}}
                t = doc["type"]
                self.cells[cid]["refs"] = {"1": {"file": "directory", "email-message": "email-addr", "network-traffic": "ipv4-addr"}[t]}
            else:
                key, doc = make_doc(self, rng, "sco")
                self.cells[cid] = {"shape": "sco", "key": key, "val": doc, "refs": {}}
        elif shape == "list":
            self.cells[cid] = {"shape": "list", "val": make_list(self, rng)}
        else:
            cls, kw = make_kw(self, rng)
            self.cells[cid] = {"shape": "kw", "cls": cls, "val": kw}
        return self.cells[cid]


_CUSTOM13 = {}


def custom13():
    """registered custom types, two of them declared with an extension of their own (extension_name=...): the library adds that extension to every instance"""
    if not _CUSTOM13:
        from stix2.properties import IntegerProperty, ListProperty, StringProperty

        @v21.CustomObject("x-verif-frame", [("name", StringProperty(required=True)), ("tags", ListProperty(StringProperty))],
                          extension_name="extension-definition--dddddddd-1111-4111-8111-111111111111")
        class XFrame(object):
            pass

        @v21.CustomObservable("x-verif-frame-obs", [("value", StringProperty(required=True)), ("n", IntegerProperty())], ["value"],
                              extension_name="extension-definition--eeeeeeee-1111-4111-8111-111111111111")
        class XFrameObs(object):
            pass

        @v21.CustomObject("x-verif-frame-plain", [("name", StringProperty(required=True))])
        class XFramePlain(object):
            pass

        @v20.CustomObject("x-verif-frame", [("name", StringProperty(required=True)), ("tags", ListProperty(StringProperty))])
        class XFrame20(object):
            pass
        _CUSTOM13.update(frame=XFrame, obs=XFrameObs, plain=XFramePlain, frame20=XFrame20)
    return _CUSTOM13


def make_custom_doc(w, rng):
    """a document of a registered custom type whose `extensions` dictionary is the caller's: empty, or holding only extension definitions the library does not know"""
    custom13()
    foreign = {"extension-definition--ffffffff-1111-4111-8111-111111111111": {"extension_type": "property-extension", "score": 7}}
    ext = rng.choice([{}, copy.deepcopy(foreign), dict(copy.deepcopy(foreign), **{"extension-definition--ffffffff-2222-4222-8222-222222222222": {"extension_type": "property-extension", "x": [1]}})])
    which = rng.choice(["frame", "obs", "plain"]) if w.v == "2.1" else "frame20"
    if which == "obs":
        doc = {"type": "x-verif-frame-obs", "value": "v", "n": 1}
    else:
        doc = {"type": {"frame": "x-verif-frame", "plain": "x-verif-frame-plain", "frame20": "x-verif-frame"}[which], "name": "n"}
        if which != "plain":
            doc["tags"] = ["a", "b"]
    if w.v == "2.1":
        doc["spec_version"] = "2.1"
        if ext or rng.random() < 0.7:
            doc["extensions"] = ext
    return ("observables:" if which == "obs" else "objects:") + doc["type"], doc


def cls_for(v, doc):
    import stix2.registry
    return stix2.registry.class_for_type(doc["type"], v)


def granular_selectors(x):
    gm = x.get("granular_markings", []) if isinstance(x, (dict, _STIXBase)) else []
    out = []
    for e in gm:
        out += list(e.get("selectors", []))
    return out


# ------------------------------------------------------------------------------------------------ the catalogue of public calls
def construct_ops(w, cell):
    """[(name, extra args, thunk)] -- calls that read the caller container `cell`"""
    v, rng, c = w.v, w.rng, cell["val"]
    m = MOD[v]
    ops = []
    if cell["shape"] in ("doc", "sco"):
        custom = "x_custom" in c
        ops.append(("parse(dict)", [], lambda: stix2.parse(c, allow_custom=custom, version=v)))
        ops.append(("parse(dict) version detected", [], lambda: stix2.parse(c, allow_custom=True)))
        ops.append(("parsing.dict_to_stix2(dict)", [], lambda: stix2.parsing.dict_to_stix2(c, allow_custom=custom, version=v)))
        ops.append(("cls(**dict)", [], lambda: cls_for(v, c)(allow_custom=custom, **c)))
        ops.append(("Bundle(objects=[dict])", [], lambda: m.Bundle(objects=[c], allow_custom=custom)))
        ops.append(("Bundle(dict)", [], lambda: m.Bundle(c, allow_custom=custom)))
        ops.append(("MemoryStore(stix_data=dict)", [], lambda: stix2.MemoryStore(stix_data=c, allow_custom=True, version=v)))
        ops.append(("MemoryStore.add(dict)", [], lambda: w.mem.add(c, version=v)))
        ops.append(("MemorySink.add([dict])", [], lambda: stix2.MemorySink(allow_custom=True).add([c], version=v)))
        ops.append(("canonicalize(dict)", [], lambda: stix2.canonicalization.Canonicalize.canonicalize(c)))
        ops.append(("utils.detect_spec_version(dict)", [], lambda: stix2.utils.detect_spec_version(c)))
    if cell.get("custom_type") and isinstance(c.get("extensions"), dict) and v == "2.1":
        shared = c["extensions"]
        ops.append(("Identity(extensions=the same dictionary) then cls(**dict)", [("extensions", shared)],
                    lambda: (m.Identity(name="earlier", identity_class="organization", **({"extensions": shared} if shared else {})), cls_for(v, c)(**c))[1]))
    if cell["shape"] == "sco":
        refs = cell["refs"]
        ops.append(("parse_observable(dict, valid_refs)", [("valid_refs", refs)], lambda: stix2.parse_observable(c, refs, allow_custom=False, version=v)))
        ops.append(("parse_observable(dict, valid_refs) allow_custom", [("valid_refs", refs)], lambda: stix2.parse_observable(c, refs, allow_custom=True, version=v)))
        if v == "2.0":
            od = {"type": "observed-data", "id": "observed-data--11111111-1111-4111-8111-111111111111", "created": "2020-01-01T00:00:00.000Z", "modified": "2020-01-01T00:00:00.000Z",
                  "first_observed": "2020-01-01T00:00:00Z", "last_observed": "2020-01-01T00:00:00Z", "number_observed": 1,
                  "objects": {"0": c, "1": {"directory": {"type": "directory", "path": "/d"}, "email-addr": {"type": "email-addr", "value": "a@x.example"},
                                            "ipv4-addr": {"type": "ipv4-addr", "value": "10.0.0.1"}}[refs["1"]]}}
            ops.append(("parse(observed-data with the dict as member)", [("observed-data", od)], lambda: stix2.parse(od, version=v)))
            ops.append(("ObservedData(objects={..dict..})", [("objects", od["objects"])], lambda: m.ObservedData(first_observed="2020-01-01T00:00:00Z", last_observed="2020-01-01T00:00:00Z",
                                                                                                                number_observed=1, objects=od["objects"])))
    if cell["shape"] == "doc" and cell["key"].startswith("objects:") and c.get("type") != "marking-definition":
        mids = marking_ids(v)
        mk = rng.choice(mids)
        mobj = (TLP20 if v == "2.0" else TLP21)[rng.choice(sorted(TLP20))]
        gs = granular_selectors(c)
        sel_hit = [rng.choice(gs)] if gs else ["type"]
        sel_any = rng.sample(sub_selectors(c, rng), min(2, len(sub_selectors(c, rng)))) or ["type"]
        gm_ref = None
        for e in c.get("granular_markings", []):
            if "marking_ref" in e:
                gm_ref = e["marking_ref"]
        changes = {"labels": ["l1", "l2"]} if v == "2.0" else {"confidence": 5}
        ops += [
            ("versioning.new_version(dict, **changes)", [("changes", changes)], lambda: stix2.versioning.new_version(c, **changes)),
            ("versioning.new_version(dict, granular_markings=None)", [], lambda: stix2.versioning.new_version(c, granular_markings=None)),
            ("versioning.revoke(dict)", [], lambda: stix2.versioning.revoke(c)),
            ("versioning.remove_custom_stix(dict)", [], lambda: stix2.versioning.remove_custom_stix(c)),
            ("markings.get_markings(dict)", [], lambda: stix2.markings.get_markings(c)),
            ("markings.get_markings(dict, selectors, inherited, descendants)", [("selectors", sel_hit)], lambda: stix2.markings.get_markings(c, sel_hit, inherited=True, descendants=True)),
            ("markings.is_marked(dict, marking, selectors)", [("selectors", sel_any)], lambda: stix2.markings.is_marked(c, [mk], sel_any, inherited=True, descendants=True)),
            ("markings.add_markings(dict, marking)", [], lambda: stix2.markings.add_markings(c, mk, None)),
            ("markings.add_markings(dict, [marking obj], selectors)", [("selectors", sel_any), ("markings", [mobj])], lambda: stix2.markings.add_markings(c, [mobj], sel_any)),
            ("markings.add_markings(dict, marking, marked selectors)", [("selectors", sel_hit)], lambda: stix2.markings.add_markings(c, mk, sel_hit)),
            ("markings.remove_markings(dict, marking)", [], lambda: stix2.markings.remove_markings(c, (c.get("object_marking_refs") or [mk])[0], None)),
            ("markings.remove_markings(dict, marking, marked selectors)", [("selectors", sel_hit)], lambda: stix2.markings.remove_markings(c, gm_ref or mk, sel_hit)),
            ("markings.set_markings(dict, marking)", [], lambda: stix2.markings.set_markings(c, mk, None)),
            ("markings.set_markings(dict, marking, marked selectors)", [("selectors", sel_hit)], lambda: stix2.markings.set_markings(c, mk, sel_hit)),
            ("markings.set_markings(dict, [markings], selectors)", [("selectors", sel_any), ("markings", mids[:2])], lambda: stix2.markings.set_markings(c, mids[:2], sel_any)),
            ("markings.clear_markings(dict)", [], lambda: stix2.markings.clear_markings(c, None)),
            ("markings.clear_markings(dict, marked selectors)", [("selectors", sel_hit)], lambda: stix2.markings.clear_markings(c, sel_hit)),
            ("markings.clear_markings(dict, marked selectors, marking)", [("selectors", sel_hit)], lambda: stix2.markings.clear_markings(c, sel_hit, gm_ref)),
            ("ObjectFactory.create(cls, **dict)", [], lambda: factory(w).create(cls_for(v, c), **{k: x for k, x in c.items() if k != "type"})),
            ("Environment.add(dict)", [], lambda: stix2.Environment(store=stix2.MemoryStore()).add(c)),
        ]
    if cell["shape"] == "list":
        extra = simple_obj(w, rng)
        other = [simple_obj(w, rng), make_doc(w, rng, "sdo")[1]]
        filt = [stix2.Filter("type", "in", ["identity", "malware"]), stix2.Filter("created", ">", "2019-01-01T00:00:00Z")]
        ids = [x["id"] for x in c if "id" in x]
        ops += [
            ("Bundle(list)", [], lambda: m.Bundle(c, allow_custom=True)),
            ("Bundle(list, obj)", [("obj", extra)], lambda: m.Bundle(c, extra, allow_custom=True)),
            ("Bundle(obj, list)", [("obj", extra)], lambda: m.Bundle(extra, c, allow_custom=True)),
            ("Bundle(list, list)", [("list2", other)], lambda: m.Bundle(c, other, allow_custom=True)),
            ("Bundle(list, obj, objects=list)", [("obj", extra), ("objects", other)], lambda: m.Bundle(c, extra, objects=other, allow_custom=True)),
            ("Bundle(objects=list)", [], lambda: m.Bundle(objects=c, allow_custom=True)),
            ("Bundle(*list)", [], lambda: m.Bundle(*c, allow_custom=True)),
            ("parse(bundle dict with the list)", [], lambda: stix2.parse(dict({"type": "bundle", "id": "bundle--11111111-1111-4111-8111-111111111111", "objects": c},
                                                                             **({"spec_version": "2.0"} if v == "2.0" else {})), allow_custom=True, version=v)),
            ("MemoryStore(stix_data=list)", [], lambda: stix2.MemoryStore(stix_data=c, allow_custom=True, version=v)),
            ("MemoryStore.add(list)", [], lambda: w.mem.add(c, version=v)),
            ("MemorySource(stix_data=list).query(filters)", [("filters", filt)], lambda: stix2.MemorySource(stix_data=c, allow_custom=True, version=v).query(filt)),
            ("MemoryStore.query(filter list)", [("filters", filt)], lambda: w.mem.query(filt)),
            ("FileSystemStore.add(list) then query", [("filters", filt)], lambda: (w.fs().add(c, version=v), w.fs().query(filt))),
            ("MemoryStore.save_to_file / load_from_file", [], lambda: save_load(w, c)),
            ("Report(object_refs=list)", [], lambda: m.Report(name="r", published="2020-01-01T00:00:00Z", object_refs=c if all(isinstance(x, _STIXBase) for x in c) else [x if isinstance(x, _STIXBase) else x["id"] for x in c], allow_custom=True,
                                                               **({"report_types": ["x"]} if v == "2.1" else {"labels": ["threat-report"]}))),
            ("Relationship(list[0], 'related-to', list[-1])", [], lambda: m.Relationship(c[0] if isinstance(c[0], _STIXBase) else c[0]["id"], "related-to", c[-1] if isinstance(c[-1], _STIXBase) else c[-1]["id"])),
            ("Sighting(list[0], where_sighted_refs=...)", [("where", ids)], lambda: m.Sighting(sighting_of_ref=c[0], where_sighted_refs=[i for i in ids if i.startswith("identity")] or None)),
            ("utils.deduplicate(list)", [], lambda: stix2.utils.deduplicate(c)),
            ("Environment(store).add(list) / relationships / related_to", [], lambda: env_ops(w, c)),
            ("CompositeDataSource.add_data_sources(list of sources)", [], lambda: composite(w, c, filt)),
        ]
    if cell["shape"] == "kw":
        cls = cell["cls"]
        ops += [
            ("cls(**kwargs with objects)", [], lambda: cls(**c)),
            ("cls(**kwargs with objects) twice", [], lambda: (cls(**c), cls(**c))[1]),
            ("ObjectFactory.create(cls, **kwargs with objects)", [], lambda: factory(w).create(cls, **c)),
            ("Environment.create(cls, **kwargs with objects)", [], lambda: stix2.Environment(factory=factory(w)).create(cls, **c)),
        ]
    return ops


FACTORY_ARGS = {}


def factory(w):
    m = MOD[w.v]
    ers = [{"source_name": "d", "description": "default"}]
    marks = [marking_ids(w.v)[0]]
    f = stix2.ObjectFactory(created_by_ref="identity--11111111-1111-4111-8111-111111111111", external_references=ers, object_marking_refs=marks)
    FACTORY_ARGS["last"] = (ers, marks)
    return f


def save_load(w, c):
    st = stix2.MemoryStore(stix_data=c, allow_custom=True, version=w.v)
    path = os.path.join(w.scratch, "ms-%d.json" % w.rng.randint(0, 10 ** 9))
    try:
        st.save_to_file(path)
        st2 = stix2.MemoryStore(allow_custom=True)
        st2.load_from_file(path, version=w.v)
        return st2.query()
    finally:
        if os.path.exists(path):
            os.remove(path)


def env_ops(w, c):
    env = stix2.Environment(store=stix2.MemoryStore(allow_custom=True))
    env.add(c, version=w.v)
    out = []
    for x in c:
        if "id" in x:
            out.append(env.relationships(x))
            out.append(env.related_to(x))
            out.append(env.creator_of(x) if isinstance(x, _STIXBase) else None)
            out.append(env.get(x["id"]))
            out.append(env.all_versions(x["id"]))
    return out


def composite(w, c, filt):
    srcs = [stix2.MemorySource(stix_data=c, allow_custom=True, version=w.v), w.mem.source]
    cds = stix2.CompositeDataSource()
    cds.add_data_sources(srcs)
    return cds.query(filt), len(srcs)


def object_ops(w, o):
    """[(name, extra args, thunk, yields_object)] -- calls on a previously created object (library object or dictionary returned by the library)"""
    v, rng = w.v, w.rng
    m = MOD[v]
    ops = []
    is_obj = isinstance(o, _STIXBase)
    typ = o.get("type") if isinstance(o, (dict, _STIXBase)) else None
    versionable = typ is not None and "modified" in o and "created" in o and typ not in ("bundle", "marking-definition")
    markable = typ is not None and typ not in ("bundle",) and "id" in o and (v == "2.1" or not is_obj or isinstance(o, (stix2.base._DomainObject, stix2.base._RelationshipObject)))
    mids = marking_ids(v)
    mk = rng.choice(mids)
    mobj = (TLP20 if v == "2.0" else TLP21)[rng.choice(sorted(TLP20))]
    if is_obj:
        ops += [
            ("obj.serialize(pretty)", [], lambda: o.serialize(pretty=True, include_optional_defaults=True), False),
            ("str(obj) / repr(obj) / dict(obj)", [], lambda: (str(o), repr(o), dict(o), list(o), len(o)), False),
            ("json.dumps(obj, STIXJSONEncoder)", [], lambda: json.dumps(o, cls=stix2.serialization.STIXJSONEncoder), False),
            ("obj.properties_populated / has_custom / fp_serialize", [], lambda: (o.properties_populated(), o.has_custom, o.fp_serialize(io.StringIO(), pretty=True)), False),
            ("obj == deepcopy, hash-free comparisons", [], lambda: (o == copy.deepcopy(o), o != o), False),
            ("parse(obj.serialize())", [], lambda: stix2.parse(o.serialize(), allow_custom=True, version=v), True),
            ("parse(dict(obj))", [], lambda: stix2.parse(dict(o), allow_custom=True, version=v), True),
            ("MemoryStore.add(obj) / get", [], lambda: (w.mem.add(o), w.mem.get(o["id"]))[1] if "id" in o else None, False),
            ("FileSystemStore.add(obj) / get", [], lambda: (w.fs().add(o), w.fs().get(o["id"]))[1] if "id" in o else None, False),
            ("Bundle(obj)", [], lambda: m.Bundle(o, allow_custom=True), True),
            ("canonicalize(json.loads(serialize))", [], lambda: stix2.canonicalization.Canonicalize.canonicalize(json.loads(o.serialize())), False),
        ]
        if typ == "bundle":
            ops.append(("bundle.get_obj / bundle[id]", [], lambda: [o.get_obj(x["id"]) for x in o.get("objects", []) if "id" in x], False))
            ops.append(("MemoryStore(bundle)", [], lambda: stix2.MemoryStore(o, allow_custom=True, version=v), False))
        if typ == "indicator" and (v == "2.0" or o.get("pattern_type") == "stix"):
            ops.append(("equivalent_patterns(obj.pattern, ...)", [], lambda: stix2.equivalence.pattern.equivalent_patterns(o["pattern"], "[file:name = 'a']"), False))
        if "id" in o and typ not in ("bundle",):
            o2 = simple_obj(w, rng)
            wd = {typ: {"name": (50, stix2.equivalence.object.partial_string_based), "method": stix2.equivalence.object._attack_pattern_checks} if False else None}
            ops.append(("Environment.object_similarity(obj, obj2)", [("obj2", o2)], lambda: stix2.Environment().object_similarity(o, o2), False))
            ops.append(("Environment.object_equivalence(obj, deepcopy)", [], lambda: stix2.Environment().object_equivalence(o, copy.deepcopy(o), threshold=70), False))
    if versionable:
        lab = {"labels": ["x1", "x2"]} if (v == "2.0" or typ in ("indicator", "malware")) and typ not in ("relationship", "sighting") or v == "2.1" else {}
        if typ in ("relationship", "sighting") and v == "2.0":
            lab = {"description": "d"}
        er = {"external_references": [{"source_name": "s", "external_id": "e", "hashes": {"MD5": "aa" * 16}}]}
        if is_obj:
            ops += [
                ("obj.new_version(list-valued change)", [("changes", lab)], lambda: o.new_version(**lab), True),
                ("obj.new_version(external_references=[dict])", [("changes", er)], lambda: o.new_version(**er), True),
                ("obj.new_version(property=None)", [], lambda: o.new_version(**{k: None for k in ("description", "external_references", "granular_markings") if k in o}), True),
                ("obj.revoke()", [], lambda: o.revoke(), True),
            ]
        ops += [
            ("versioning.new_version(x, list-valued change)", [("changes", lab)], lambda: stix2.versioning.new_version(o, **lab), True),
            ("versioning.new_version(x, allow_custom, x_new=dict)", [("changes", er)], lambda: stix2.versioning.new_version(o, allow_custom=True, x_new={"a": [1, 2]}, **er), True),
            ("versioning.revoke(x)", [], lambda: stix2.versioning.revoke(o), True),
            ("versioning.remove_custom_stix(x)", [], lambda: stix2.versioning.remove_custom_stix(o), True),
        ]
    if markable:
        gs = granular_selectors(o)
        sel_hit = [rng.choice(gs)] if gs else ["type"]
        alls = sub_selectors(o if isinstance(o, dict) else json.loads(o.serialize()), rng)
        sel_any = rng.sample(alls, min(2, len(alls))) or ["type"]
        gm_ref = None
        for e in o.get("granular_markings", []) or []:
            if "marking_ref" in e:
                gm_ref = e["marking_ref"]
        omr = (o.get("object_marking_refs") or [mk])[0]
        M = stix2.markings
        ops += [
            ("markings.get_markings(x)", [], lambda: M.get_markings(o), False),
            ("markings.get_markings(x, selectors, inherited, descendants)", [("selectors", sel_any)], lambda: M.get_markings(o, sel_any, inherited=True, descendants=True), False),
            ("markings.is_marked(x, [marking], selectors)", [("selectors", sel_hit), ("markings", [mk])], lambda: M.is_marked(o, [mk], sel_hit, inherited=True, descendants=True), False),
            ("markings.is_marked(x)", [], lambda: M.is_marked(o), False),
            ("markings.add_markings(x, marking obj)", [], lambda: M.add_markings(o, mobj, None), True),
            ("markings.add_markings(x, [markings], selectors)", [("selectors", sel_any), ("markings", mids[:2])], lambda: M.add_markings(o, mids[:2], sel_any), True),
            ("markings.add_markings(x, marking, marked selectors)", [("selectors", sel_hit)], lambda: M.add_markings(o, mk, sel_hit), True),
            ("markings.remove_markings(x, marking)", [], lambda: M.remove_markings(o, omr, None), True),
            ("markings.remove_markings(x, marking, marked selectors)", [("selectors", sel_hit)], lambda: M.remove_markings(o, gm_ref or mk, sel_hit), True),
            ("markings.set_markings(x, marking)", [], lambda: M.set_markings(o, mk, None), True),
            ("markings.set_markings(x, marking, marked selectors)", [("selectors", sel_hit)], lambda: M.set_markings(o, mk, sel_hit), True),
            ("markings.clear_markings(x)", [], lambda: M.clear_markings(o, None), True),
            ("markings.clear_markings(x, marked selectors)", [("selectors", sel_hit)], lambda: M.clear_markings(o, sel_hit), True),
            ("markings.clear_markings(x, marked selectors, marking)", [("selectors", sel_hit)], lambda: M.clear_markings(o, sel_hit, gm_ref), True),
        ]
        if is_obj and hasattr(o, "add_markings"):
            ops += [
                ("obj.add_markings(marking, selectors)", [("selectors", sel_any)], lambda: o.add_markings(mk, sel_any), True),
                ("obj.set_markings(marking, marked selectors)", [("selectors", sel_hit)], lambda: o.set_markings(mk, sel_hit), True),
                ("obj.clear_markings(marked selectors)", [("selectors", sel_hit)], lambda: o.clear_markings(sel_hit), True),
                ("obj.remove_markings(marking)", [], lambda: o.remove_markings(omr), True),
                ("obj.get_markings(selectors) / is_marked", [("selectors", sel_any)], lambda: (o.get_markings(sel_any), o.is_marked(mk)), False),
            ]
    if not ops:
        ops.append(("snapshot only (nothing applicable)", [], lambda: None, False))
    return ops


def gather_ops(w, o, cell):
    """calls taking a previously created object together with a caller container"""
    v, rng, c = w.v, w.rng, cell["val"]
    m = MOD[v]
    ops = []
    if cell["shape"] == "list":
        ops += [
            ("Bundle(list, obj)", [], lambda: m.Bundle(c, o, allow_custom=True)),
            ("Bundle(obj, list)", [], lambda: m.Bundle(o, c, allow_custom=True)),
            ("Bundle(list, obj, objects=[obj])", [], lambda: m.Bundle(c, o, objects=[o], allow_custom=True)),
            ("Bundle(objects=list + [obj]) and store of the same", [], lambda: (m.Bundle(objects=c + [o], allow_custom=True), stix2.MemoryStore(c + [o], allow_custom=True, version=v))[0]),
            ("MemoryStore.add([obj] + list)", [], lambda: w.mem.add([o] + c, version=v)),
            ("Relationship(obj, 'related-to', list[0])", [], lambda: m.Relationship(o, "related-to", c[0])),
        ]
    elif cell["shape"] in ("doc", "sco"):
        ops += [
            ("Bundle(obj, dict)", [], lambda: m.Bundle(o, c, allow_custom=True)),
            ("Bundle([dict, obj])", [], lambda: m.Bundle([c, o], allow_custom=True)),
            ("MemoryStore([obj, dict])", [], lambda: stix2.MemoryStore([o, c], allow_custom=True, version=v)),
            ("Relationship(obj, 'related-to', dict id)", [], lambda: m.Relationship(o, "related-to", c.get("id", "identity--11111111-1111-4111-8111-111111111111"))),
        ]
        if v == "2.1":
            ops.append(("Note(object_refs=[obj, dict id])", [], lambda: m.Note(content="n", object_refs=[o, c.get("id", "identity--11111111-1111-4111-8111-111111111111")])))
    else:
        cls = cell["cls"]
        kw = c
        ops += [
            ("cls(created_by_ref=obj, **kwargs)", [], lambda: cls(**dict(kw, created_by_ref=o if o.get("type") == "identity" else kw["created_by_ref"]))),
            ("Bundle(cls(**kwargs), obj)", [], lambda: m.Bundle(cls(**kw), o, allow_custom=True)),
        ]
    return ops


def nested_objects(o, out=None):
    if out is None:
        out = []
    if isinstance(o, _STIXBase):
        out.append(o)
        for x in o._inner.values():
            nested_objects(x, out)
    elif isinstance(o, dict):
        for x in o.values():
            nested_objects(x, out)
    elif isinstance(o, list):
        for x in o:
            nested_objects(x, out)
    return out


def attempts(o, rng):
    """direct assignments / deletions on a library object (and on the library objects nested in it)"""
    out = []
    for t in nested_objects(o)[:6]:
        names = sorted(t._inner)
        pick = rng.sample(names, min(2, len(names))) + ["x_new_property"]
        for n in pick:
            def set_(t=t, n=n):
                setattr(t, n, "changed")

            def del_(t=t, n=n):
                delattr(t, n)

            def setitem(t=t, n=n):
                t[n] = "changed"

            def delitem(t=t, n=n):
                del t[n]
            out += [("setattr", type(t).__name__, n, set_), ("delattr", type(t).__name__, n, del_), ("item assignment", type(t).__name__, n, setitem), ("item deletion", type(t).__name__, n, delitem)]
    return out


# ------------------------------------------------------------------------------------------------ replaying one behaviour
def run_behaviour(chk, rec, beh, seed, v, scratch, force=None):
    """beh: list of abstract steps from TLC ({op, c, o, new}); every step is realised by a public call chosen with the seeded generator"""
    rng = random.Random(seed)
    w = World(v, rng, rec, scratch)
    rec.reset_live()
    first = len(rec.lines)
    try:
        w.new_cell(1)
        for i, st in enumerate(beh):
            op = st["op"]
            ctx = {"v": v, "seed": seed, "step": i, "abs": op}
            if op == "caller_makes":
                w.new_cell(st["new"])
            elif op == "caller_mutates":
                cell = w.cells[st["c"]]
                pre = [snap(o) for _, o in rec.live]
                caller_change(cell, rng)
                post = [snap(o) for _, o in rec.live]
                chk.notes["caller_changes"] = chk.notes.get("caller_changes", 0) + 1
                if pre != post:          # an observation, not a violation: the property speaks of what library calls do
                    chk.notes["caller_change_visible_in_library_object"] = chk.notes.get("caller_change_visible_in_library_object", 0) + 1
            elif op == "construct":
                cell = w.cells[st["c"]]
                name, extra, thunk = rng.choice(construct_ops(w, cell))
                ctx["shape"] = cell["shape"]
                res, exc = rec.call("construct", name, [("container", cell["val"])] + extra, thunk, ctx)
                w.objs[st["new"]] = keep(w, rec, res, "obj%d" % st["new"])
            elif op == "new_version":
                o = w.objs[st["o"]]
                name, extra, thunk, yields = rng.choice(object_ops(w, o))
                ctx["shape"] = shape_of(o)
                res, exc = rec.call("new_version", name, [("object", o)] + extra, thunk, ctx)
                w.objs[st["new"]] = keep(w, rec, res if yields else None, "obj%d" % st["new"], fallback=o)
            elif op == "deepcopy":
                o = w.objs[st["o"]]
                ctx["shape"] = shape_of(o)
                res, exc = deepcopy_call(rec, o, ctx)
                w.objs[st["new"]] = keep(w, rec, res, "obj%d" % st["new"], fallback=o)
            elif op == "gather":
                o, cell = w.objs[st["o"]], w.cells[st["c"]]
                name, extra, thunk = rng.choice(gather_ops(w, o, cell))
                ctx["shape"] = cell["shape"] + "+" + shape_of(o)
                res, exc = rec.call("gather", name, [("object", o), ("container", cell["val"])] + extra, thunk, ctx)
                w.objs[st["new"]] = keep(w, rec, res, "obj%d" % st["new"], fallback=o)
            elif op == "assign_refused":
                o = w.objs[st["o"]]
                ctx["shape"] = shape_of(o)
                if isinstance(o, _STIXBase):
                    for how, tn, n, thunk in attempts(o, rng):
                        rec.call("mutate_attempt", "%s on %s" % (how, "existing" if n != "x_new_property" else "new") + " property", [("object", o)], thunk, dict(ctx, target=tn, prop=n),
                                 extra=lambda res, exc: {"refused": exc != "none"})
    finally:
        w.close()
    return first


def shape_of(o):
    if isinstance(o, _STIXBase):
        return "obj:" + str(o.get("type", type(o).__name__))
    if isinstance(o, dict):
        return "dict:" + str(o.get("type"))
    return type(o).__name__


def keep(w, rec, res, label, fallback=None):
    """what the abstract 'new object' stands for from now on"""
    if isinstance(res, tuple):
        res = next((x for x in res if isinstance(x, (_STIXBase, dict))), None)
    if isinstance(res, list):
        res = next((x for x in res if isinstance(x, (_STIXBase, dict))), None)
    if not isinstance(res, (_STIXBase, dict)):
        res = fallback if fallback is not None else simple_obj(w, w.rng)
    rec.add_live(label, res)
    return res


def caller_change(cell, rng):
    val = cell["val"]
    if isinstance(val, list):
        if val and rng.random() < 0.5:
            val.pop()
        else:
            val.append({"type": "identity", "id": "identity--%08d-1111-4111-8111-111111111111" % rng.randint(0, 99999999), "name": "late", "identity_class": "individual",
                        "created": "2020-01-01T00:00:00.000Z", "modified": "2020-01-01T00:00:00.000Z"})
        return
    # change a nested container in place: the deepest list / dictionary found first
    for k in sorted(val):
        x = val[k]
        if isinstance(x, list) and x and k not in ("granular_markings",):
            if isinstance(x[0], dict):
                x[0]["description"] = "changed by caller"
            elif isinstance(x[0], str) and k in ("labels", "aliases"):
                x.append("late")
            return
    val["x_late"] = 1
    cell.setdefault("custom", True)
    val.pop("x_late")


def deepcopy_call(rec, o, ctx):
    def extra(res, exc):
        if exc != "none":
            return {"copy_equal": False, "copy_disjoint": True, "why": "deepcopy raised " + exc}
        eq = public(snap(res)) == public(snap(o))
        if isinstance(o, _STIXBase):
            try:
                eq = eq and res == o and res.serialize() == o.serialize()
            except Exception:  # noqa
                eq = False
        a, b = mutable_ids(o), mutable_ids(res)
        shared = [type(a[i]).__name__ for i in a if i in b]
        return {"copy_equal": bool(eq), "copy_disjoint": not shared, "shared": shared[:5]}
    return rec.call("deepcopy", "copy.deepcopy(x)", [("object", o)], lambda: copy.deepcopy(o), ctx, extra=extra)


# ------------------------------------------------------------------------------------------------ reporting
CLAUSES = {"C13:argument_modified", "C13:existing_object_modified", "C13:assignment_or_deletion_not_refused", "C13:deep_copy_not_equal", "C13:deep_copy_shares_mutable_state"}


def report(chk, line, clause, stage, how):
    culprit = ""
    if clause == "C13:argument_modified":
        d = [x for x in line.get("diffs", []) if x[0] == "arg"]
        culprit = "%s %s" % (d[0][1], diff_class(d[0][2])) if d else ""
    elif clause == "C13:existing_object_modified":
        d = [x for x in line.get("diffs", []) if x[0] == "live"]
        culprit = "%s %s" % ("global " + d[0][1] if d and not d[0][1].startswith("obj") else "object", diff_class(d[0][2])) if d else ""
    elif clause == "C13:assignment_or_deletion_not_refused":
        culprit = "%s" % line["ctx"].get("target")
    elif clause.startswith("C13:deep_copy"):
        culprit = line["ctx"].get("shape", "")
    chk.violation({"entry": line["op"], "clause": clause, "culprit": culprit}, {"line": line, "how": how}, stage)


def validate(chk, rec, stage, hows):
    lines = rec.lines
    slim = [{k: ln[k] for k in ("kind", "op", "args", "live", "refused", "copy_equal", "copy_disjoint")} for ln in lines]
    rej = common.validate_trace_parallel(chk, "Trace_Frame", "Trace_Frame", slim, stage, jobs=8, chunk=1500)
    for r in rej:
        ln = lines[r[0] - 1]
        report(chk, ln, r[2], stage, hows(r[0] - 1))
    return rej


def self_test(chk, rec):
    """binding: corrupt accepted lines, the trace spec must reject exactly those with the right clause"""
    good = [ln for ln in rec.lines if all(a["unchanged"] for a in ln["args"]) and all(a["unchanged"] for a in ln["live"]) and ln["args"] and ln["live"]]
    base = [ln for ln in good if ln["kind"] == "construct"][:1] + [ln for ln in good if ln["kind"] == "new_version"][:1] + \
           [ln for ln in good if ln["kind"] == "deepcopy" and ln["copy_equal"] and ln["copy_disjoint"]][:1] + [ln for ln in good if ln["kind"] == "mutate_attempt" and ln["refused"]][:1]
    if len(base) < 4:
        chk.machinery("self-test: not enough accepted lines of every kind (%d)" % len(base))
        return
    keys = ("kind", "op", "args", "live", "refused", "copy_equal", "copy_disjoint")
    lines, expect = [], {}
    for ln in base:
        lines.append({k: ln[k] for k in keys})
    def add(ln, clause, **ch):
        x = copy.deepcopy({k: ln[k] for k in keys})
        for k, val in ch.items():
            if k == "arg":
                x["args"][-1]["unchanged"] = False
            elif k == "live":
                x["live"][-1]["unchanged"] = False
            else:
                x[k] = val
        lines.append(x)
        expect[len(lines)] = clause
    add(base[0], "C13:argument_modified", arg=1)
    add(base[1], "C13:existing_object_modified", live=1)
    add(base[1], "C13:argument_modified", arg=1)
    add(base[2], "C13:deep_copy_not_equal", copy_equal=False)
    add(base[2], "C13:deep_copy_shares_mutable_state", copy_disjoint=False)
    add(base[3], "C13:assignment_or_deletion_not_refused", refused=False)
    rej = common.validate_trace(chk, "Trace_Frame", "Trace_Frame", lines, "S4_selftest", count=False)
    got = {r[0]: r[2] for r in rej}
    chk.stages["S4_binding_selftest"] = {"corrupted_lines": len(expect), "rejected_with_expected_clause": sum(1 for k in expect if got.get(k) == expect[k]), "unexpected_rejections": len(set(got) - set(expect))}
    if got != expect:
        chk.machinery("self-test: trace spec rejected %r, expected %r" % (got, expect))


# ------------------------------------------------------------------------------------------------ the check
def systematic(chk, rec, quick, scratch):
    """every call of the catalogue on several argument shapes, applied twice to the same input (an in-place edit shows when the input is reused)"""
    rng = chk.rng
    reps = 3 if quick else 40
    plan = []
    for v in VERSIONS:
        for shape in ("doc", "sco", "list", "kw", "custom"):
            for r in range(reps):
                plan.append((v, shape, rng.randint(0, 2 ** 30)))
    index = {}
    for v, shape, seed in plan:
        r = random.Random(seed)
        w = World(v, r, rec, scratch)
        rec.reset_live()
        try:
            cell = w.new_cell(1, shape)
            # prior history: an object made from the container, one unrelated object
            try:
                w.objs[2] = keep(w, rec, construct_ops(w, cell)[0][2]() if shape in ("doc", "sco") else None, "obj2")
            except Exception:  # noqa
                w.objs[2] = keep(w, rec, None, "obj2")
            n_ops = len(construct_ops(w, cell))
            for k in range(n_ops):
                name, extra, thunk = construct_ops(w, cell)[k]
                ctx = {"v": v, "seed": seed, "sys": [shape, k], "shape": shape}
                res, exc = rec.call("construct", name, [("container", cell["val"])] + extra, thunk, ctx)
                index[len(rec.lines) - 1] = ("systematic", v, shape, seed, k)
                res2, exc2 = rec.call("construct", name, [("container", cell["val"])] + extra, thunk, dict(ctx, second=True))
                made = keep(w, rec, res, "made", fallback=w.objs[2])
                if k % 3 == 0 or not quick:
                    for j in range(len(object_ops(w, made))):
                        oname, oextra, othunk, _ = object_ops(w, made)[j]
                        rec.call("new_version", oname, [("object", made), ("container", cell["val"])] + oextra, othunk, dict(ctx, on="result of " + name, j=j, shape=shape_of(made)))
                    deepcopy_call(rec, made, dict(ctx, shape=shape_of(made)))
                    if isinstance(made, _STIXBase):
                        for how, tn, n, th in attempts(made, r)[:8 if quick else 48]:
                            rec.call("mutate_attempt", "%s on %s property" % (how, "existing" if n != "x_new_property" else "new"), [("object", made)], th, dict(ctx, target=tn, prop=n),
                                     extra=lambda res, exc: {"refused": exc != "none"})
                    for j in range(len(gather_ops(w, made, cell))):
                        gname, gextra, gthunk = gather_ops(w, made, cell)[j]
                        rec.call("gather", gname, [("object", made), ("container", cell["val"])] + gextra, gthunk, dict(ctx, j=j, shape=shape + "+" + shape_of(made)))
                rec.reset_live()
                rec.add_live("obj2", w.objs[2])
        finally:
            w.close()
    return index


def factory_frame(chk):
    """ObjectFactory / Environment defaults given as the caller's lists: create() with that property as a single value, a list, None or not at all, list_append on and off,
    three calls in a row -- the caller's list is what it was, and every created object carries the defaults (plus, under list_append, exactly its own argument)"""
    n = 0
    for v in VERSIONS:
        m = MOD[v]
        mids = marking_ids(v)
        for prop, default_items, singles in (
                ("external_references", [{"source_name": "d", "description": "default"}, {"source_name": "e", "url": "http://e.example/"}],
                 [{"source_name": "s1", "description": "single"}, m.ExternalReference(source_name="s2", description="object")]),
                ("object_marking_refs", [mids[0], mids[1]], [mids[2], m.TLP_GREEN])):
            for ndef in (1, 2):
                for list_append in (True, False):
                    for use_env in (False, True):
                        mine = copy.deepcopy(default_items[:ndef])
                        snap = copy.deepcopy(mine)
                        try:
                            f = stix2.ObjectFactory(created_by_ref="identity--11111111-1111-4111-8111-111111111111", list_append=list_append, **{prop: mine})
                        except Exception:  # noqa
                            continue
                        maker = stix2.Environment(factory=f) if use_env else f
                        calls = [("single", singles[0]), ("omitted", None), ("single_object", singles[1]), ("list", [singles[0]]), ("omitted", None)]
                        for ci, (form, arg) in enumerate(calls):
                            n += 1
                            chk.case(["factory_defaults", v, prop, ndef, list_append, use_env, form])
                            kw = {} if form == "omitted" else {prop: copy.deepcopy(arg) if not isinstance(arg, stix2.base._STIXBase) else arg}
                            try:
                                o = maker.create(m.Campaign, name="c", **kw)
                            except Exception as e:  # noqa
                                o = None
                                exc = type(e).__name__
                            sig = {"entry": "%s.create" % ("Environment" if use_env else "ObjectFactory"), "case": "%s default_len=%d list_append=%s argument=%s call=%d" % (prop, ndef, list_append, form, ci)}
                            det = {"v": v, "prop": prop, "defaults": snap, "list_append": list_append, "argument_form": form, "call_index": ci}
                            if O.plain(mine) != O.plain(snap):
                                chk.violation(dict(sig, clause="C13:caller_list_given_as_factory_default_changed"), dict(det, now=O.plain(mine)), "S2f")
                                mine[:] = copy.deepcopy(snap)
                            if o is None:
                                continue
                            got = O.plain(o.get(prop, []))
                            argl = [] if form == "omitted" else O.plain(arg if isinstance(arg, list) else [arg])
                            if prop == "object_marking_refs":
                                argl = [x["id"] if isinstance(x, dict) else x for x in argl]
                            want = O.plain(snap) + argl if (list_append or form == "omitted") else argl
                            if got != want:
                                chk.violation(dict(sig, clause="C13:created_object_not_defaults_plus_own_argument"), dict(det, got=got, want=want), "S2f")
    chk.stages["S2f_factory_defaults"] = {"create_calls": n}


def run(chk):
    quick = chk.tier == "quick"
    rng = chk.rng
    logging.disable(logging.CRITICAL)
    chk.rule = ("a case is one public call with deep snapshots of all its arguments and of every previously created object (plus the shared TLP constants and similarity weights) "
                "before and after; distinct_nontrivial counts distinct (abstract operation, public call, spec version, argument shape, refused?)")
    chk.assumptions = ["value identity of a snapshot: container kinds, list order, dictionary content (key order ignored), leaf types and values, library objects by class and inner dictionary",
                       "stores, sinks and factories are receivers that change by design; they are not counted as arguments",
                       "a change the caller makes to its own container between calls is the caller's business (counted, never reported)"]
    res = chk.add_tlc("S1_frame", tlc.run("Frame", "MC_Frame", workers=16, scratch=chk.scratch, coverage=True))
    if not res.completed:
        chk.spec_violation("S1_frame", res)
    neg = tlc.run("Neg_Frame", "Neg_Frame", workers=4, scratch=chk.scratch)
    chk.stages["S1_negative_config"] = {"property_violated_as_required": bool(neg.property_violated)}
    if not neg.property_violated:
        chk.machinery("Neg_Frame did not produce a counterexample")

    factory_frame(chk)
    # ---- S2: TLC behaviours replayed through the public interface
    sim = tlc.run("MC_FrameGen", "Sim_Frame", workers=1, simulate="num=%d" % (60 if quick else 3000), depth=10, seed=chk.seed, scratch=chk.scratch)
    behs = []
    seen = set()
    for t in sim.marked("BEH"):
        if t[1] not in seen:
            seen.add(t[1])
            behs.append(json.loads(t[1]))
    rng.shuffle(behs)
    behs = behs[:50 if quick else 2500]
    rec = Recorder(chk)
    where = {}
    for bi, beh in enumerate(behs):
        for v in VERSIONS:
            seed = rng.randint(0, 2 ** 30)
            first = run_behaviour(chk, rec, beh, seed, v, chk.scratch)
            for k in range(first, len(rec.lines)):
                where[k] = {"behaviour": beh, "seed": seed, "v": v}
    chk.stages["S2_generation"] = {"behaviours": len(behs), "abstract_steps": sum(len(b) for b in behs), "public_calls_recorded": len(rec.lines)}
    validate(chk, rec, "S2_behaviours", lambda k: where.get(k))
    self_test(chk, rec)

    # ---- S3: the whole catalogue, every call twice on the same input, then every object call on the result
    rec3 = Recorder(chk)
    rec3.okcount = rec.okcount
    systematic(chk, rec3, quick, chk.scratch)
    validate(chk, rec3, "S3_catalogue", lambda k: {"systematic": rec3.lines[k]["ctx"]})
    # ---- S3b: the repository's own tests as drivers (recorded from outside by harness/record_plugin.py)
    rlines, summ = common.repo_test_traces(chk, ["frame"])
    fl = rlines["frame"]
    slim = [{k: ln[k] for k in ("kind", "op", "args", "live", "refused", "copy_equal", "copy_disjoint")} for ln in fl]
    rej = common.validate_trace_parallel(chk, "Trace_Frame", "Trace_Frame", slim, "S3b_repo_tests", jobs=8, chunk=3000)
    for r in rej:
        ln = fl[r[0] - 1]
        d = ln.get("diffs") or [["", ""]]
        chk.violation({"entry": ln["op"], "clause": r[2], "culprit": "%s %s" % (d[0][0], diff_class(d[0][1])) if r[2] == "C13:argument_modified" else ln.get("type", "")},
                      {"line": ln, "how": {"recorded_from_repository_test": ln.get("test")}}, "S3b_repo_tests")
    for ln in fl:
        chk.case(["repo-test", ln["kind"], ln["op"], ln["exc"] != "none"])
    chk.stages["S3b_repo_tests"] = dict(chk.stages.get("S3b_repo_tests", {}), tests_passed_under_recording=summ["tests_passed_under_recording"], recorder_errors=summ["recorder_errors"],
                                        calls_seen={k.split(":", 1)[1]: v for k, v in summ["counts"].items() if k.startswith("frame:")}, cap_per_operation=summ["cap_per_operation"])
    never = sorted(n for n, (tot, ok) in rec.okcount.items() if ok == 0 and not n.startswith(("setattr", "delattr", "item ")))
    chk.stages["S3_catalogue"] = dict(chk.stages.get("S3_catalogue", {}), public_calls=len(rec.okcount), calls_recorded=len(rec3.lines),
                                      calls_that_never_succeeded=never)
    chk.sample({"calls": sorted(rec.okcount)[:60]})


def replay(path):
    d = json.load(open(path))["detail"]
    how = d.get("how") or {}
    line = d["line"]

    class Dummy(object):
        notes = {}

        def case(self, *a):
            pass
    rec = Recorder(Dummy())
    scratch = tlc.make_scratch("replay")
    try:
        if "recorded_from_repository_test" in how:
            Dummy.scratch = scratch
            lines, summ = common.repo_test_traces(Dummy, ["frame"], select=[how["recorded_from_repository_test"]])
            bad = [ln for ln in lines["frame"] if ln.get("diffs") or not ln["copy_equal"] or not ln["copy_disjoint"] or (ln["kind"] == "mutate_attempt" and not ln["refused"])]
            print(json.dumps({"recorded": line, "now": bad[:5], "calls": len(lines["frame"])}, indent=1, default=str))
            return 0
        if "behaviour" in how:
            run_behaviour(Dummy(), rec, how["behaviour"], how["seed"], how["v"], scratch)
        else:
            ctx = line["ctx"]
            r = random.Random(ctx["seed"])
            w = World(ctx["v"], r, rec, scratch)
            cell = w.new_cell(1, ctx["sys"][0])
            name, extra, thunk = construct_ops(w, cell)[ctx["sys"][1]]
            rec.call("construct", name, [("container", cell["val"])] + extra, thunk, ctx)
            w.close()
        bad = [ln for ln in rec.lines if ln.get("diffs") or (ln["kind"] == "mutate_attempt" and not ln["refused"]) or not ln["copy_equal"] or not ln["copy_disjoint"]]
        print(json.dumps({"recorded": line, "now": bad[:5], "calls": len(rec.lines)}, indent=1, default=str))
    finally:
        shutil.rmtree(scratch, ignore_errors=True)
    return 0
