"""C09 -- pattern equivalence is a total, sound equivalence relation.  Specs: spec/PatternSem.tla, MC_PatternLaws.tla.  c10.py shares the generators."""
import copy
import json
import os

from .. import common, tlc
from .. import impl_patterns as IP

PREFIX = "C09:"
COMPOUND = {"and": "c", "or": "c", "oand": "o", "oor": "o", "fb": "o"}


def nodes(a, path=()):
    """all (path, node) pairs; a path is a tuple of keys/indices"""
    out = [(path, a)]
    k = a["k"]
    if k in ("paren", "obs", "qual"):
        out += nodes(a["e"], path + ("e",))
    elif k in COMPOUND:
        for i, x in enumerate(a["args"]):
            out += nodes(x, path + ("args", i))
    return out


def get(a, path):
    for p in path:
        a = a[p]
    return a


def put(a, path, new):
    a = copy.deepcopy(a)
    if not path:
        return new
    node = a
    for p in path[:-1]:
        node = node[p]
    node[path[-1]] = new
    return a


def wrap(x):
    return {"k": "paren", "e": x} if x["k"] in COMPOUND or x["k"] == "qual" else x


def strip(x):
    while x["k"] == "paren":
        x = x["e"]
    return x


def rewrite(rng, a):
    """a documented (sound) rewrite applied somewhere in a; returns (name, new ast) or None"""
    cands = nodes(a)
    rng.shuffle(cands)
    for path, n in cands:
        k = n["k"]
        choice = rng.random()
        if k in ("and", "or", "oand", "oor") and choice < 0.3:
            args = list(n["args"])
            rng.shuffle(args)
            return "commute", put(a, path, {"k": k, "args": args})
        if k in COMPOUND and len(n["args"]) >= 3 and choice < 0.5:
            i = rng.randrange(len(n["args"]) - 1)
            grouped = {"k": "paren", "e": {"k": k, "args": n["args"][i:i + 2]}}
            return "associate", put(a, path, {"k": k, "args": n["args"][:i] + [grouped] + n["args"][i + 2:]})
        if k in ("or", "oor") and choice < 0.65:
            i = rng.randrange(len(n["args"]))
            return "or_idempotent", put(a, path, {"k": k, "args": n["args"] + [copy.deepcopy(n["args"][i])]})
        if k == "cmp" and n["op"] == "IN" and len(n["const"]["items"]) > 1 and choice < 0.8:
            items = list(n["const"]["items"])
            rng.shuffle(items)
            return "set_literal_order", put(a, path, dict(n, const={"t": "list", "items": items}))
        if k == "cmp" and n["const"]["t"] == "int" and n["op"] in ("=", "!=", "<", ">", "<=", ">=") and choice < 0.5:
            return "numeric_equal_constant", put(a, path, dict(n, const={"t": "float", "s": "%d.0" % n["const"]["v"]}))
        if k == "cmp" and choice < 0.75:       # X  ->  X OR (X AND Y)   inside the same observation
            y = IP.rand_cmp(rng, True)
            y["type"] = n["type"]
            new = {"k": "or", "args": [copy.deepcopy(n), {"k": "paren", "e": {"k": "and", "args": [copy.deepcopy(n), y]}}]}
            parent = get(a, path[:-2] if isinstance(path[-1], int) else path[:-1]) if path else None
            return "absorption_comparison", put(a, path, new if parent is None or parent["k"] in ("obs", "paren") or (parent["k"] == "or") else {"k": "paren", "e": new})
        if k == "obs" and choice < 0.6:         # A -> A OR (A AND B) | A OR (A FOLLOWEDBY B) | A OR (B FOLLOWEDBY A)
            b = {"k": "obs", "e": IP.rand_cmp(rng, True)}
            kind = rng.choice(["oand", "fb", "fb_rev"])
            inner = {"k": "fb" if kind != "oand" else "oand", "args": [b, copy.deepcopy(n)] if kind == "fb_rev" else [copy.deepcopy(n), b]}
            new = {"k": "paren", "e": {"k": "oor", "args": [copy.deepcopy(n), {"k": "paren", "e": inner}]}}
            return "absorption_observation_" + kind, put(a, path, new)
        if k in ("and", "oand", "fb") and choice < 0.9:   # distribute over an OR operand
            for i, x in enumerate(n["args"]):
                sx = strip(x)
                want = "or" if k == "and" else "oor"
                if sx["k"] == want:
                    rest_l, rest_r = n["args"][:i], n["args"][i + 1:]
                    terms = [{"k": "paren", "e": {"k": k, "args": copy.deepcopy(rest_l) + [wrap(copy.deepcopy(t))] + copy.deepcopy(rest_r)}} for t in sx["args"]]
                    return "distribute_%s_over_or" % k, put(a, path, {"k": "paren", "e": {"k": want, "args": terms}})
    return None


def near(rng, a):
    """an edit that generally changes the meaning"""
    cands = nodes(a)
    rng.shuffle(cands)
    for path, n in cands:
        k = n["k"]
        c = rng.random()
        if k == "cmp" and c < 0.3:
            return "flip_negation", put(a, path, dict(n, neg=not n["neg"]))
        if k == "cmp" and n["const"]["t"] == "int" and c < 0.5:
            return "change_constant", put(a, path, dict(n, const=IP.I(n["const"]["v"] + rng.choice([-1, 1]))))
        if k == "cmp" and n["op"] in ("<", "<=", ">", ">=") and c < 0.7:
            return "change_operator", put(a, path, dict(n, op={"<": "<=", "<=": "<", ">": ">=", ">=": ">"}[n["op"]]))
        if k in COMPOUND and len(n["args"]) >= 2 and c < 0.35:
            i = rng.randrange(len(n["args"]))
            args = n["args"][:i] + n["args"][i + 1:]
            return "drop_operand", put(a, path, args[0] if len(args) == 1 else {"k": k, "args": args})
        if k in ("oand", "fb") and c < 0.6:
            i = rng.randrange(len(n["args"]))
            return "repeat_operand_of_" + k, put(a, path, {"k": k, "args": n["args"] + [copy.deepcopy(n["args"][i])]})
        if k == "fb" and c < 0.8:
            return "reverse_followedby", put(a, path, {"k": k, "args": list(reversed(n["args"]))})
        if k in COMPOUND and c < 0.9:
            other = {"and": "or", "or": "and", "oand": "oor", "oor": "oand", "fb": "oand"}[k]
            return "swap_operator", put(a, path, {"k": other, "args": [wrap(x) if x["k"] in COMPOUND else x for x in n["args"]]})
        if k == "qual" and c < 0.9:
            q = dict(n["q"])
            if q["k"] == "repeats":
                q["n"] = q["n"] % 3 + 1
            elif q["k"] == "within":
                q["s"] = (q["s"] + 1) % 3
            else:
                q["t2"] = IP.ts(q["t2"]["us"][1] % 2 + 1)
            return "change_qualifier", put(a, path, dict(n, q=q))
    return None


def valid(text, version="2.1"):
    """valid = accepted by the stix2-patterns grammar of that version (trusted base)"""
    from stix2patterns.validator import run_validator
    try:
        return not run_validator(text, stix_version=version)
    except Exception:  # noqa
        # the validator's inspector itself fails on some grammatical input (a negative list index): then the grammar alone decides
        try:
            if version == "2.0":
                from stix2patterns.v20.pattern import Pattern
            else:
                from stix2patterns.v21.pattern import Pattern
            Pattern(text)
            return True
        except Exception:  # noqa
            return False


def equiv(p, q, version="2.1"):
    from stix2.equivalence.pattern import equivalent_patterns
    try:
        return bool(equivalent_patterns(p, q, stix_version=version)), "none"
    except Exception as e:  # noqa
        return False, type(e).__name__


def normal_form(text):
    """the library's own normal form of a pattern (observed at the point equivalent_patterns compares)"""
    from stix2 import pattern_visitor
    from stix2.equivalence import pattern as EP
    ast = pattern_visitor.create_pattern_object(text, version="2.1")
    norm, _ = EP._get_pattern_normalizer().transform(ast)
    return IP.project(norm)


def pair_line(p, q, expect, how, invocab=None):
    tp, tq = IP.render(p), IP.render(q)
    v, exc = equiv(tp, tq)
    iv = IP.in_vocab(p) and IP.in_vocab(q) if invocab is None else invocab
    return {"kind": "pair", "p": IP.to_spec(p) if iv else {"k": "x"}, "q": IP.to_spec(q) if iv else {"k": "x"}, "verdict": v, "exc": exc, "invocab": iv, "expect": expect,
            "how": how, "tp": tp, "tq": tq}


def atoms(a):
    if a["k"] == "obs":
        return {IP.render(a)}
    if a["k"] in ("paren", "qual"):
        return atoms(a["e"])
    out = set()
    for x in a.get("args", []):
        out |= atoms(x)
    return out


def irredundant(a):
    """no OR (at observation level) has two operands sharing an observation expression"""
    if a["k"] in ("paren", "qual"):
        return irredundant(a["e"])
    if a["k"] == "obs":
        return True
    args = a.get("args", [])
    if a["k"] == "oor":
        sets = [atoms(x) for x in args]
        if any(sets[i] & sets[j] for i in range(len(sets)) for j in range(i + 1, len(sets))):
            return False
    return all(irredundant(x) for x in args)


def dnf_terms(a):
    """the alternatives of the disjunctive normal form at observation level (qualified expressions are atoms): repeated distribution of AND / FOLLOWEDBY over OR"""
    k = a["k"]
    if k == "paren":
        return dnf_terms(a["e"])
    if k in ("obs", "qual"):
        return [a]
    if k == "oor":
        out = []
        for x in a["args"]:
            out += dnf_terms(x)
        return out
    combos = [[]]
    for x in a["args"]:
        combos = [c + [t] for c in combos for t in dnf_terms(x)]
        if len(combos) > 16:
            raise OverflowError()
    return [{"k": k, "args": [wrap(copy.deepcopy(t)) if t["k"] in COMPOUND else copy.deepcopy(t) for t in c]} for c in combos]


def full_dnf(a):
    try:
        terms = dnf_terms(a)
    except OverflowError:
        return None
    if len(terms) < 2:
        return None
    return {"k": "oor", "args": [{"k": "paren", "e": t} if t["k"] in COMPOUND else t for t in terms]}


def depth_of_alternation(a, inside=None):
    """how many times AND/FOLLOWEDBY and OR alternate along some path (three or more: a distribution creates a node that has to be distributed again)"""
    k = a["k"]
    if k in ("paren", "qual"):
        return depth_of_alternation(a["e"], inside) if k == "paren" else 0
    if k == "obs":
        return 0
    kind = "or" if k == "oor" else "and"
    sub = max([depth_of_alternation(x, kind) for x in a["args"]] or [0])
    return sub + (1 if kind != inside else 0)


def alternating(rng, depth, kind, pool):
    """AND / FOLLOWEDBY and OR alternating `depth` times, every leaf a different observation (nothing to simplify except by distributing)"""
    if depth == 0 or not pool:
        return pool.pop() if pool else None
    n = rng.choice([2, 2, 3])
    args = []
    deep = rng.randrange(n)
    for i in range(n):
        x = alternating(rng, depth - 1, "or" if kind == "and" else "and", pool) if i == deep else (pool.pop() if pool else None)
        if x is not None:
            args.append(x if x["k"] == "obs" else {"k": "paren", "e": x})
    if len(args) < 2:
        return args[0] if args else None
    return {"k": "oor" if kind == "or" else rng.choice(["oand", "fb"]), "args": args}


def absorption_grid():
    """every OR of a two-operand AND / FOLLOWEDBY with a three-operand AND / FOLLOWEDBY over the same observations (all operand orders), against each of its two operands:
    which of them absorbs the other is a matter of the semantics (A AND B AND C implies A AND B, not A FOLLOWEDBY B; A FOLLOWEDBY B FOLLOWEDBY C implies both)"""
    import itertools
    A, B, C = ({"k": "obs", "e": IP.cmp_("b", "=", IP.I(1))}, {"k": "obs", "e": IP.cmp_("b", "=", IP.I(2))}, {"k": "obs", "e": IP.cmp_("c", "=", IP.I(1))})
    out = []
    for k2 in ("oand", "fb"):
        for small in itertools.permutations((A, B), 2):
            X = {"k": k2, "args": [copy.deepcopy(x) for x in small]}
            for k3 in ("oand", "fb"):
                for big in itertools.permutations((A, B, C), 3):
                    Y = {"k": k3, "args": [copy.deepcopy(x) for x in big]}
                    P = {"k": "oor", "args": [{"k": "paren", "e": copy.deepcopy(X)}, {"k": "paren", "e": copy.deepcopy(Y)}]}
                    out.append((P, X, "absorption_grid:%s_or_%s:against_the_smaller" % (k2, k3)))
                    out.append((P, Y, "absorption_grid:%s_or_%s:against_the_larger" % (k2, k3)))
    return out


def generate(chk, quick):
    rng = chk.rng
    lines = []
    for P, Q, how in absorption_grid():
        lines.append(pair_line(P, Q, "none", how))
    # fixed shapes first (detection must not hang on a draw): AND / FOLLOWEDBY over an OR one of whose alternatives is an AND / FOLLOWEDBY containing an OR, three and four levels
    at = [{"k": "obs", "e": IP.cmp_(prop, "=", IP.I(v))} for prop in "bc" for v in (0, 1, 2, 3)]
    par = lambda x: {"k": "paren", "e": x}  # noqa
    for k1 in ("oand", "fb"):
        for k2 in ("oand", "fb"):
            three = {"k": k1, "args": [at[0], par({"k": "oor", "args": [par({"k": k2, "args": [at[1], par({"k": "oor", "args": [at[2], at[3]]})]}), at[4]]})]}
            four = {"k": "oor", "args": [at[5], par({"k": k1, "args": [at[0], par({"k": "oor", "args": [par({"k": k2, "args": [par({"k": "oor", "args": [at[2], at[3]]}), at[1]]}), at[4]]})]})]}
            for shape in (three, four):
                p = copy.deepcopy(shape)
                fd = full_dnf(p)
                if fd is not None and valid(IP.render(p)) and valid(IP.render(fd)):
                    lines.append(pair_line(p, fd, "equiv", "full_distribution(fixed shape, alternation depth %d)" % min(depth_of_alternation(p), 4)))
    for i in range(16 if quick else 400):
        pool = [{"k": "obs", "e": IP.cmp_(prop, "=", IP.I(v))} for prop in "bc" for v in (0, 1, 2, 3)]
        rng.shuffle(pool)
        p = alternating(rng, rng.choice([2, 3, 3, 4]), rng.choice(["and", "and", "or"]), pool)
        fd = full_dnf(p) if p is not None and p["k"] != "obs" else None
        if fd is not None and valid(IP.render(p)) and valid(IP.render(fd)):
            lines.append(pair_line(p, fd, "equiv", "full_distribution(alternation depth %d)" % min(depth_of_alternation(p), 4)))
            lines.append(pair_line(fd, p, "equiv", "full_distribution(alternation depth %d)(reversed arguments)" % min(depth_of_alternation(p), 4)))
    n = 320 if quick else 12000
    batch = []
    for i in range(n):
        vocab = rng.random() < 0.75
        pool = None
        if vocab and rng.random() < 0.4:
            pool = [{"k": "obs", "e": IP.cmp_("b", "=", IP.I(v))} for v in (1, 2)] + [{"k": "obs", "e": IP.cmp_("c", "=", IP.I(1))}]
        p = IP.rand_oexpr(rng, rng.choice([1, 2, 2, 3]), vocab, pool)
        if i % 8 == 0:
            # OR of two AND / FOLLOWEDBY groups over a three-atom pool, operands drawn with repetition: absorption must respect multiplicity
            atoms = [{"k": "obs", "e": IP.cmp_("b", "=", IP.I(1))}, {"k": "obs", "e": IP.cmp_("b", "=", IP.I(2))}, {"k": "obs", "e": IP.cmp_("c", "=", IP.I(1))}]
            grp = lambda: {"k": "paren", "e": {"k": rng.choice(["oand", "oand", "fb"]), "args": [copy.deepcopy(rng.choice(atoms)) for _ in range(rng.choice([2, 3, 3]))]}}  # noqa
            p = {"k": "oor", "args": [grp(), grp()] + ([grp()] if rng.random() < 0.3 else [])}
            vocab = True
        tp = IP.render(p)
        if not valid(tp):
            chk.notes["generated_invalid_skipped"] = chk.notes.get("generated_invalid_skipped", 0) + 1
            continue
        # totality on a valid pattern (reflexive call), and the normal form
        v, exc = equiv(tp, tp)
        lines.append({"kind": "total", "exc": exc, "tp": tp, "tq": tp, "invocab": IP.in_vocab(p), "how": "self", "ast": p})
        if exc != "none":
            continue
        if IP.in_vocab(p):
            try:
                nf = normal_form(tp)
                if IP.in_vocab(nf):
                    lines.append({"kind": "norm", "p": IP.to_spec(p), "q": IP.to_spec(nf), "invocab": True, "tp": tp, "tq": IP.render(nf), "how": "normal_form"})
            except Exception as e:  # noqa
                chk.notes.setdefault("normal_form_unavailable", 0)
                chk.notes["normal_form_unavailable"] += 1
        cur = p
        for step in range(rng.choice([1, 2, 3])):
            rw = rewrite(rng, cur)
            if rw is None:
                break
            # one documented rewrite must be recognised; compositions of several are only judged for soundness.  A rewrite applied to a pattern that is itself
            # redundant (two operands of one OR share an observation, so absorption / idempotence apply as well) is such a composition.
            exp = "equiv" if step == 0 and irredundant(p) else "none"
            lines.append(pair_line(p, rw[1], exp, rw[0] if step == 0 else "composition:" + rw[0]))
            lines.append(pair_line(rw[1], p, exp, (rw[0] if step == 0 else "composition:" + rw[0]) + "(reversed arguments)"))
            cur = rw[1]
        # the whole normal form at once: distribution applied until nothing is left to distribute (only for patterns with nothing else to simplify)
        if irredundant(p):
            fd = full_dnf(p)
            if fd is not None and valid(IP.render(fd)):
                lines.append(pair_line(p, fd, "equiv", "full_distribution(alternation depth %d)" % min(depth_of_alternation(p), 4)))
        nr = near(rng, p)
        if nr is not None:
            lines.append(pair_line(p, nr[1], "none", nr[0]))
            if cur is not p:
                lines.append(pair_line(cur, nr[1], "none", nr[0] + "+rewrite"))
        # sub-expressions and the pattern itself (absorption-like conflations)
        subs = [x for _, x in nodes(p) if x["k"] in ("obs", "oand", "oor", "fb", "qual") and x is not p]
        if subs:
            lines.append(pair_line(p, strip(rng.choice(subs)), "none", "sub_expression"))
        batch.append((p, tp))
        if len(batch) == 4:
            lines.append(relation_line(rng, batch))
            batch = []
    return lines


# ------------------------------------------------------------------------------------------------ constants of every kind on every kind of path
SPECIAL_PATHS = [("ipv4-addr", [{"s": "key", "name": "value", "i": ""}]), ("ipv6-addr", [{"s": "key", "name": "value", "i": ""}]),
                 ("windows-registry-key", [{"s": "key", "name": "key", "i": ""}]),
                 ("windows-registry-key", [{"s": "idx", "name": "values", "i": "*"}, {"s": "key", "name": "name", "i": ""}])]
GENERIC_PATHS = [("file", [{"s": "key", "name": "name", "i": ""}]), ("x-y", [{"s": "key", "name": "p-q", "i": ""}, {"s": "idx", "name": "r", "i": "1"}])]
CONST_POOLS = {
    "hex": [{"t": "hex", "s": x} for x in ("01020304", "0a000001", "AB", "ab", "00ff", "7f000001")],
    "bin": [{"t": "bin", "s": x} for x in ("AA==", "aa==", "AQIDBA==", "aGVsbG8=", "SEtMTQ==", "aGtsbQ==")],
    "ts": [IP.ts(0), IP.ts(1), IP.ts(86400)],
    "bool": [{"t": "bool", "s": "true"}, {"t": "bool", "s": "false"}],
    # (integers beyond 2^53: neighbours that round to the same double are still different numbers)
    "int": [IP.I(0), IP.I(1), IP.I(16909060), IP.I(2130706433), {"t": "bigint", "s": "9007199254740992"}, {"t": "bigint", "s": "9007199254740993"},
            {"t": "bigint", "s": "9223372036854775807"}, {"t": "bigint", "s": "9223372036854775806"}],
    "float": [{"t": "float", "s": x} for x in ("1.0", "0.5", "16909060.0", "9007199254740992.0")],
    "str": [{"t": "str", "u": IP.units(x)} for x in ("a", "A", "1.2.3.4", "01020304", "HKLM\\a", "hklm\\a", "::1")],
}


def denoted(c):
    """what a constant denotes (two constants are the same value exactly when these are equal)"""
    import base64
    from fractions import Fraction
    t = c["t"]
    if t == "int":
        return ("num", Fraction(c["v"]))
    if t == "bigint":
        return ("num", Fraction(int(c["s"])))
    if t == "float":
        return ("num", Fraction(c["s"]))
    if t == "hex":
        return ("bytes", bytes.fromhex(c["s"]))
    if t == "bin":
        return ("bytes", base64.b64decode(c["s"]))
    if t == "ts":
        return ("ts", tuple(c["us"]))
    if t == "bool":
        return ("bool", c["s"])
    if t == "str":
        return ("str", tuple(c["u"]))
    raise ValueError(t)


def special_canon(typ, steps):
    """the documented meaning of a string constant on a special path: an IPv4 / IPv6 address or CIDR block denotes its network (low-order bits zeroed, /32 resp. /128 the
    same as the bare address); a registry key or value name is case-insensitive.  Returns a function text -> value key (None: not judged)."""
    import ipaddress
    import re
    if typ == "ipv4-addr":
        def f(t):
            if not re.fullmatch(r"\d{1,3}(\.\d{1,3}){3}(/\d{1,2})?", t):
                return None
            try:
                return ("net4", str(ipaddress.ip_network(t, strict=False)))
            except ValueError:
                return None
        return f
    if typ == "ipv6-addr":
        def g(t):
            try:
                return ("net6", str(ipaddress.ip_network(t, strict=False)))
            except ValueError:
                return None
        return g
    return lambda t: ("str", t.lower())


def cidr_pairs(rng, family, n):
    """pairs of blocks with one prefix length: the same network with other host bits, and two networks differing in the last bit the prefix keeps"""
    import ipaddress
    bits = 32 if family == 4 else 128
    cls = ipaddress.IPv4Address if family == 4 else ipaddress.IPv6Address
    out = []
    for _ in range(n):
        plen = rng.choice([rng.randint(1, bits - 1), rng.choice([1, 7, 9, 15, 17, 21, 22, 23, 25, 30, 31] if family == 4 else [1, 7, 63, 65, 113, 118, 119, 121, 127])])
        base = rng.getrandbits(bits)
        keep = base >> (bits - plen) << (bits - plen)
        host = rng.getrandbits(bits - plen)
        same = keep | host
        other = keep ^ (1 << (bits - plen))          # flips the last network bit
        mk = lambda v: {"t": "str", "u": IP.units("%s/%d" % (cls(v), plen))}  # noqa
        out.append((mk(keep | (host ^ 1 if host else 1) if bits - plen else keep), mk(same)))
        out.append((mk(same), mk(other | host)))
    return out


def raw_const(ident, key, c, special_type):
    """what Trace_Patterns.tla needs to decide for itself whether two constants denote the same value"""
    import ipaddress
    text = "".join(map(chr, c["u"])) if c["t"] == "str" else None
    if special_type in ("ipv4-addr", "ipv6-addr") and text is not None:
        net = ipaddress.ip_network(text, strict=False)
        nbits = 32 if net.version == 4 else 128
        addr = int(ipaddress.ip_interface(text).ip)             # the address as written (host bits included): the specification does the masking
        return {"id": ident, "kind": "cidr", "bits": [(addr >> (nbits - 1 - k)) & 1 for k in range(nbits)], "plen": net.prefixlen, "units": []}
    if special_type is not None and text is not None:
        return {"id": ident, "kind": "istr", "bits": [], "plen": 0, "units": list(c["u"])}
    return {"id": ident, "kind": "other", "bits": [], "plen": 0, "units": IP.units(repr(key))}


def abstract_pair(p, q):
    """rename paths and constants of two patterns into the vocabulary of spec/PatternSem.tla, jointly and injectively.  Sound for patterns that use only =, != and IN on one object
    type: such comparisons depend only on which constants are the same value, and every abstract observation has a real counterpart.  Returns (p', q') or None."""
    special = {(t, json.dumps(st)) for t, st in SPECIAL_PATHS}
    paths, consts, types = {}, {}, set()
    raw = []          # every constant with the number it was given and what the specification needs to re-compute that

    def conv(a):
        k = a["k"]
        if k == "cmp":
            if a["op"] not in ("=", "!=", "IN"):
                raise KeyError("op")
            types.add(a["type"])
            pk = json.dumps(a["path"])
            items = a["const"]["items"] if a["const"]["t"] == "list" else [a["const"]]
            canon = special_canon(a["type"], a["path"]) if (a["type"], pk) in special else None
            if pk not in paths:
                if len(paths) == 2:
                    raise KeyError("paths")
                paths[pk] = "bc"[len(paths)]
            out = []
            for i in items:
                d = denoted(i)
                if canon is not None and i["t"] == "str":
                    d = canon("".join(map(chr, i["u"])))          # what the string denotes under the canonicalisation the library documents for this path
                    if d is None:
                        raise KeyError("string outside the documented canonicalisation")
                if d not in consts:
                    if len(consts) == 4:
                        raise KeyError("constants")
                    consts[d] = [1, 2, 0, 3][len(consts)]
                out.append(IP.I(consts[d]))
                raw.append(raw_const(consts[d], d, i, a["type"] if canon is not None else None))
            return IP.cmp_(paths[pk], a["op"], {"t": "list", "items": out} if a["const"]["t"] == "list" else out[0], a["neg"], "a")
        if k in ("paren", "obs"):
            return {"k": k, "e": conv(a["e"])}
        if k == "qual":
            return {"k": "qual", "e": conv(a["e"]), "q": a["q"]}
        return {"k": k, "args": [conv(x) for x in a["args"]]}
    try:
        pa, qa = conv(p), conv(q)
    except KeyError:
        return None
    if len(types) != 1 or not (IP.in_vocab(pa) and IP.in_vocab(qa)):
        return None
    abstract_pair.last_consts = raw
    return pa, qa


def constant_kind_lines(chk, quick):
    """the same comparison with two constants of one kind (or of two kinds with the same text) on special and ordinary paths, alone and inside AND / OR / FOLLOWEDBY; judged on the
    bounded universe after a joint renaming of paths and constants"""
    rng = chk.rng
    lines = []
    n = 0
    for typ, steps in SPECIAL_PATHS + GENERIC_PATHS:
        for kind, pool in sorted(CONST_POOLS.items()):
            pairs = [(a, b) for a in pool for b in pool if a is not b]
            other = [c for k2, pl in sorted(CONST_POOLS.items()) if k2 != kind for c in pl]
            pairs += [(rng.choice(pool), rng.choice(other)) for _ in range(2)]
            rng.shuffle(pairs)
            if kind == "str" and typ in ("ipv4-addr", "ipv6-addr"):
                pairs = cidr_pairs(rng, 4 if typ == "ipv4-addr" else 6, 4 if quick else 60) + pairs
            # constants whose text looks alike, or looks like what the special paths canonicalise (an address, a key in another case), come first
            text = lambda c: "".join(map(chr, c["u"])) if c["t"] == "str" else str(c.get("s", c.get("v", c.get("us"))))  # noqa
            alike = lambda a, b: text(a).lower() == text(b).lower() or text(a).isdigit() or text(b).isdigit()  # noqa
            ncidr = len([1 for ab in pairs if kind == "str" and typ in ("ipv4-addr", "ipv6-addr") and "/" in text(ab[0])])
            def collide(a, b):       # two different numbers with the same image as a double
                try:
                    da, db = denoted(a), denoted(b)
                    return da[0] == db[0] == "num" and da != db and float(da[1]) == float(db[1])
                except Exception:  # noqa
                    return False
            pairs.sort(key=lambda ab: 0 if collide(*ab) else 1 if (alike(*ab) or ("/" in text(ab[0]) and kind == "str")) else 2)
            for c1, c2 in pairs[:(6 if quick else 40) + ncidr]:
                op = rng.choice(["=", "=", "!=", "IN"])
                mk = lambda c: {"k": "cmp", "type": typ, "path": copy.deepcopy(steps), "prop": "*", "op": op, "neg": False,  # noqa
                                "const": {"t": "list", "items": [c, rng.choice(pool)]} if op == "IN" else c}
                x, y = mk(c1), mk(c2)
                side = {"k": "cmp", "type": typ, "path": [{"s": "key", "name": "other", "i": ""}], "prop": "other", "op": "=", "neg": False, "const": IP.I(1)}
                ctx = rng.choice(["alone", "and", "or", "fb"])
                wrapc = {"alone": lambda e: {"k": "obs", "e": e}, "and": lambda e: {"k": "obs", "e": {"k": "and", "args": [e, copy.deepcopy(side)]}},
                         "or": lambda e: {"k": "obs", "e": {"k": "or", "args": [copy.deepcopy(side), e]}},
                         "fb": lambda e: {"k": "fb", "args": [{"k": "obs", "e": e}, {"k": "obs", "e": copy.deepcopy(side)}]}}[ctx]
                p, q = wrapc(x), wrapc(y)
                tp, tq = IP.render(p), IP.render(q)
                if not (valid(tp) and valid(tq)):
                    chk.notes["generated_invalid_skipped"] = chk.notes.get("generated_invalid_skipped", 0) + 1
                    continue
                n += 1
                v0, exc0 = equiv(tp, tp)
                lines.append({"kind": "total", "exc": exc0, "tp": tp, "tq": tp, "invocab": False, "how": "constant_kinds:self", "ast": p})
                v, exc = equiv(tp, tq)
                ab = abstract_pair(p, q)
                how = "constant_kinds:%s:%s/%s:%s" % ("special_path" if (typ, steps) in SPECIAL_PATHS else "ordinary_path", c1["t"], c2["t"], ctx)
                if exc != "none":
                    lines.append({"kind": "total", "exc": exc, "tp": tp, "tq": tq, "invocab": False, "how": how, "ast": p})
                elif ab is None:
                    lines.append({"kind": "pair", "p": {"k": "x"}, "q": {"k": "x"}, "verdict": v, "exc": exc, "invocab": False, "expect": "none", "how": how, "tp": tp, "tq": tq})
                else:
                    lines.append({"kind": "pair", "p": IP.to_spec(ab[0]), "q": IP.to_spec(ab[1]), "verdict": v, "exc": exc, "invocab": True, "expect": "none", "how": how, "tp": tp, "tq": tq,
                                  "renamed": [IP.render(ab[0]), IP.render(ab[1])], "consts": list(abstract_pair.last_consts)})
    chk.stages["S3_constant_kinds"] = {"pairs": n}
    return lines


def relation_line(rng, batch):
    """reflexive / symmetric / transitive on a batch (with a rewritten copy of each member so that the relation is not empty) + find_equivalent_patterns"""
    from stix2.equivalence.pattern import find_equivalent_patterns
    pats = []
    for p, tp in batch:
        pats.append(tp)
        rw = rewrite(rng, p)
        if rw is not None:
            pats.append(IP.render(rw[1]))
    m = {}
    exc = "none"
    for i, a in enumerate(pats):
        for j, b in enumerate(pats):
            v, e = equiv(a, b)
            m[(i, j)] = v
            if e != "none":
                exc = e
    k = len(pats)
    refl = all(m[(i, i)] for i in range(k))
    sym = all(m[(i, j)] == m[(j, i)] for i in range(k) for j in range(k))
    trans = all(not (m[(i, j)] and m[(j, l)]) or m[(i, l)] for i in range(k) for j in range(k) for l in range(k))
    try:
        found = list(find_equivalent_patterns(pats[0], pats, stix_version="2.1"))
        find_ok = found == [b for j, b in enumerate(pats) if m[(0, j)]]
    except Exception as e:  # noqa
        find_ok, exc = False, type(e).__name__
    return {"kind": "relation", "refl": refl, "sym": sym, "trans": trans, "find_ok": find_ok, "exc": exc, "tp": pats[0], "tq": "|".join(pats[1:3]), "invocab": False, "how": "batch of %d" % k}


def report(chk, ln, clause, stage):
    import re
    feats = set()
    text = ln.get("tp", "") + " " + ln.get("tq", "")
    if ln["kind"] == "total" and "ast" in ln:
        # name the smallest observation expression of the pattern on which the same failure shows
        best = text
        for _, sub in nodes(ln["ast"]):
            if sub["k"] in ("obs", "oand", "oor", "fb", "qual"):
                t = IP.render(sub)
                if len(t) < len(best) and valid(t) and equiv(t, t)[1] == ln["exc"]:
                    best = t
        # ... and inside it the smallest single comparison
        m = [c for c in re.findall(r"\[([^\[\]]*)\]", best)]
        for c in sorted({x.strip() for part in m for x in re.split(r"\bAND\b|\bOR\b", part)}, key=len):
            t = "[" + c.strip("() ") + "]"
            if valid(t) and equiv(t, t)[1] == ln["exc"]:
                best = t
                break
        text = best
        ln = dict(ln, minimised=best)
    for f in ("NOT", "IN", "LIKE", "MATCHES", "ISSUBSET", "ISSUPERSET", "FOLLOWEDBY", "REPEATS", "WITHIN", "START"):
        if re.search(r"\b%s\b" % f, text):
            feats.add(f)
    for t in ("ipv4-addr:value", "ipv6-addr:value", "windows-registry-key:key"):
        if t in text:
            feats.add(t)
    for pat, name in ((r"t'", "timestamp-const"), (r"h'", "hex-const"), (r"b'", "binary-const"), (r"\btrue\b|\bfalse\b", "bool-const"), (r"\d\.\d", "float-const"), (r"\[\*\]|\[\d+\]", "index-step")):
        if re.search(pat, text):
            feats.add(name)
    chk.violation({"entry": "equivalent_patterns" if ln["kind"] != "print" else "create_pattern_object/str", "clause": clause, "how": ln.get("how", ""),
                   "case": "exc=%s features=%s" % (ln.get("exc", "none"), ",".join(sorted(feats)))},
                  {"line": ln, "clause": clause}, stage)


def run(chk):
    quick = chk.tier == "quick"
    chk.rule = ("a case is a pattern, a pair of patterns (a pattern and a documented rewrite of it / a near-rewrite / a sub-expression), the library's normal form of a pattern, "
                "or a batch for the relation laws; distinct_nontrivial counts distinct (kind, construction, verdict, in/out of the semantic universe, operator/qualifier features)")
    chk.assumptions = ["STIX patterning semantics with distinct-observation bindings over the bounded universe of spec/PatternSem.tla (one object type, two integer properties, "
                       "time-ordered sequences of <= 3 observations at 2 instants); a verdict is judged only when both patterns are inside that vocabulary",
                       "patterns outside it (strings, LIKE/MATCHES, special IP/registry paths, other constant kinds) are checked for totality and the relation laws only",
                       "the library's normal form is read through equivalence.pattern._get_pattern_normalizer (the point where equivalent_patterns compares)",
                       "valid = accepted by the stix2-patterns grammar as shipped"]
    res = chk.add_tlc("S1_documented_rewrites_sound", tlc.run("MC_PatternLaws", "MC_PatternLaws", workers=16, scratch=chk.scratch, timeout=3600))
    if not res.completed:
        chk.spec_violation("S1", res)
    neg = tlc.run("MC_PatternLaws", "Neg_PatternLaws", workers=8, scratch=chk.scratch)
    chk.stages["S1_negative_config"] = {"non_law_distinguished_as_required": bool(neg.invariant_violated)}
    if not neg.invariant_violated:
        chk.machinery("Neg_PatternLaws: the semantics does not distinguish a non-law")
    lines = generate(chk, quick) + constant_kind_lines(chk, quick)
    import collections
    for ln in lines:
        chk.case([ln["kind"], ln.get("how", ""), ln.get("verdict"), ln.get("invocab"), ln.get("exc", "none")])
    keep = ("kind", "p", "q", "verdict", "invocab", "expect", "refl", "sym", "trans", "find_ok", "exc", "consts")
    slim = [{k: ln[k] for k in keep if k in ln} for ln in lines]
    rejected = set()
    for r in common.validate_trace_parallel(chk, "Trace_Patterns", "Trace_Patterns", slim, "S3_code_to_spec", jobs=12, chunk=300):
        rejected.add(r[0] - 1)
        if r[2].startswith(PREFIX):
            report(chk, lines[r[0] - 1], r[2], "S3")
        elif r[2].startswith("HARNESS:"):
            chk.machinery("the specification does not confirm the harness's renaming of constants: %s | %s" % (lines[r[0] - 1].get("tp"), lines[r[0] - 1].get("tq")))
    chk.stages["S3_constant_kinds"] = dict(chk.stages.get("S3_constant_kinds", {}), renamings_recomputed_by_the_specification=sum(1 for ln in lines if "consts" in ln))
    chk.sample({"pair": {k: v for k, v in next(l for l in lines if l["kind"] == "pair" and l["invocab"]).items()}})
    chk.sample({"norm": {k: v for k, v in next((l for l in lines if l["kind"] == "norm"), {}).items() if k in ("tp", "tq")}})
    chk.notes["verdicts"] = dict(collections.Counter("%s:%s:%s" % (l["kind"], l.get("expect", "-"), l.get("verdict", "-")) for l in lines))
    # S4
    good = [json.loads(json.dumps({k: x[k] for k in keep if k in x})) for i, x in enumerate(lines) if i not in rejected and x["kind"] == "pair" and x["invocab"] and x["expect"] == "none" and not x["verdict"]][:12]
    if len(good) >= 6:
        good[2] = {"kind": "pair", "p": IP.to_spec({"k": "obs", "e": IP.cmp_("b", "=", IP.I(1))}), "q": IP.to_spec({"k": "obs", "e": IP.cmp_("b", "=", IP.I(2))}),
                   "verdict": True, "invocab": True, "expect": "none", "exc": "none"}      # two different patterns claimed equivalent
        withc = next((json.loads(json.dumps({k: x[k] for k in keep if k in x})) for i, x in enumerate(lines) if i not in rejected and len(x.get("consts", [])) >= 2
                      and len({c["id"] for c in x["consts"]}) >= 2 and any(c["kind"] == "cidr" for c in x["consts"])), None)
        if withc is not None:
            withc["consts"][1]["id"] = withc["consts"][0]["id"]             # two different values claimed to be the same one
            good.append(withc)
        rej = common.validate_trace(chk, "Trace_Patterns", "Trace_Patterns", good, "S4_selftest", count=False)
        hit = sorted({r[0] for r in rej})
        ok4 = hit == ([3, len(good)] if withc is not None else [3])
        chk.notes["binding_selftest"] = {"corrupted_lines": 1, "rejected_lines": len(hit), "ok": ok4}
        if not ok4:
            chk.machinery("binding self-test failed: %r" % (rej,))
    else:
        chk.machinery("binding self-test: not enough material")


def replay(path):
    d = json.load(open(path))["detail"]["line"]
    out = {"recorded": {k: d.get(k) for k in ("kind", "tp", "tq", "verdict", "exc", "how")}}
    if d["kind"] in ("pair", "total"):
        out["now"] = equiv(d["tp"], d["tq"])
    print(json.dumps(out, indent=1))
    return 0
