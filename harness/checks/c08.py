"""C08 -- a selector is valid exactly when it addresses something.  Specs: spec/Selectors.tla (+ Markings.tla trace spec)."""
import copy
import json
import os

from .. import common, tlc
from .. import impl_markings as IM
from .. import objects as O
from . import c07

PREFIX = "C08:"
M1 = IM.MARK["M1"]


def max_instances():
    """(name, version, class name, kwargs) of instances with as many addressing hazards as the type allows"""
    import stix2.v20
    import stix2.v21
    out = []
    er = [{"source_name": "s", "external_id": "1"}, {"source_name": "s", "external_id": "1"}, {"source_name": "t", "url": "http://x.example/", "description": ""}]
    kc = [{"kill_chain_name": "k", "phase_name": "p"}, {"kill_chain_name": "k", "phase_name": "p"}]
    for v in ("2.0", "2.1"):
        for typ, (cls, base, roles) in sorted(O.TABLES[v].items()):
            args = copy.deepcopy(base)
            for role, (prop, a, b) in roles.items():
                args[prop] = copy.deepcopy(b if role == "aliases" else a)
            args["external_references"] = copy.deepcopy(er)
            args["revoked"] = False
            args["created_by_ref"] = O.REF["identity"]
            if "labels" not in args:
                args["labels"] = ["x", "x", "y"]
            if typ in ("attack-pattern", "indicator", "malware", "tool", "infrastructure"):
                args["kill_chain_phases"] = copy.deepcopy(kc)
            if typ == "malware" and v == "2.1":
                args["is_family"] = False
            if typ == "sighting":
                args["count"] = 0
                args["summary"] = False
            if typ in ("campaign", "identity", "tool") :
                args["description"] = ""
            if v == "2.1":
                args["confidence"] = 0
                args["lang"] = "en"
            known = _cls(v, cls)._properties
            args = {k: x for k, x in args.items() if k in known}        # (the meta objects -- language content, extension definition -- lack some of the common properties)
            out.append(("%s %s" % (v, typ), v, cls, args))
    # a 2.1 observable with a nested extension, a dictionary property and zero-valued properties
    out.append(("2.1 file(sco)", "2.1", "File", {"name": "", "size": 0, "hashes": {"MD5": "d41d8cd98f00b204e9800998ecf8427e"},
                                                  "extensions": {"ntfs-ext": {"alternate_data_streams": [{"name": "a", "size": 0}, {"name": "a", "size": 0}]}}}))
    out.append(("2.1 network-traffic(sco)", "2.1", "NetworkTraffic", {"protocols": ["tcp", "tcp"], "src_port": 0, "dst_ref": "ipv4-addr--11111111-1111-4111-8111-111111111111",
                                                                      "is_active": False, "ipfix": {"aaa": 0, "bbb": ""}}))
    out.append(("2.0 observed-data(container)", "2.0", "ObservedData", {"first_observed": O.TS, "last_observed": O.TS, "number_observed": 1,
                                                                         "objects": {"0": {"type": "file", "name": "", "size": 0}, "1": {"type": "directory", "path": "/", "contains_refs": ["0", "0"]},
                                                                                     "0-a": {"type": "file", "name": "z"}, "10": {"type": "file", "name": "y"}}}))
    # empty containers as stored values (legal in free-form content: dictionary properties, custom properties): an empty list or dictionary is a value like any other
    out.append(("2.1 email-message(empty containers)", "2.1", "EmailMessage", {"is_multipart": False, "subject": "", "additional_header_fields": {"x-list": [], "x-one": ["a"], "x-str": ""}}))
    out.append(("2.1 identity(custom empty containers)", "2.1", "Identity", {"name": "n", "allow_custom": True, "x_opts": {"tags": [], "map": {}, "zero": 0, "off": False, "n": None},
                                                                            "x_list": [], "x_dict": {}}))
    out.append(("2.0 campaign(custom empty containers)", "2.0", "Campaign", {"name": "n", "allow_custom": True, "x_opts": {"tags": [], "deep": {"er": []}}, "x_list": []}))
    # the SAME Python container standing at two places of the caller's data (a template used twice): two places of the object, each addressable on its own
    ph = {"kill_chain_name": "k", "phase_name": "p"}
    hs = {"MD5": "d41d8cd98f00b204e9800998ecf8427e"}
    ref = {"source_name": "s", "external_id": "1", "hashes": hs}
    ref2 = {"source_name": "t", "url": "http://x.example/", "hashes": hs}
    txt = {"name": "n", "description": ""}
    shared_list = ["a", "b"]
    out.append(("2.1 attack-pattern(shared instances)", "2.1", "AttackPattern", {"name": "n", "kill_chain_phases": [ph, ph], "external_references": [ref, ref, ref2]}))
    out.append(("2.0 tool(shared instances)", "2.0", "Tool", {"name": "n", "labels": ["remote-access"], "kill_chain_phases": [ph, ph], "external_references": [ref2, ref]}))
    out.append(("2.1 language-content(shared dictionary)", "2.1", "LanguageContent", {"object_ref": O.REF["campaign"], "object_modified": "2020-01-01T00:00:00.000Z",
                                                                                      "contents": {"en-gb": txt, "en-us": txt, "fr": {"name": "m"}}}))
    out.append(("2.1 identity(shared custom containers)", "2.1", "Identity", {"name": "n", "allow_custom": True, "x_a": shared_list, "x_b": shared_list, "x_c": {"p": shared_list, "q": txt, "r": txt}}))
    out.append(("2.1 email-message(shared header lists)", "2.1", "EmailMessage", {"is_multipart": False, "additional_header_fields": {"x-one": shared_list, "x-two": shared_list}}))
    own = own_extension_types()
    out.append(("2.1 x-verif-sel(custom type with an extension of its own)", "2.1", own["obj"], {"name": "n", "note": ""}))
    out.append(("2.1 x-verif-sel-obs(custom observable with an extension of its own)", "2.1", own["obs"], {"value": "v"}))
    # a list longer than ten elements (index order is not string order) on a versionable object
    out.append(("2.1 identity(long list)", "2.1", "Identity", {"name": "n", "labels": ["l%d" % (i % 5) for i in range(13)], "sectors": ["aerospace"] * 11}))
    return out


_OWN = {}


def own_extension_types():
    """custom types that bring an extension of their own (extension_name=...): the library adds their `extensions` property itself"""
    import stix2
    from stix2.properties import StringProperty
    if not _OWN:
        @stix2.v21.CustomObject("x-verif-sel", [("name", StringProperty(required=True)), ("note", StringProperty())], extension_name="extension-definition--88888888-1111-4111-8111-111111111111")
        class XSel(object):
            pass

        @stix2.v21.CustomObservable("x-verif-sel-obs", [("value", StringProperty(required=True))], ["value"], extension_name="extension-definition--88888888-2222-4222-8222-222222222222")
        class XSelObs(object):
            pass
        _OWN.update(obj=XSel, obs=XSelObs)
    return _OWN


def _cls(v, cls):
    return cls if not isinstance(cls, str) else getattr(O.module(v), cls)


ENTRIES_MUT = ["add", "set", "clear", "remove"]
ENTRIES_Q = ["get", "is_marked", "is_marked_any"]


def construct_line(tid, v, cls, args, steps, entry):
    """selector handed over inside granular_markings at construction / parse time"""
    mod = O.module(v)
    base = _cls(v, cls)(**copy.deepcopy(args))
    plain = O.plain(dict(base))
    gm = list(copy.deepcopy(args.get("granular_markings", []))) + [{"selectors": [IM.sel(steps)], "marking_ref": M1}]      # (a host that arrives marked keeps the marking it has)
    args = {k: x for k, x in args.items() if k != "granular_markings"}
    try:
        if entry == "construct":
            obj = _cls(v, cls)(granular_markings=gm, **copy.deepcopy(args))
        else:
            import stix2
            d = json.loads(base.serialize())
            d["granular_markings"] = gm
            ac = bool(args.get("allow_custom"))
            obj = stix2.parse(json.dumps(d), version=v, allow_custom=ac) if "id" in d else stix2.parse_observable(json.dumps(d), version=v, allow_custom=ac)
        res = {"k": "new"}
        post = IM.project(O.plain(dict(obj)))
    except Exception as e:  # noqa
        name = type(e).__name__
        res = {"k": "err", "e": "InvalidSelectorError" if name in ("InvalidSelectorError", "InvalidValueError") else name, "raw": name}
        post = {"G": [], "O": []}
    # the tree the selector is judged against is the object *without* the marking list, plus the marking list key itself
    return {"tid": tid, "tree": IM.tree_of(dict(plain, granular_markings=[{"marking_ref": "m", "selectors": ["s"]}])), "op": entry, "ms": ["M1"], "ss": [list(steps)],
            "ur": True, "ul": True, "inh": False, "desc": False, "pre": {"G": [], "O": []}, "post": post, "res": res, "via": entry,
            "newer": True, "content_same": True, "orig_unchanged": True, "lenient": IM.lenient(steps)}


def run(chk):
    quick = chk.tier == "quick"
    rng = chk.rng
    chk.rule = ("a case is (object, selector, entry point); selectors are every path of the object and every near miss, enumerated by TLC from the object's tree; "
                "distinct_nontrivial counts distinct (host type, entry, addressed value class, selector depth, near-miss kind, verdict)")
    chk.assumptions = ["selector steps outside [a-z0-9_-] / index syntax (e.g. upper-case hash algorithm keys) and top-level names shorter than 3 characters carry no obligation (selector syntax)",
                       "construction/parse refusal of a selector may surface as InvalidSelectorError or as InvalidValueError",
                       "for construct/parse the selector is judged against the object as it is without the marking that carries it"]
    # S1 on the spec: hazard-tree theorems in MC_Selectors (ASSUMEs) + the algebra machine (shared with C07)
    trees_file = os.path.join(chk.scratch, "trees.ndjson")
    out_file = os.path.join(chk.scratch, "cands.json")
    insts = max_instances()
    hosts = []
    for hi, (name, v, cls, args) in enumerate(insts):
        obj = _cls(v, cls)(**copy.deepcopy(args))
        hosts.append((name, v, cls, args, obj, IM.tree_of(O.plain(dict(obj)))))
        # the same content arriving already marked (the constructor has validated a selector on the instance before any marking function sees it): the custom types and every sixth host
        if "granular_markings" in _cls(v, cls)._properties and "granular_markings" not in args and (not isinstance(cls, str) or hi % 6 == 0):
            first = [k for k in args if k not in ("allow_custom", "extensions")][0]
            args2 = dict(copy.deepcopy(args), granular_markings=[{"selectors": [first], "marking_ref": IM.MARK["M3"]}])
            try:
                obj2 = _cls(v, cls)(**copy.deepcopy(args2))
            except Exception:  # noqa  (a host that cannot arrive marked is no case)
                continue
            hosts.append((name + " (arrives marked)", v, cls, args2, obj2, IM.tree_of(O.plain(dict(obj2)))))
    tlc.write_ndjson(trees_file, [{"tree": h[5]} for h in hosts])
    res = chk.add_tlc("S1_selectors_and_candidates", tlc.run("MC_Selectors", "MC_Selectors", workers=1, env={"TREES_FILE": trees_file, "OUT_FILE": out_file}, scratch=chk.scratch))
    if not res.completed:
        chk.spec_violation("S1", res)
    cands = json.load(open(out_file))
    if isinstance(cands, dict):
        cands = [cands[str(i + 1)] for i in range(len(hosts))]
    lines = []
    tid = 0
    ncand = 0
    for (name, v, cls, args, obj, tree), cs in zip(hosts, cands):
        allc = [(p, True) for p in cs["paths"]] + [(p, False) for p in cs["near"]]
        if quick:
            good = [c for c in allc if c[1]]
            bad = [c for c in allc if not c[1]]
            rng.shuffle(bad)
            allc = good + bad[:25]
        versionable = "modified" in obj
        for steps, ok in allc:
            ncand += 1
            tid += 1
            entries = (ENTRIES_MUT if versionable else []) + ENTRIES_Q
            if quick:
                entries = rng.sample(entries, 3 if versionable else 2)
            for op in entries:
                step = {"op": op, "ms": ["M1"] if op in ("add", "set", "remove", "is_marked") else [], "ss": [list(steps)], "ur": True, "ul": True, "inh": False, "desc": False}
                line, _ = IM.observe(tid, obj, step, "method" if (tid % 2 and hasattr(obj, "add_markings")) else "function")
                line["host"], line["hostkind"], line["stage"], line["spec_ok"] = name, name, "S2", ok
                lines.append(line)
            for entry in ("construct", "parse"):
                if (quick and rng.random() < 0.5) or "(arrives marked)" in name:
                    continue
                line = construct_line(tid, v, cls, args, steps, entry)
                line["host"], line["hostkind"], line["stage"], line["spec_ok"] = name, name, "S2", ok
                lines.append(line)
        chk.traces += 1
    chk.stages["S2_spec_to_code"] = {"hosts": len(hosts), "candidate_selectors_from_tlc": ncand, "executions": len(lines)}
    chk.sample({"host": hosts[0][0], "candidate_paths": cands[0]["paths"][:6], "near_misses": cands[0]["near"][:4]})
    # S3: the random histories of the marking pipeline (selectors on objects with markings already present, several selectors per call)
    lines += c07.pipeline(chk, PREFIX)
    for ln in lines:
        sel = ln["ss"][0] if ln["ss"] else []
        real = set(map(tuple, IM.paths(ln["tree"])))
        chk.case([ln.get("host", ""), ln["op"], IM.leaf_class(ln["tree"], sel) if tuple(sel) in real else "absent", len(sel), ln["res"]["k"], ln["res"].get("e", "")])
    rejected = set()
    slim = [{k: v for k, v in ln.items() if k not in ("spec", "impl_G_in_model_terms")} for ln in lines]
    for i in range(0, len(slim), 3000):
        part = slim[i:i + 3000]
        for r in common.validate_trace(chk, "Trace_Markings", "Trace_Markings", part, "S3_code_to_spec"):
            rejected.add(i + r[0] - 1)
            if r[2].startswith(PREFIX):
                c07.report(chk, lines[i + r[0] - 1], r[2], lines[i + r[0] - 1].get("stage", "S3"))
    chk.sample({"trace_line": {k: v for k, v in lines[0].items() if k != "tree"}})
    c07.selftest(chk, [l for l in lines if l.get("stage") != "S2" or l["op"] == "add"], set())


def replay(path):
    return c07.replay(path)
