"""C14 -- spec-version routing.  Spec: spec/VersionRouting.tla."""
import copy
import json
import os
import shutil
import tempfile

from .. import common, tlc

UUIDS = {"uuid4": "11111111-1111-4111-8111-1111111111%02x", "uuid1": "11111111-1111-1111-8111-1111111111%02x",
         "uuid5": "11111111-1111-5111-8111-1111111111%02x", "nil": "00000000-0000-0000-0000-0000000000%02x",
         "badvariant": "11111111-1111-4111-c111-1111111111%02x", "garbage": "not-a-uuid-%02x"}
_REGISTERED = [False]


def register_custom():
    if _REGISTERED[0]:
        return
    import stix2
    import stix2.v20
    import stix2.v21
    from stix2.properties import StringProperty

    @stix2.v20.CustomObject("x-verif-only20", [("name", StringProperty())])
    class Only20(object):
        pass

    @stix2.v21.CustomObject("x-verif-only21", [("name", StringProperty())])
    class Only21(object):
        pass
    _REGISTERED[0] = True


def content(shape, idc, n):
    """concrete dict for an abstract shape"""
    t = shape["t"]
    uid = (UUIDS[idc] % (n % 256)) if idc != "noid" else None
    ts = {"created": "2020-01-01T00:00:00.000Z", "modified": "2020-01-01T00:00:00.000Z"}
    if t == "sdo":
        d = {"type": "identity", "id": "identity--" + uid, "name": "n", "identity_class": "individual"}
        d.update(ts)
    elif t == "sco":
        d = {"type": "file", "name": "x"}
        if shape["hasid"]:
            d["id"] = "file--" + uid
    elif t == "custom":
        d = {"type": "x-verif-only20" if shape["reg"] == "2.0" else "x-verif-only21", "id": ("x-verif-only20--" if shape["reg"] == "2.0" else "x-verif-only21--") + uid, "name": "n"}
        d.update(ts)
    else:  # bundle: idc applies to the member
        inner_shape = {"t": "sdo", "sv": "none" if shape["sv"] == "2.0" else "2.1", "hasid": True}
        d = {"type": "bundle", "id": "bundle--11111111-1111-4111-8111-111111111111", "objects": [content(inner_shape, idc, n)]}
        if shape["inner"] == "none":       # a bundle without members: no "objects" member at all (what Bundle().serialize() gives)
            d.pop("objects")
    if shape["sv"] != "none":
        d["spec_version"] = shape["sv"]
    return d


def family(x):
    import stix2.v20
    import stix2.v21
    if x is None:
        return "absent"
    if isinstance(x, list):
        return family(x[0]) if x else "absent"
    if isinstance(x, stix2.v20._STIXBase20):
        return "v20"
    if isinstance(x, stix2.v21._STIXBase21):
        return "v21"
    if isinstance(x, dict):
        return "dict"
    return "other:" + type(x).__name__


def direct(d, ac, v, observable=False):
    import stix2
    try:
        if observable:
            return family(stix2.parse_observable(copy.deepcopy(d), allow_custom=ac, version=v))
        return family(stix2.parse(copy.deepcopy(d), allow_custom=ac, version=v))
    except Exception:  # noqa
        return "err"


def direct_wrapped(d, ac, v, eff, form="bundle_dict"):
    """direct parse of the bundle wrapper; outcome = family of the member"""
    import stix2
    try:
        b = stix2.parse(wrap(form, d, eff), allow_custom=ac, version=v)
        return family(b["objects"][0]) if b.get("objects") else "absent"
    except Exception:  # noqa
        return "err"


def direct_json(d, ac, v):
    import stix2
    try:
        r = stix2.parse(copy.deepcopy(d), allow_custom=ac, version=v)
    except Exception:  # noqa
        return None, "err"
    if isinstance(r, dict):
        return r, "dict"
    return json.loads(r.serialize()), family(r)


def written_outcome(tmp, d, ac, eff):
    """what a filesystem sink wrote, classified by comparing the file with the serialization of the direct parse"""
    files = [os.path.join(r, f) for r, _, fs in os.walk(tmp) for f in fs]
    if not files:
        return "absent"
    written = json.load(open(files[0]))
    j20, f20 = direct_json(d, ac, "2.0")
    j21, f21 = direct_json(d, ac, "2.1")
    m20, m21 = written == j20, written == j21
    if m20 and m21:
        return f20 if eff == "2.0" else f21
    if m20:
        return f20
    if m21:
        return f21
    return "other"


class NotApplicable(Exception):
    pass


def wrap(form, d, eff):
    if form == "object":
        import stix2
        try:
            o = stix2.parse(copy.deepcopy(d), allow_custom=True)
        except Exception:  # noqa
            raise NotApplicable()
        if isinstance(o, dict) or json.loads(o.serialize()) != d:
            raise NotApplicable()         # only content the library builds unchanged can stand for the same document
        return o
    if form == "dict":
        return copy.deepcopy(d)
    if form == "json":
        return json.dumps(d)
    if form == "list":
        return [copy.deepcopy(d)]
    if form == "nested_list":
        return [[copy.deepcopy(d)]]
    if form == "list_json":
        return [json.dumps(d)]
    if form in ("bundle_dict", "bundle_dict_other_style"):
        b = {"type": "bundle", "id": "bundle--22222222-2222-4222-8222-222222222222", "objects": [copy.deepcopy(d)]}
        if (eff == "2.0") == (form == "bundle_dict"):      # the wrapper in the style of the effective version / of the other version
            b["spec_version"] = "2.0"
        return b
    raise ValueError(form)


def plant(root, d):
    """write the content into a filesystem-store layout directly (reading exercised independently of writing)"""
    tdir = os.path.join(root, d["type"])
    if "modified" in d:
        odir = os.path.join(tdir, d["id"])
        name = "".join(ch for ch in d["modified"] if ch.isdigit())
    else:
        odir = tdir
        name = d["id"]
    os.makedirs(odir, exist_ok=True)
    with open(os.path.join(odir, name + ".json"), "w") as f:
        json.dump(d, f)


ENTRY_FORMS = {
    "parse": ["dict", "json", "object"],      # "object": the content already built as a library object (under the version it detects by itself), handed to parse() with the version argument
    "parse_observable": ["dict", "json"],
    "MemoryStore()": ["dict", "list", "bundle_dict"],
    "MemorySource()": ["dict", "list", "bundle_dict"],
    "MemorySink()": ["dict", "list", "bundle_dict"],
    "MemoryStore.add": ["dict", "list", "nested_list", "bundle_dict"],
    "MemorySink.add": ["dict", "list", "bundle_dict"],
    "MemorySource.load_from_file": ["dict", "bundle_dict"],
    "MemoryStore.load_from_file": ["dict", "bundle_dict"],
    # "file_reread": the same stored file was read a moment ago under the other version arguments (by this source and by another one on the same directory)
    "FileSystemSource.get": ["file", "file_reread"], "FileSystemSource.all_versions": ["file", "file_reread"], "FileSystemSource.query": ["file", "file_reread"],
    "FileSystemStore.get": ["file", "file_reread"],
    "FileSystemSink.add": ["dict", "json", "list", "nested_list", "list_json", "bundle_dict"],
    "FileSystemStore.add": ["dict", "json", "list", "bundle_dict"],
}


def run_entry(entry, form, d, arg, ac, eff, scratch):
    """returns the outcome class"""
    import stix2
    from stix2 import Filter, FileSystemSink, FileSystemSource, FileSystemStore, MemorySink, MemorySource, MemoryStore
    v = None if arg == "none" else arg
    oid = d.get("id")
    if d["type"] == "bundle" and d.get("objects"):
        oid = d["objects"][0]["id"]
    tmp = tempfile.mkdtemp(prefix="c14-", dir=scratch)
    try:
        if entry == "parse":
            r = stix2.parse(wrap(form, d, eff), allow_custom=ac, version=v)
            return family(r)
        if entry == "parse_observable":
            return family(stix2.parse_observable(wrap(form, d, eff), allow_custom=ac, version=v))
        if entry in ("MemoryStore()", "MemorySource()"):
            cls = MemoryStore if entry == "MemoryStore()" else MemorySource
            return family(cls(wrap(form, d, eff), allow_custom=ac, version=v).get(oid))
        if entry == "MemorySink()":
            s = MemorySink(wrap(form, d, eff), allow_custom=ac, version=v)
            x = s._data.get(oid)
            return family(getattr(x, "latest_version", x))
        if entry == "MemoryStore.add":
            s = MemoryStore(allow_custom=ac)
            s.add(wrap(form, d, eff), version=v)
            return family(s.get(oid))
        if entry == "MemorySink.add":
            s = MemoryStore(allow_custom=ac)
            s.sink.add(wrap(form, d, eff), version=v)
            return family(s.get(oid))
        if entry in ("MemorySource.load_from_file", "MemoryStore.load_from_file"):
            p = os.path.join(tmp, "data.json")
            with open(p, "w") as f:
                json.dump(wrap(form, d, eff), f)
            if entry.startswith("MemorySource"):
                s = MemorySource(allow_custom=ac)
            else:
                s = MemoryStore(allow_custom=ac)
            s.load_from_file(p, version=v)
            return family(s.get(oid))
        if entry.startswith("FileSystemSource") or entry == "FileSystemStore.get":
            plant(tmp, d)
            src = FileSystemSource(tmp, allow_custom=ac) if entry.startswith("FileSystemSource") else FileSystemStore(tmp, allow_custom=ac)
            if form == "file_reread":
                for other in [x for x in (None, "2.0", "2.1") if x != v]:
                    for s0 in (src if entry.startswith("FileSystemSource") else src.source, FileSystemSource(tmp, allow_custom=ac)):
                        for rd in (lambda: s0.get(oid, version=other), lambda: s0.all_versions(oid, version=other), lambda: s0.query([Filter("id", "=", oid)], version=other)):
                            try:
                                rd()
                            except Exception:  # noqa  (what the other version makes of the content is judged in its own cell)
                                pass
            if entry.endswith(".get"):
                return family(src.get(oid, version=v) if entry.startswith("FileSystemSource") else src.source.get(oid, version=v))
            if entry.endswith(".all_versions"):
                return family(src.all_versions(oid, version=v))
            return family(src.query([Filter("id", "=", oid)], version=v))
        if entry in ("FileSystemSink.add", "FileSystemStore.add"):
            sink = FileSystemSink(tmp, allow_custom=ac) if entry == "FileSystemSink.add" else FileSystemStore(tmp, allow_custom=ac)
            sink.add(wrap(form, d, eff), version=v)
            return written_outcome(tmp, d, ac, eff)
        raise ValueError(entry)
    finally:
        shutil.rmtree(tmp, ignore_errors=True)


def observe(entry, form, cell, n, scratch):
    shape, idc, ac, arg = cell["shape"], cell["idc"], cell["ac"], cell["arg"]
    d = content(shape, idc, n)
    obs = entry == "parse_observable"
    # the direct parse of the same content (bundle forms: the member is what is stored, parsed as a member of a wrapper of the effective version's style)
    line = {"entry": entry, "form": form, "arg": arg, "shape": shape, "idc": idc, "ac": ac,
            "d20": direct(d, ac, "2.0", obs), "d21": direct(d, ac, "2.1", obs),
            "w20": direct_wrapped(d, ac, "2.0", cell["eff"], form) if form.startswith("bundle_dict") else "n/a",
            "w21": direct_wrapped(d, ac, "2.1", cell["eff"], form) if form.startswith("bundle_dict") else "n/a"}
    try:
        line["outcome"] = run_entry(entry, form, d, arg, ac, cell["eff"], scratch)
        line["exc"] = "none"
    except NotApplicable:
        return None
    except Exception as e:  # noqa
        line["outcome"] = "err"
        line["exc"] = type(e).__name__
    return line


def type_sweep(chk):
    """every versionable built-in type (and the 2.1 observables) x both versions x every identifier class, on the object's own id
    and on a reference property, through parse(version=V) and a memory store add(version=V)"""
    import stix2
    from .. import objects as O
    lines = []
    n = 0
    for v in ("2.0", "2.1"):
        for typ, (cls, base, roles) in sorted(O.TABLES[v].items()):
            args = dict(base)
            for role, (prop, a, b) in roles.items():
                args[prop] = a
            obj = getattr(O.module(v), cls)(**args)
            d0 = json.loads(obj.serialize())
            for where in ("id", "created_by_ref"):
                for idc in ("uuid4", "uuid1", "uuid5", "nil", "badvariant", "garbage"):
                    n += 1
                    d = copy.deepcopy(d0)
                    if where == "id":
                        d["id"] = typ + "--" + (UUIDS[idc] % (n % 256))
                    else:
                        d["created_by_ref"] = "identity--" + (UUIDS[idc] % (n % 256))
                    shape = {"t": "sdo", "sv": "2.1" if v == "2.1" else "none", "hasid": True, "inner": "none"}
                    for entry in ("parse", "MemoryStore.add"):
                        line = {"entry": entry, "form": "dict", "arg": v, "shape": shape, "idc": idc, "ac": False, "where": "%s %s.%s" % (v, typ, where),
                                "d20": direct(d, False, "2.0"), "d21": direct(d, False, "2.1"), "w20": "n/a", "w21": "n/a"}
                        try:
                            if entry == "parse":
                                line["outcome"] = family(stix2.parse(copy.deepcopy(d), version=v))
                            else:
                                st = stix2.MemoryStore(allow_custom=False)
                                st.add(copy.deepcopy(d), version=v)
                                line["outcome"] = family(st.get(d["id"]))
                            line["exc"] = "none"
                        except Exception as e:  # noqa
                            line["outcome"], line["exc"] = "err", type(e).__name__
                        lines.append(line)
                        chk.case([entry, "type-sweep", v, typ, where, idc])
    # references to a type that only the other spec version has (2.1-only `location` in 2.0 content; a custom type registered for 2.0 only in 2.1 content): with a version
    # named and customisation off, that is a reference to a custom type -- refused by the parser and by every store entry point
    register_custom()
    for v, reftype in (("2.0", "location"), ("2.0", "note"), ("2.1", "x-verif-only20")):
        rel = getattr(O.module(v), "Relationship")(relationship_type="related-to", source_ref="campaign--11111111-1111-4111-8111-111111111111",
                                                  target_ref="malware--11111111-1111-4111-8111-111111111111")
        d0 = json.loads(rel.serialize())
        for where in ("source_ref", "target_ref"):
            d = copy.deepcopy(d0)
            d[where] = reftype + "--11111111-1111-4111-8111-111111111111"
            shape = {"t": "sdo", "sv": "2.1" if v == "2.1" else "none", "hasid": True, "inner": "none"}
            for entry in ("parse", "MemoryStore.add", "FileSystemSink.add"):
                line = {"entry": entry, "form": "dict", "arg": v, "shape": shape, "idc": "type_of_other_version", "ac": False, "where": "%s relationship.%s -> %s" % (v, where, reftype),
                        "d20": direct(d, False, "2.0"), "d21": direct(d, False, "2.1"), "w20": "n/a", "w21": "n/a"}
                tmp = tempfile.mkdtemp(prefix="c14r-", dir=chk.scratch)
                try:
                    if entry == "parse":
                        line["outcome"] = family(stix2.parse(copy.deepcopy(d), version=v))
                    elif entry == "MemoryStore.add":
                        st = stix2.MemoryStore(allow_custom=False)
                        st.add(copy.deepcopy(d), version=v)
                        line["outcome"] = family(st.get(d["id"]))
                    else:
                        stix2.FileSystemSink(tmp, allow_custom=False).add(copy.deepcopy(d), version=v)
                        line["outcome"] = written_outcome(tmp, d, False, v)
                    line["exc"] = "none"
                except Exception as e:  # noqa
                    line["outcome"], line["exc"] = "err", type(e).__name__
                finally:
                    shutil.rmtree(tmp, ignore_errors=True)
                lines.append(line)
                chk.case([entry, "reference-sweep", v, reftype, where])
    return lines


def applicable(entry, shape, idc):
    if idc == "type_of_other_version":
        return False        # realised by the reference sweep (it needs a reference property), not by the shape matrix
    if (idc == "noid") != (not shape["hasid"]):
        return False
    if shape["t"] == "bundle":
        return entry == "parse" and (shape["inner"] != "none" or idc == "uuid4")      # (the identifier class is the member's: an empty bundle has one cell)
    if not shape["hasid"]:
        return entry in ("parse", "parse_observable")
    if entry == "parse_observable":
        return shape["t"] == "sco"
    if shape["t"] == "custom" and idc in ("nil", "badvariant", "garbage") and entry.startswith("FileSystemS") and not entry.endswith(".add"):
        return False        # an unvalidated pass-through dictionary with a junk id in a directory layout keyed by id: not a routing question
    return True


def run(chk):
    register_custom()
    quick = chk.tier == "quick"
    chk.rule = ("a case is a cell (entry point, input form, version argument, content shape, identifier class, allow_custom); the matrix is enumerated by TLC "
                "and replayed completely; distinct_nontrivial counts distinct cells")
    chk.assumptions = ["the direct parse stix2.parse(content, allow_custom, version=V) measured on the same content is the reference for routing",
                       "identifier acceptance per version is frozen in the spec: 2.0 UUIDv4 only, 2.1 any RFC 4122 UUID",
                       "MemorySink() constructor outcome is read from its _data mapping (no public reader on a bare sink)",
                       "for filesystem entries 'absent' and 'err' both count as refusal"]
    out = os.path.join(chk.scratch, "cells.json")
    res = chk.add_tlc("S1_model_check", tlc.run("MC_VersionRouting", "MC_VersionRouting", workers=8, env={"OUT_FILE": out}, scratch=chk.scratch))
    if not res.completed:
        chk.spec_violation("S1", res)
    neg = tlc.run("Neg_VersionRouting", "Neg_VersionRouting", workers=2, scratch=chk.scratch)
    chk.stages["S1_negative_config"] = {"invariant_violated_as_required": bool(neg.invariant_violated)}
    if not neg.invariant_violated:
        chk.machinery("Neg_VersionRouting did not produce a counterexample")
    cells = json.load(open(out))["cells"]
    lines = []
    n = 0
    for cell in sorted(cells, key=lambda c: common.canon(c)):
        for entry, forms in sorted(ENTRY_FORMS.items()):
            if not applicable(entry, cell["shape"], cell["idc"]):
                continue
            # a store given a bundle takes its members one by one: when the caller names a version, a wrapper written in the other version's style must not change anything
            more = ["bundle_dict_other_style"] if "bundle_dict" in forms and cell["arg"] != "none" and cell["shape"]["t"] != "bundle" else []
            for form in forms + more:
                n += 1
                ln = observe(entry, form, cell, n, chk.scratch)
                if ln is None:
                    continue
                lines.append(ln)
                chk.case([entry, form, cell["arg"], cell["shape"], cell["idc"], cell["ac"]])
    lines += type_sweep(chk)
    chk.exhaustive = True
    chk.sample({"cell": cells[0]})
    chk.sample({"trace_line": lines[len(lines) // 2]})
    rejected = set()
    for r in common.validate_trace(chk, "Trace_VersionRouting", "Trace_VersionRouting", lines, "S2S3_matrix_replay"):
        ln = lines[r[0] - 1]
        rejected.add(r[0] - 1)
        chk.violation({"entry": ln["entry"], "case": "%s form=%s shape=%s idclass=%s%s" % (
            r[2], ln["form"], ln["shape"]["t"], "valid-somewhere" if ln["idc"] in ("uuid4", "uuid1", "uuid5", "noid") else "never-valid",
            (" at " + ln["where"]) if "where" in ln else "")},
            {"line": ln, "clause": r[2]}, "S2")
    chk.stages["S2_spec_to_code"] = {"cells": len(cells), "executions": len(lines)}
    # S4
    good = [json.loads(json.dumps(x)) for i, x in enumerate(lines) if i not in rejected and x["outcome"] == "v21" and x["arg"] == "2.1" and x["entry"].startswith("Memory") and x["form"] == "dict" and x["shape"]["t"] == "sdo"][:20]
    good[3]["outcome"] = "v20"
    good[11]["idc"] = "nil"
    rej = common.validate_trace(chk, "Trace_VersionRouting", "Trace_VersionRouting", good, "S4_selftest", count=False)
    ok4 = sorted({r[0] for r in rej}) == [4, 12]
    chk.notes["binding_selftest"] = {"corrupted_lines": 2, "rejected_lines": len({r[0] for r in rej}), "ok": ok4}
    if not ok4:
        chk.machinery("binding self-test failed: %r" % (rej,))


def replay(path):
    register_custom()
    d = json.load(open(path))["detail"]["line"]
    cell = {"shape": d["shape"], "idc": d["idc"], "ac": d["ac"], "arg": d["arg"], "eff": d["arg"] if d["arg"] != "none" else "2.1"}
    scratch = tlc.make_scratch("c14replay")
    try:
        print(json.dumps({"recorded": d, "now": observe(d["entry"], d["form"], cell, 1, scratch)}, indent=1))
    finally:
        shutil.rmtree(scratch, ignore_errors=True)
    return 0
