"""Shared pipeline of the object-lifecycle properties C01, C02, C03, C04, C17.
Specs: spec/SpecValid.tla (validity against the frozen model), spec/Trace_ObjectModel.tla (clauses), spec/ObjectModel.tla (S1 design model)."""
import copy
import re
import zlib
import json
import os

from .. import common, lex, schema, tlc

VERSIONS = ("2.1", "2.0")
FAMILY_BASES = ("ValueError", "TypeError")


def in_family(e):
    from stix2.exceptions import STIXError
    return isinstance(e, (STIXError, ValueError, TypeError))


def parse(d, v, strict=True, text=True, observable=False):
    import stix2
    data = json.dumps(d) if text else copy.deepcopy(d)
    if observable:
        return stix2.parse_observable(data, allow_custom=not strict, version=v)
    return stix2.parse(data, allow_custom=not strict, version=v)


def out_json(obj, **opts):
    return json.loads(obj.serialize(**opts)) if hasattr(obj, "serialize") else obj


def message_of(e, line):
    """the text of a reported error; an error of the documented family whose own message cannot be produced (its __str__ raises) still lets an internal error
    escape as soon as the caller looks at it: the line is marked as outside the family, naming both"""
    try:
        return str(e)
    except Exception as inner:  # noqa
        line["exc"] = "%s.__str__ raised %s" % (type(e).__name__, type(inner).__name__)
        if "family" in line:
            line["family"] = False
        return "<message cannot be rendered>"


def is_obs20(key, v):
    return v == "2.0" and key.startswith("observables:")


# ------------------------------------------------------------------------------------------------ C03: accept
def same_value(a, b):
    """input value vs output value: equal; timestamps as instants"""
    if isinstance(a, str) and isinstance(b, str) and a != b:
        fa, fb = lex.ts_fact(a), lex.ts_fact(b)
        return fa["ok"] and fb["ok"] and fa["instant"] == fb["instant"]
    if isinstance(a, dict) and isinstance(b, dict):
        return set(a) <= set(b) and all(same_value(a[k], b[k]) for k in a) and all(k in a or is_default_like(b[k]) for k in b)
    if isinstance(a, list) and isinstance(b, list):
        return len(a) == len(b) and all(same_value(x, y) for x, y in zip(a, b))
    if isinstance(a, bool) or isinstance(b, bool):
        return a is b
    if isinstance(a, (int, float)) and isinstance(b, (int, float)):
        return a == b
    return a == b


def is_default_like(v):
    return v in (False, 0, [], {}, "2.1", "2.0") or isinstance(v, (bool, str))


def accept_lines(chk, quick):
    rng = chk.rng
    lines = []
    for v in VERSIONS:
        g = schema.Gen(v, rng)
        for key in g.keys():
            t = g.types[key]
            insts = [("min", g.instance(key, "min")), ("max", g.instance(key, "max"))]
            opt = [d["name"] for d in t["properties"] if not d["jsonreq"] and d["name"] not in ("granular_markings",)]
            for n in (opt if not quick else rng.sample(opt, min(4, len(opt)))):
                insts.append(("one:" + n, g.instance(key, "one", only=n)))
            for _ in range(2 if quick else 12):
                insts.append(("rand", g.instance(key, "rand")))
            insts += shape_variants(g, key, rng, quick)
            insts += constraint_boundaries(g, key, g.instance(key, "min"), t)
            # an "at least one of" constraint satisfied by a member whose value is false / 0 / empty (presence is what counts): enumerated, never left to the random instances
            insts += [(how, d) for how, d in constraint_violations(g, key, g.instance(key, "min"), t) if how.startswith("satisfied_by_falsy:")]
            for how, d in insts:
                for wrap in (("plain",) if quick and rng.random() < 0.6 else ("plain", "bundle")):
                    if is_obs20(key, v):
                        wrap = "observed-data"
                    lines.append(accept_one(v, key, how, d, wrap))
    # STIX 2.0 containers whose members refer to each other, forwards and backwards
    od = {"type": "observed-data", "id": "observed-data--11111111-1111-4111-8111-111111111111", "created": "2020-01-01T00:00:00.000Z", "modified": "2020-01-01T00:00:00.000Z",
          "first_observed": "2020-01-01T00:00:00Z", "last_observed": "2020-01-01T00:00:00Z", "number_observed": 1}
    containers = {
        "forward_refs_email": {"0": {"type": "email-message", "is_multipart": False, "from_ref": "1", "to_refs": ["2", "1"]}, "1": {"type": "email-addr", "value": "a@x.example"},
                               "2": {"type": "email-addr", "value": "b@x.example", "belongs_to_ref": "3"}, "3": {"type": "user-account", "user_id": "u"}},
        "forward_ref_directory": {"0": {"type": "directory", "path": "/", "contains_refs": ["1", "2"]}, "1": {"type": "file", "name": "f"}, "2": {"type": "directory", "path": "/d"}},
        "backward_refs": {"0": {"type": "directory", "path": "/"}, "1": {"type": "file", "name": "f", "parent_directory_ref": "0"},
                          "2": {"type": "ipv4-addr", "value": "1.2.3.4"}, "3": {"type": "network-traffic", "protocols": ["tcp"], "src_ref": "2", "dst_ref": "4"}, "4": {"type": "ipv4-addr", "value": "5.6.7.8"}},
        "non_numeric_keys": {"b": {"type": "file", "name": "f", "parent_directory_ref": "a"}, "a": {"type": "directory", "path": "/"}},
        "self_and_mutual": {"0": {"type": "process", "pid": 1, "child_refs": ["1"]}, "1": {"type": "process", "pid": 2, "parent_ref": "0"}},
    }
    # valid hosts carrying extensions the harness registered (two toplevel-property extensions A and B, a property extension C) and predefined ones, of different kinds
    # in one object, in every document order: the host part is judged by the frozen model, the extension part is valid by the registered definitions
    custom_types()
    A, B, C = ("extension-definition--%s-1111-4111-8111-111111111111" % (x * 8) for x in "abc")
    tl = {"extension_type": "toplevel-property-extension"}
    pc = {"extension_type": "property-extension", "depth": 1}
    g21 = schema.Gen("2.1", rng)
    ident = g21.instance("objects:identity", "min")
    fil = dict(g21.instance("observables:file", "min"))
    fil.pop("extensions", None)
    for how, top, exts in (("A", {"rank": 1}, [(A, tl)]), ("C_then_A", {"rank": 1}, [(C, pc), (A, tl)]), ("A_then_C", {"rank": 1}, [(A, tl), (C, pc)]),
                           ("C_A_B", {"rank": 1, "weight": 2, "shade": "red"}, [(C, pc), (A, tl), (B, tl)]), ("A_C_B", {"rank": 1, "weight": 2, "shade": "red"}, [(A, tl), (C, pc), (B, tl)]),
                           ("B_A", {"rank": 1, "weight": 2, "shade": "blue"}, [(B, tl), (A, tl)])):
        d = dict(ident, **top)
        d["extensions"] = {k: dict(x) for k, x in exts}
        for wrap in ("plain", "bundle"):
            lines.append(accept_one("2.1", "objects:identity", "registered_extensions:" + how, d, wrap, core=ident))
    for how, exts in (("predefined_then_A", [("ntfs-ext", {"sid": "s"}), (A, tl)]), ("A_then_predefined", [(A, tl), ("ntfs-ext", {"sid": "s"})])):
        d = dict(fil, rank=3)
        d["extensions"] = {k: dict(x) for k, x in exts}
        lines.append(accept_one("2.1", "observables:file", "registered_extensions:" + how, d, "plain", core=dict(fil, extensions={"ntfs-ext": {"sid": "s"}})))
    for how, objs in containers.items():
        d = dict(od, objects=objs)
        lines.append(accept_one("2.0", "objects:observed-data", "container:" + how, d, "plain"))
        lines.append(accept_one("2.0", "objects:observed-data", "container:" + how, d, "bundle"))
    return lines


def shape_variants(g, key, rng, quick):
    """legal value shapes: every enumeration entry, boundary numbers, falsy values, timestamp spellings, each reference target type, markings on each property"""
    out = []
    t = g.types[key]
    base = g.instance(key, "max")
    for i, d in enumerate(t["properties"]):
        n = d["name"]
        if n not in base or "fixed" in d:
            continue
        vals = []
        if d["kind"] == "enum":
            vals = d["allowed"] if not quick else rng.sample(d["allowed"], min(2, len(d["allowed"])))
        elif d["kind"] == "integer":
            vals = [x for x in (d.get("min"), d.get("max"), 0) if x is not None and (d.get("min") is None or x >= d["min"]) and (d.get("max") is None or x <= d["max"])]
        elif d["kind"] == "boolean":
            vals = [False, True]
        elif d["kind"] == "string" and not d["lenient"] and n not in ("name", "definition_type"):    # definition_type names the form of `definition`: other values leave it unspecified
            vals = [""] if rng.random() < 0.3 else []
        elif d["kind"] == "timestamp" and d["precision"] != "second":
            sec = base[n][:19]
            vals = [sec + "." + "123456789"[:k] + "Z" for k in ((3, 6, 9) if quick else (1, 2, 3, 4, 5, 6, 7, 9))] if d.get("constraint") != "exact" or d["precision"] == "any" else []
        elif d["kind"] == "reference" and d["auth"] == "whitelist":
            types = list(d["specifics"]) + [schema.GENERIC_SAMPLE[x] for x in d["generics"]]
            vals = [tt + "--" + g.uid() for tt in types[: (2 if quick else 20)]]
        for val in vals:
            x = copy.deepcopy(base)
            x[n] = val
            out.append(("shape:%s=%s" % (n, str(val)[:20]), x))
    # granular markings addressing properties of the object (C03 / C08)
    if any(d["name"] == "granular_markings" for d in t["properties"]):
        names = [n for n in base if n not in ("granular_markings",)]
        for n in (names if not quick else rng.sample(names, min(3, len(names)))):
            x = copy.deepcopy(base)
            sel = n
            if isinstance(x[n], list) and x[n]:
                sel = rng.choice([n, n + ".[0]", n + ".[%d]" % (len(x[n]) - 1)])
            elif isinstance(x[n], dict) and x[n]:
                keys = [k for k in sorted(x[n]) if re.fullmatch(r"[a-z0-9_-]{1,250}", k)]
                if keys and rng.random() < 0.7:
                    sel = n + "." + rng.choice(keys)
            x["granular_markings"] = [{"selectors": [sel], "marking_ref": "marking-definition--" + g.uid()}]
            out.append(("marking:" + sel, x))
        # lists of ten and more elements (index text is not in numeric order), every index markable
        longs = [d for d in t["properties"] if d["name"] in base and d["kind"] == "list" and d["contained"]["kind"] in ("string", "openvocab", "reference") and "fixed" not in d
                 and d["name"] not in ("granular_markings",)]
        for d in (longs if not quick else rng.sample(longs, min(1, len(longs)))):
            x = copy.deepcopy(base)
            n = d["name"]
            while len(x[n]) < 12:
                x[n].append(g.value(dict(d["contained"], name=n), 0, t["type"] or ""))
            x["granular_markings"] = [{"selectors": [n + ".[10]", n + ".[2]"], "marking_ref": "marking-definition--" + g.uid()},
                                      {"selectors": [n + ".[11]"], "marking_ref": "marking-definition--" + g.uid()}]
            out.append(("marking:long_list:" + n, x))
        # a dictionary key that extends a sibling key with a hyphen, the sibling having children of its own
        for d in t["properties"]:
            if d["name"] in base and d["kind"] == "dictionary" and d["name"] == "additional_header_fields":
                x = copy.deepcopy(base)
                x[d["name"]] = {"received": ["a", "b"], "received-spf": "pass", "x": "1"}
                x["granular_markings"] = [{"selectors": [d["name"] + ".received-spf", d["name"] + ".received.[1]", d["name"] + ".x"], "marking_ref": "marking-definition--" + g.uid()}]
                out.append(("marking:hyphen_sibling:" + d["name"], x))
    return out


def constraint_boundaries(g, key, base, t):
    """valid instances ON the boundary of every order constraint of the frozen model (equal instants where the rule admits them, one millisecond apart, far apart),
    with nothing else wrong: members the pair depends on are supplied, flags that forbid one of the pair are false"""
    descs = {d["name"]: d for d in t["properties"]}
    order = [d["name"] for d in t["properties"]]
    out = []
    for c in t["constraints"]:
        if c["k"] not in ("le", "lt") or c["a"] not in descs or c["b"] not in descs:
            continue
        for how, ta, tb in (("equal", "2021-03-04T05:06:07.000Z", "2021-03-04T05:06:07.000Z"), ("one_ms", "2021-03-04T05:06:07.000Z", "2021-03-04T05:06:07.001Z"),
                            ("far", "2001-01-01T00:00:00.000Z", "2031-12-31T23:59:59.999Z")):
            if how == "equal" and c["k"] == "lt":
                continue
            x = copy.deepcopy(base)
            x[c["a"]], x[c["b"]] = ta, tb
            for c2 in t["constraints"]:
                if c2["k"] == "if_true_forbids" and c2["b"] in (c["a"], c["b"]):
                    x[c2["a"]] = False
                if c2["k"] == "requires" and c2["a"] in (c["a"], c["b"]) and c2["b"] not in x and c2["b"] in descs:
                    x[c2["b"]] = g.value(dict(descs[c2["b"]]), order.index(c2["b"]), t["type"] or "")
            for n in [n for n in order if n in x]:
                x[n] = x.pop(n)
            out.append(("boundary:%s_%s_%s" % (c["a"], how, c["b"]), x))
    return out


def accept_one(v, key, how, d, wrap, core=None):
    """core: the part of d that the frozen model can judge (d without material of extensions the harness registered, whose validity is by their registered definitions)"""
    line = {"kind": "accept", "v": v, "key": key, "how": how, "wrap": wrap, "doc": lex.doc(d if core is None else core, v, key), "ok": False, "exc": "none", "preserved": False, "extra": [], "input": d}
    try:
        if wrap == "plain":
            obj = parse(d, v)
            out = out_json(obj, include_optional_defaults=True)
        elif wrap == "bundle":
            b = {"type": "bundle", "id": "bundle--11111111-1111-4111-8111-111111111111", "objects": [d]}
            if v == "2.0":
                b["spec_version"] = "2.0"
            obj = parse(b, v)
            out = out_json(obj, include_optional_defaults=True)["objects"][0]
        else:  # a 2.0 observable inside an observed-data container
            od = {"type": "observed-data", "id": "observed-data--11111111-1111-4111-8111-111111111111", "created": "2020-01-01T00:00:00.000Z", "modified": "2020-01-01T00:00:00.000Z",
                  "first_observed": "2020-01-01T00:00:00Z", "last_observed": "2020-01-01T00:00:00Z", "number_observed": 1, "objects": {"0": d}}
            obj = parse(od, v)
            out = out_json(obj, include_optional_defaults=True)["objects"]["0"]
        line["ok"] = True
        line["preserved"] = all(k in out and same_value(d[k], out[k]) for k in d)
        line["extra"] = sorted(k for k in out if k not in d)
        if not line["preserved"]:
            line["differs"] = sorted(k for k in d if k not in out or not same_value(d[k], out[k]))
    except Exception as e:  # noqa
        line["exc"] = type(e).__name__
        line["msg"] = message_of(e, line)[:200]
    return line


# ------------------------------------------------------------------------------------------------ C02 / C17: emit
WRONG = {"null": None, "int": 7, "str": "seven", "bool": True, "list": ["x"], "dict": {"k": "v"}, "float": 1.5, "nested": [{"a": [None, {"b": []}]}], "emptystr": "",
         # text that is itself JSON of some kind (several entry points also take JSON text where a dictionary is expected)
         "json_text_number": "5", "json_text_list": "[]", "json_text_null": "null", "json_text_string": "\"x\"", "json_text_object": "{\"k\": \"v\"}", "json_text_true": "true",
         "huge_int": 10 ** 400, "huge_float_text": "1e999"}


def constraint_violations(g, key, base, t):
    """for every inter-property constraint of the frozen model, the instances that break exactly it (derived from the constraint, not from the library)"""
    descs = {d["name"]: d for d in t["properties"]}
    order = [d["name"] for d in t["properties"]]
    out = []

    def val(n):
        return g.value(dict(descs[n]), order.index(n), t["type"] or "")

    def reorder(x):
        for n in [n for n in order if n in x]:
            x[n] = x.pop(n)
        return x
    for c in t["constraints"]:
        k = c["k"]
        x = copy.deepcopy(base)
        if k in ("requires",) and c["a"] in descs and c["b"] in descs:
            x[c["a"]] = x.get(c["a"], val(c["a"]))
            x.pop(c["b"], None)
            out.append(("constraint:%s_without_%s" % (c["a"], c["b"]), reorder(x)))
            falsy = {"boolean": False, "integer": 0, "float": 0.0, "string": ""}.get(descs[c["a"]]["kind"])
            # the same with nothing else wrong: whatever else hangs on the removed member goes with it, so that this constraint is the only one broken
            partners = [c2["b"] if c2["a"] == c["b"] else c2["a"] for c2 in t["constraints"] if c2["k"] == "iff_present" and c["b"] in (c2["a"], c2["b"])] + \
                       [c2["a"] for c2 in t["constraints"] if c2["k"] == "requires" and c2["b"] == c["b"] and c2["a"] != c["a"]]
            z = copy.deepcopy(x)
            for n2 in partners:
                z.pop(n2, None)
            if partners:
                out.append(("constraint:%s_without_%s_and_its_partners" % (c["a"], c["b"]), reorder(copy.deepcopy(z))))
            if falsy is not None and "fixed" not in descs[c["a"]] and (descs[c["a"]].get("min") is None or descs[c["a"]]["min"] <= 0):
                y = copy.deepcopy(z)                 # the constraint is about presence: zero / false / the empty string is present
                y[c["a"]] = falsy
                out.append(("constraint:%s_falsy_without_%s" % (c["a"], c["b"]), reorder(y)))
            siblings = [c2["a"] for c2 in t["constraints"] if c2["k"] == "requires" and c2["b"] == c["b"] and c2["a"] != c["a"]]
            if siblings:        # ... and alone: without the other members that require the same thing (a check that walks them in order may stop at the first absent one)
                y = copy.deepcopy(x)
                for n2 in siblings:
                    y.pop(n2, None)
                out.append(("constraint:%s_alone_without_%s" % (c["a"], c["b"]), reorder(y)))
                if descs[c["b"]]["kind"] == "boolean":
                    y2 = copy.deepcopy(y)
                    y2[c["b"]] = False
                    out.append(("constraint:%s_alone_with_%s_false" % (c["a"], c["b"]), reorder(y2)))
            if descs[c["b"]]["kind"] == "boolean":          # ... and with the required member present but false where the text says "if and only if true"
                y = copy.deepcopy(x)
                y[c["b"]] = False
                out.append(("constraint:%s_with_%s_false" % (c["a"], c["b"]), reorder(y)))
        elif k == "iff_present":
            for a, b in ((c["a"], c["b"]), (c["b"], c["a"])):
                y = copy.deepcopy(base)
                y[a] = y.get(a, val(a))
                y.pop(b, None)
                out.append(("constraint:%s_without_%s" % (a, b), reorder(y)))
        elif k == "mutex":
            for n in c["of"]:
                if n in descs and n not in x:
                    x[n] = val(n)
            out.append(("constraint:all_of_mutually_exclusive:%s" % c["of"][0], reorder(x)))
        elif k == "at_least_one":
            for n in c["of"]:
                x.pop(n, None)
            out.append(("constraint:none_of:%s" % c["of"][0], x))
            for n in c["of"]:                                # the constraint is about presence: a false / zero / empty member satisfies it
                if n in descs and descs[n]["kind"] in ("boolean", "integer", "string") and "fixed" not in descs[n]:
                    y = copy.deepcopy(x)
                    y[n] = {"boolean": False, "integer": 0, "string": ""}[descs[n]["kind"]]
                    out.append(("satisfied_by_falsy:%s" % n, reorder(y)))
        elif k in ("if_true_forbids", "if_false_forbids") and c["a"] in descs and c["b"] in descs:
            x[c["a"]] = (k == "if_true_forbids")
            x[c["b"]] = x.get(c["b"], val(c["b"]))
            out.append(("constraint:%s_%s_with_%s" % (c["a"], x[c["a"]], c["b"]), reorder(x)))
        elif k == "if_true" and c["a"] in descs:
            x[c["a"]] = True
            x.pop(c["b"], None)
            out.append(("constraint:%s_true_without_%s" % (c["a"], c["b"]), reorder(x)))
        elif k in ("le", "lt") and c["a"] in descs and c["b"] in descs:
            x[c["a"]], x[c["b"]] = "2021-01-01T00:00:01.000Z", "2021-01-01T00:00:00.000Z"
            out.append(("constraint:%s_after_%s" % (c["a"], c["b"]), reorder(x)))
            if k == "lt":
                y = copy.deepcopy(x)
                y[c["b"]] = y[c["a"]]
                out.append(("constraint:%s_equal_%s" % (c["a"], c["b"]), reorder(y)))
    return out


def corruptions(g, key, base, rng, quick):
    """(name, corrupted dict) single-point corruptions derived from the frozen model"""
    t = g.types[key]
    out = constraint_violations(g, key, base, t)
    for d in t["properties"]:
        n = d["name"]
        if (n in base or d["kind"] == "objectreference" or (d["kind"] == "list" and d["contained"]["kind"] == "objectreference")) and (d["kind"] in ("reference", "objectreference") or (d["kind"] == "list" and d["contained"]["kind"] in ("reference", "objectreference"))):
            # (2.0 container references are not in the generated instances: they are put in here)
            # structured junk and text with formatting characters where a reference is expected (references end up inside error messages)
            for nm, val in (("ref_object", {"a": 1}), ("ref_object_braces", {"{0}": "{x.y}"}), ("ref_text_braces", "{0.reason} {x} %s %(a)s"), ("ref_number", 7), ("ref_null", None)):
                x = copy.deepcopy(base)
                x[n] = copy.deepcopy(val) if d["kind"] != "list" else [copy.deepcopy(val)]
                out.append(("%s:%s" % (n, nm), x))
        if n not in base:
            continue
        if d["jsonreq"] and "fixed" not in d and d.get("default") not in ("UUID4", "NOW"):
            x = copy.deepcopy(base)
            x.pop(n)
            out.append(("%s:removed" % n, x))
        kinds = list(WRONG) if not quick else rng.sample(list(WRONG), 3)
        # the kinds a lax conversion lets through are always tried: true / false where a number is expected (a boolean is an integer to Python), numbers and numeric text
        # where a boolean or a string is expected
        near = {"integer": ["bool", "float", "str"], "float": ["bool", "str"], "boolean": ["int", "str"], "string": ["int", "bool"], "timestamp": ["int"], "enum": ["bool"]}.get(d["kind"], [])
        kinds = kinds + [k for k in near if k not in kinds]
        for wk in kinds:
            x = copy.deepcopy(base)
            x[n] = copy.deepcopy(WRONG[wk])
            out.append(("%s:wrongkind:%s" % (n, wk), x))
        if d["kind"] in ("list",):
            x = copy.deepcopy(base)
            x[n] = []
            out.append(("%s:empty_list" % n, x))
        if d["kind"] in ("dictionary", "hashes", "extensions"):
            x = copy.deepcopy(base)
            x[n] = {}
            out.append(("%s:empty_dict" % n, x))
        if d["kind"] in ("integer", "float"):
            for bound, delta in (("min", -1), ("max", 1)):
                if bound in d:
                    x = copy.deepcopy(base)
                    x[n] = d[bound] + delta
                    out.append(("%s:%s%+d" % (n, bound, delta), x))
            if d["kind"] == "float":
                for nm, val in (("nan", float("nan")), ("inf", float("inf"))):
                    x = copy.deepcopy(base)
                    x[n] = val
                    out.append(("%s:%s" % (n, nm), x))
        if d["kind"] == "enum":
            x = copy.deepcopy(base)
            x[n] = "not-in-the-vocabulary"
            out.append(("%s:out_of_vocab" % n, x))
        if d["kind"] in ("id", "reference") or (d["kind"] == "list" and d["contained"]["kind"] == "reference"):
            typ = base[n].split("--")[0] if isinstance(base[n], str) else base[n][0].split("--")[0]
            spell = {"nohyphen": typ + "--" + "1" * 12 + "4" + "1" * 3 + "8" + "1" * 15, "braces": typ + "--{11111111-1111-4111-8111-111111111111}", "urn": typ + "--urn:uuid:11111111-1111-4111-8111-111111111111",
                     "nil": typ + "--00000000-0000-0000-0000-000000000000", "short": typ + "--1111", "single_dash": typ + "-11111111-1111-4111-8111-111111111111",
                     "badvariant": typ + "--11111111-1111-4111-c111-111111111111", "uuid1_in_20": typ + "--11111111-1111-1111-8111-111111111111",
                     "double_separator": typ + "--x--11111111-1111-4111-8111-111111111111", "two_uuids": typ + "--11111111-1111-4111-8111-111111111111--11111111-1111-4111-8111-111111111112",
                     "empty_type": "--11111111-1111-4111-8111-111111111111", "trailing_text": typ + "--11111111-1111-4111-8111-111111111111x"}
            for nm, val in (spell.items() if not quick else rng.sample(sorted(spell.items()), 4)):
                x = copy.deepcopy(base)
                x[n] = val if isinstance(base[n], str) else [val]
                out.append(("%s:id_%s" % (n, nm), x))
            if d["kind"] != "id":
                for nm, val in (("unregistered_type", "x-unknown-type--11111111-1111-4111-8111-111111111111"), ("bundle_ref", "bundle--11111111-1111-4111-8111-111111111111"),
                                ("wrong_type", ("file" if g.v == "2.1" else "malware") + "--11111111-1111-4111-8111-111111111111"),
                                ("wrong_type2", "relationship--11111111-1111-4111-8111-111111111111")):
                    x = copy.deepcopy(base)
                    x[n] = val if isinstance(base[n], str) else [val]
                    out.append(("%s:ref_%s" % (n, nm), x))
        if d["kind"] == "timestamp":
            for nm, val in (("noZ", "2020-01-01T00:00:00"), ("space", "2020-01-01 00:00:00Z"), ("offset", "2020-01-01T00:00:00+01:00"), ("date", "2020-01-01"), ("month13", "2020-13-01T00:00:00Z"),
                            ("lowercase", "2020-01-01t00:00:00z"), ("epoch", "1577836800")):
                x = copy.deepcopy(base)
                x[n] = val
                out.append(("%s:ts_%s" % (n, nm), x))
        if d["kind"] == "hex":
            x = copy.deepcopy(base)
            x[n] = "xyz"
            out.append(("%s:not_hex" % n, x))
        if d["kind"] == "binary":
            x = copy.deepcopy(base)
            x[n] = "not base64 !!"
            out.append(("%s:not_base64" % n, x))
        if d["kind"] == "hashes":
            x = copy.deepcopy(base)
            x[n] = {"MD5": "zz"}
            out.append(("%s:bad_hash_value" % n, x))
            # values of another JSON kind that look like a digest once printed: a number with exactly as many digits as the digest has characters, and others
            for alg, ndig in (("MD5", 32), ("SHA-1", 40), ("SHA-256", 64), ("SHA-512", 128)):
                if alg in d.get("spec_hash_names", []):
                    for nm, val in (("digits_as_number", int("1" * ndig)), ("true", True), ("list", ["a" * ndig]), ("null", None), ("object", {"v": "a" * ndig}), ("float", float("1" * 15))):
                        x = copy.deepcopy(base)
                        x[n] = {alg: val}
                        out.append(("%s:hash_value_%s:%s" % (n, nm, alg), x))
        if d["kind"] in ("extensions", "embedded", "embeddedobject", "list") and n in base:
            for path in hash_dict_paths(base[n]):
                x = copy.deepcopy(base)
                h = x[n]
                for st in path[:-1]:
                    h = h[st]
                h[path[-1]] = {"MD5": int("1" * 32)}
                out.append(("%s.%s:hash_value_digits_as_number" % (n, ".".join(map(str, path))), x))
    if any(d["name"] == "granular_markings" for d in t["properties"]):
        names = [n for n in base if n != "granular_markings"]
        lists = [n for n in names if isinstance(base[n], list) and base[n]]
        good = names[min(2, len(names) - 1)]
        md = "marking-definition--11111111-1111-4111-8111-111111111111"
        for nm, sels in (("absent_property", ["x_not_there"]), ("good_then_absent", [good, "x_not_there"]), ("good_good_absent", [good, names[0], "zzz_absent"]),
                         ("index_past_end", [lists[0] + ".[%d]" % len(base[lists[0]])] if lists else ["type.[0]"]),
                         ("good_then_index_past_end", [good, (lists[0] + ".[%d]" % (len(base[lists[0]]) + 2)) if lists else "type.[0]"]), ("wrong_nesting", [good + ".inner"]),
                         ("second_marking_bad", None)):
            x = copy.deepcopy(base)
            if sels is None:
                x["granular_markings"] = [{"selectors": [good], "marking_ref": md}, {"selectors": ["x_not_there"], "marking_ref": md}]
            else:
                x["granular_markings"] = [{"selectors": sels, "marking_ref": md}]
            out.append(("granular_markings:selector_%s" % nm, x))
    x = copy.deepcopy(base)
    x["x_unknown_property"] = "v"
    out.append(("unknown_property", x))
    x = copy.deepcopy(base)
    x["foo"] = "v"
    out.append(("unknown_property_plain", x))
    for c in t["constraints"]:
        x = copy.deepcopy(base)
        if c["k"] in ("le", "lt") and c["a"] in x and c["b"] in x:
            x[c["a"]], x[c["b"]] = (x[c["b"]], x[c["a"]]) if c["k"] == "le" else (x[c["a"]], x[c["a"]])
            if c["k"] == "le" and x[c["a"]] == x[c["b"]]:
                continue
            out.append(("constraint:%s_%s_%s" % (c["k"], c["a"], c["b"]), x))
        elif c["k"] == "mutex":
            descs = {d["name"]: d for d in t["properties"]}
            for n in c["of"]:
                if n not in x:
                    x[n] = g.value(dict(descs[n]), 0, t["type"] or "")
            out.append(("constraint:mutex_" + c["of"][0], x))
        elif c["k"] == "at_least_one":
            for n in c["of"]:
                x.pop(n, None)
            out.append(("constraint:none_of_" + c["of"][0], x))
        elif c["k"] in ("requires", "iff_present") and c["a"] in x:
            x.pop(c["b"], None)
            out.append(("constraint:%s_without_%s" % (c["a"], c["b"]), x))
        elif c["k"] == "if_true":
            x[c["a"]] = True
            x.pop(c["b"], None)
            out.append(("constraint:%s_true_without_%s" % (c["a"], c["b"]), x))
    return out


_MODEL = {}


def with_resolvable_refs(v, key, d):
    """generated 2.0 observables carry no container references; where the type demands at least one of several members and the only candidates are references, the first
    one is supplied (it resolves: the scope is declared to hold everything)"""
    if v not in _MODEL:
        _MODEL[v] = json.load(open(lex.model_file(v)))["types"]
    t = _MODEL[v].get(key)
    if not t or not isinstance(d, dict):
        return d
    kinds = {p["name"]: p for p in t["properties"]}
    out = dict(d)
    for c in t["constraints"]:
        if c["k"] == "at_least_one" and not any(n in out for n in c["of"]):
            for n in c["of"]:
                if kinds.get(n, {}).get("kind") == "objectreference":
                    out[n] = "7"
                    break
    return out


def emit_one(v, key, how, d, entry, prime=False):
    line = {"kind": "emit", "v": v, "key": key, "ctx": how, "entry": entry, "strict": True, "ok": False, "family": True, "exc": "none", "doc": {"key": key, "props": []}, "input": d}
    if prime:
        # the same content goes through a permissive parse first (as an ingest pipeline does): what the library learns there must not relax a later strict call
        try:
            parse(d, v, strict=False, observable=is_obs20(key, v))
        except Exception:  # noqa
            pass
        line["ctx"] = how + "(after a permissive parse of the same content)"
    try:
        if entry == "parse":
            obj = parse(d, v, observable=is_obs20(key, v))
        elif entry == "parse_dict":
            obj = parse(d, v, text=False, observable=is_obs20(key, v))
        elif entry == "parse_refs_resolvable":
            # a STIX 2.0 observable built on its own, told that whatever it refers to exists in its scope (what a container does for its members, without the container's wrapping)
            import stix2
            obj = stix2.parse_observable(json.dumps(with_resolvable_refs(v, key, d)), _valid_refs=["*"], allow_custom=False, version=v)
        elif entry == "container_member":
            # a STIX 2.0 observable where it normally lives: as a member of an observed-data container (other code paths than a stand-alone observable)
            od = {"type": "observed-data", "id": "observed-data--11111111-1111-4111-8111-111111111111", "created": "2020-01-01T00:00:00.000Z", "modified": "2020-01-01T00:00:00.000Z",
                  "first_observed": "2020-01-01T00:00:00Z", "last_observed": "2020-01-01T00:00:00Z", "number_observed": 1, "objects": {"0": d}}
            whole = parse(od, v)
            out = out_json(whole)["objects"]["0"]
            line["ok"] = True
            line["doc"] = lex.doc(out, v, key)
            line["output"] = out
            return line
        else:
            import stix2.registry
            cls = stix2.registry.class_for_type(d.get("type"), v, key.split(":")[0]) if isinstance(d, dict) else None
            if cls is None:
                return None
            kw = {k: copy.deepcopy(val) for k, val in d.items()}
            obj = cls(**kw)
        out = out_json(obj)
        line["ok"] = True
        line["doc"] = lex.doc(out, v, key)
        line["output"] = out
    except Exception as e:  # noqa
        line["exc"] = type(e).__name__
        line["family"] = in_family(e)
        line["msg"] = message_of(e, line)[:160]
    return line


_OTHER_GEN = {}


def _other_gen(v, rng):
    o = "2.0" if v == "2.1" else "2.1"
    if o not in _OTHER_GEN:
        _OTHER_GEN[o] = schema.Gen(o, rng)
    return _OTHER_GEN[o]


def emit_lines(chk, quick, junk=True):
    rng = chk.rng
    lines = []
    for v in VERSIONS:
        g = schema.Gen(v, rng)
        keys = g.keys()
        for key in keys:
            bases = [g.instance(key, "max")] + ([g.instance(key, "rand")] if not quick else [])
            for base in bases:
                lines.append(emit_one(v, key, "valid_base", base, "parse"))
                cs = corruptions(g, key, base, rng, quick)
                # inter-property rules that only the OTHER spec version has, broken here: whether this version accepts such an object or not is not judged, but whatever
                # code was carried over from the other version must answer within the error family and emit valid output
                other = _other_gen(v, rng)
                if key in other.types:
                    names = {d["name"] for d in g.types[key]["properties"]}
                    foreign = [c for c in other.types[key]["constraints"] if c not in g.types[key]["constraints"]
                               and all(n in names for n in ([c.get("a"), c.get("b")] if "a" in c else c.get("of", [])) if n)]
                    foreign_cs = [("foreign_" + how, d) for how, d in constraint_violations(g, key, base, dict(g.types[key], constraints=foreign))]
                else:
                    foreign_cs = []
                if quick:
                    always = [c for c in cs if ":ref_object" in c[0] or ":ref_text_braces" in c[0] or c[0].startswith(("constraint:", "satisfied_by_falsy:", "granular_markings:selector_absent_property", "granular_markings:selector_index_past_end", "granular_markings:selector_second_marking_bad")) or "hash_value_digits_as_number" in c[0]
                              or c[0].endswith((":wrongkind:bool", ":wrongkind:int")) and any(p["name"] == c[0].split(":")[0] and p["kind"] in ("integer", "float", "boolean") for p in g.types[key]["properties"])]
                    cs = rng.sample(cs, min(len(cs), 28)) + always
                cs = cs + foreign_cs
                for how, d in cs:
                    entry = rng.choice(["parse", "parse", "constructor", "parse_dict"]) if quick and not how.startswith("foreign_") else None
                    ens = [entry] if entry else ["parse", "constructor", "parse_dict"]
                    if is_obs20(key, v) and (not quick or rng.random() < 0.5 or ":ref_" in how):
                        ens = ens + ["container_member"]
                    if is_obs20(key, v) and (not quick or how.startswith(("constraint:", "foreign_", "satisfied_by_falsy:")) or rng.random() < 0.3):
                        ens = ens + ["parse_refs_resolvable"]
                    for en in ens:
                        ln = emit_one(v, key, how, d, en, prime=(":ref_" in how or rng.random() < 0.35))
                        if ln is not None:
                            lines.append(ln)
        # the four TLP marking definitions the specifications fix (identifier, creation time, level), and near misses of their level
        for colour, uid in TLP_FIXED.items():
            base = {"type": "marking-definition", "id": "marking-definition--" + uid, "created": "2017-01-20T00:00:00.000Z", "definition_type": "tlp", "definition": {"tlp": colour}}
            if v == "2.1":
                base.update(spec_version="2.1", name="TLP:" + colour.upper())
            lines.append(emit_one(v, "objects:marking-definition", "tlp_fixed_instance", base, "parse"))
            for how, val in (("upper", colour.upper()), ("capitalised", colour.capitalize()), ("padded", colour + " "), ("other_level", "purple"), ("number", 1), ("list", [colour])):
                d = copy.deepcopy(base)
                d["definition"]["tlp"] = val
                for en in ("parse", "constructor"):
                    ln = emit_one(v, "objects:marking-definition", "tlp_level:" + how, d, en)
                    if ln is not None:
                        lines.append(ln)
    lines += object_ref_lines()
    lines += value_donor_lines(chk, quick)
    if junk:
        lines += junk_lines(chk, quick)
    return lines


def value_donor_lines(chk, quick):
    """property VALUES taken from library objects and handed to constructors / new_version: a timestamp value carries the precision rules of the property it came from
    (the other spec version, another property), and must still be written by the rules of the property that receives it"""
    import stix2
    import stix2.versioning
    lines = []
    for v in VERSIONS:
        m, o = (stix2.v20, stix2.v21) if v == "2.0" else (stix2.v21, stix2.v20)
        g = schema.Gen(v, chk.rng)
        donors = []
        for tag, mod in (("other_version", o), ("same_version", m)):
            for digits in ("123456", "120000", "000000", "999999"):
                try:
                    kw = {"identity_class": "individual"} if mod is stix2.v20 else {}
                    d = mod.Identity(name="donor", created="2019-01-01T00:00:00.%sZ" % digits, modified="2019-06-01T00:00:00.%sZ" % digits, **kw)
                    donors.append(("%s.%s" % (tag, digits), d.created, d.modified))
                    b = mod.Bundle(d)
                    donors.append(("%s.bundle_member.%s" % (tag, digits), b.objects[0].created, b.objects[0].modified))
                except Exception:  # noqa  (a donor that cannot be built is no case)
                    pass
        for key in g.keys():
            t = g.types[key]
            if is_obs20(key, v):
                continue
            tsp = [d["name"] for d in t["properties"] if d["kind"] == "timestamp"]
            if not tsp:
                continue
            import stix2.registry
            base = g.instance(key, "min")
            cls = stix2.registry.class_for_type(base.get("type"), v, key.split(":")[0]) if isinstance(base, dict) else None
            if cls is None:
                continue
            for tag, c, mo in (donors if not quick else chk.rng.sample(donors, min(6, len(donors))) + [x for x in donors if x[0] == "other_version.123456"]):
                variants = []
                if "created" in tsp and "modified" in tsp:
                    variants.append(("created+modified", {"created": c, "modified": mo}))
                for n in tsp:
                    if n not in ("created", "modified"):
                        variants.append((n, {n: mo}))
                for what, repl in variants:
                    line = {"kind": "emit", "v": v, "key": key, "ctx": "timestamp_value_from:%s:%s" % (tag, what), "entry": "constructor", "strict": True, "ok": False, "family": True,
                            "exc": "none", "doc": {"key": key, "props": []}, "input": {"generated": "value_donor_lines", "base": base, "donor": tag, "into": what}}
                    try:
                        kw = {k: copy.deepcopy(val) for k, val in base.items()}
                        kw.update(repl)
                        obj = cls(**kw)
                        out = out_json(obj)
                        line.update(ok=True, doc=lex.doc(out, v, key), output=out)
                    except Exception as e:  # noqa
                        line.update(exc=type(e).__name__, family=in_family(e), msg=str(e)[:160])
                    lines.append(line)
                    if "modified" in tsp and what == "created+modified":
                        line = {"kind": "emit", "v": v, "key": key, "ctx": "new_version_modified_from:%s" % tag, "entry": "new_version", "strict": True, "ok": False, "family": True,
                                "exc": "none", "doc": {"key": key, "props": []}, "input": {"generated": "value_donor_lines", "base": base, "donor": tag, "into": "new_version(modified=)"}}
                        try:
                            first = cls(**dict({k: copy.deepcopy(val) for k, val in base.items()}, created="2018-01-01T00:00:00.000Z", modified="2018-01-01T00:00:00.000Z"))
                            obj = stix2.versioning.new_version(first, modified=mo)
                            out = out_json(obj)
                            line.update(ok=True, doc=lex.doc(out, v, key), output=out)
                        except Exception as e:  # noqa
                            line.update(exc=type(e).__name__, family=in_family(e), msg=str(e)[:160])
                        lines.append(line)
    return lines


def object_ref_lines():
    """references given as library objects (the constructors accept an object wherever an identifier is expected): the object may have been built under other rules than the
    object that refers to it -- the other spec version, or interoperability mode -- and its identifier must still be checked by the rules of the referring object"""
    import stix2
    lines = []
    nil = "00000000-0000-0000-0000-000000000000"
    for v in VERSIONS:
        m, o = (stix2.v20, stix2.v21) if v == "2.0" else (stix2.v21, stix2.v20)
        donors = []
        try:
            donors.append(("other_version_identity_uuid1", o.Identity(id="identity--11111111-1111-1111-8111-111111111111", name="n", identity_class="individual")))
        except Exception:  # noqa
            pass
        try:
            donors.append(("v21_file_uuid5", stix2.v21.File(name="f")))
        except Exception:  # noqa
            pass
        for modname, mod in (("same_version", m), ("other_version", o)):
            try:
                donors.append(("interoperability_identity_nil_uuid:" + modname, mod.Identity(id="identity--" + nil, name="n", identity_class="individual", interoperability=True)))
                donors.append(("interoperability_malware_nil_uuid:" + modname, mod.Malware(id="malware--" + nil, name="n", interoperability=True,
                                                                                            **({"is_family": False} if mod is stix2.v21 else {"labels": ["x"]}))))
            except Exception:  # noqa
                pass
        for dname, donor in donors:
            for how, build in (
                    ("created_by_ref", lambda: m.Campaign(name="c", created_by_ref=donor)),
                    ("object_refs", lambda: m.Report(name="r", published="2020-01-01T00:00:00Z", object_refs=[donor], **({"report_types": ["x"]} if v == "2.1" else {"labels": ["threat-report"]}))),
                    ("sighting_of_ref", lambda: m.Sighting(sighting_of_ref=donor)),
                    ("relationship_target", lambda: m.Relationship(source_ref="campaign--11111111-1111-4111-8111-111111111111", relationship_type="uses", target_ref=donor)),
                    ("relationship_positional", lambda: m.Relationship(donor, "uses", "malware--11111111-1111-4111-8111-111111111111"))):
                key = {"created_by_ref": "objects:campaign", "object_refs": "objects:report", "sighting_of_ref": "objects:sighting"}.get(how, "objects:relationship")
                line = {"kind": "emit", "v": v, "key": key, "ctx": "object_valued_reference:%s:%s" % (how, dname), "entry": "constructor", "strict": True, "ok": False, "family": True,
                        "exc": "none", "doc": {"key": key, "props": []}, "input": {"generated": "object_valued_reference:%s:%s" % (how, dname)}}
                try:
                    out = out_json(build())
                    line["ok"] = True
                    line["doc"] = lex.doc(out, v, key)
                    line["output"] = out
                except Exception as e:  # noqa
                    line["exc"] = type(e).__name__
                    line["family"] = in_family(e)
                    line["msg"] = message_of(e, line)[:160]
                lines.append(line)
    # library objects given as members of an observed-data container: built under their own rules (the other spec version; their own table of valid references), they are
    # emitted as part of the container and must be valid there
    for v in VERSIONS:
        m, o = (stix2.v20, stix2.v21) if v == "2.0" else (stix2.v21, stix2.v20)
        members = []
        try:
            members.append(("file_of_other_version", {"0": o.File(name="f")}))
            members.append(("file_of_other_version_beside_a_dictionary", {"0": {"type": "file", "name": "g"}, "1": o.File(name="f")}))
        except Exception:  # noqa
            pass
        if v == "2.0":
            try:
                members.append(("directory_with_reference_valid_elsewhere", {"0": m.Directory(path="/", contains_refs=["5"], _valid_refs={"5": "file"})}))
                members.append(("file_with_reference_to_key_of_other_type", {"0": m.File(name="f", parent_directory_ref="1", _valid_refs={"1": "directory"}), "1": {"type": "file", "name": "g"}}))
            except Exception:  # noqa
                pass
        for how, objs in members:
            line = {"kind": "emit", "v": v, "key": "objects:observed-data", "ctx": "object_valued_container_member:" + how, "entry": "constructor", "strict": True, "ok": False, "family": True,
                    "exc": "none", "doc": {"key": "objects:observed-data", "props": []}, "input": {"generated": "object_valued_container_member:" + how}}
            try:
                out = out_json(m.ObservedData(first_observed="2020-01-01T00:00:00Z", last_observed="2020-01-01T00:00:00Z", number_observed=1, objects=objs))
                line["ok"] = True
                line["doc"] = lex.doc(out, v, "objects:observed-data")
                line["output"] = out
            except Exception as e:  # noqa
                line["exc"] = type(e).__name__
                line["family"] = in_family(e)
                line["msg"] = message_of(e, line)[:160]
            lines.append(line)
    return lines


TLP_FIXED = {"white": "613f2e26-407d-48c7-9eca-b8e91df99dc9", "green": "34098fce-860f-48ae-8e50-ebd3cc5e41da", "amber": "f88d31f6-486f-44da-b317-01333bde0b82",
             "red": "5e57c739-391a-4eb3-b6be-7d15ca92d5ed"}


def rand_json(rng, depth):
    k = rng.random()
    if depth <= 0 or k < 0.5:
        return rng.choice([None, True, False, 0, -1, 2 ** 63, 1.5, "", "x", "type", "2020-01-01T00:00:00Z", "identity--11111111-1111-4111-8111-111111111111", [], {}])
    if k < 0.75:
        return [rand_json(rng, depth - 1) for _ in range(rng.randint(0, 3))]
    return {rng.choice(["type", "id", "objects", "extensions", "spec_version", "a", "x_c", "definition_type", "granular_markings", "0"]): rand_json(rng, depth - 1) for _ in range(rng.randint(0, 4))}


def junk_lines(chk, quick):
    """C17: arbitrary JSON as the whole input; valid objects with one or several slots replaced by arbitrary JSON; inspected members of every kind"""
    import stix2
    rng = chk.rng
    lines = []
    for i in range(300 if quick else 6000):
        d = rand_json(rng, 3)
        lines.append(junk_one("whole_input", d, None, rng.choice([True, False])))
    inspected = ["type", "id", "spec_version", "objects", "extensions", "granular_markings", "object_marking_refs", "definition_type", "definition", "pattern", "custom_properties",
                 "external_references", "kill_chain_phases", "hashes", "created_by_ref"]
    for v in VERSIONS:
        g = schema.Gen(v, rng)
        keys = g.keys() + ["objects:bundle"]
        for key in keys:
            if key == "objects:bundle":
                base = {"type": "bundle", "id": "bundle--11111111-1111-4111-8111-111111111111", "objects": [g.instance("objects:identity", "min")]}
                if v == "2.0":
                    base["spec_version"] = "2.0"
            else:
                base = g.instance(key, "max")
            for n in inspected:
                for wk, val in WRONG.items():
                    if quick and rng.random() < 0.75:
                        continue
                    x = copy.deepcopy(base)
                    x[n] = copy.deepcopy(val)
                    lines.append(junk_one("%s:%s:%s" % (key, n, wk), x, v, rng.choice([True, False]), observable=is_obs20(key, v)))
                if n in base:
                    x = copy.deepcopy(base)
                    x.pop(n)
                    lines.append(junk_one("%s:%s:removed" % (key, n), x, v, True, observable=is_obs20(key, v)))
            for _ in range(2 if quick else 10):
                x = copy.deepcopy(base)
                for n in rng.sample(sorted(x), min(len(x), rng.randint(1, 3))):
                    x[n] = rand_json(rng, 2)
                lines.append(junk_one("%s:multi" % key, x, v, rng.choice([True, False]), observable=is_obs20(key, v)))
            # junk inside embedded objects, extensions and members
            for n, val in list(base.items()):
                if isinstance(val, dict) and val:
                    k0 = sorted(val)[0]
                    for wk in (("null", "int", "list", "str") if not quick else (rng.choice(["null", "int", "list", "str"]),)):
                        x = copy.deepcopy(base)
                        x[n][k0] = copy.deepcopy(WRONG[wk])
                        lines.append(junk_one("%s:%s.%s:%s" % (key, n, k0, wk), x, v, rng.choice([True, False]), observable=is_obs20(key, v)))
                elif isinstance(val, list) and val and isinstance(val[0], dict):
                    k0 = sorted(val[0])[0]
                    for wk in (("null", "int", "list", "dict") if not quick else (rng.choice(["null", "int", "list", "dict"]),)):
                        x = copy.deepcopy(base)
                        x[n][0][k0] = copy.deepcopy(WRONG[wk])
                        lines.append(junk_one("%s:%s[0].%s:%s" % (key, n, k0, wk), x, v, rng.choice([True, False]), observable=is_obs20(key, v)))
    # members of containers that lack what dispatch looks at; odd custom member names; both with and without a named version
    for v in VERSIONS:
        g = schema.Gen(v, rng)
        ident = g.instance("objects:identity", "min")
        bundle = {"type": "bundle", "id": "bundle--11111111-1111-4111-8111-111111111111"}
        if v == "2.0":
            bundle["spec_version"] = "2.0"
        for how, members in (("member_without_type", [{}]), ("member_without_type2", [{"id": "identity--11111111-1111-4111-8111-111111111111", "name": "n"}]), ("member_null", [None]),
                             ("member_string", ["x"]), ("member_list", [[ident]]), ("members_empty", []), ("member_type_number", [{"type": 5}]), ("member_type_list", [{"type": []}]),
                             ("nested_bundle", [dict(bundle, objects=[ident])]), ("NO_OBJECTS_MEMBER", None)):
            for strict in (True, False):
                for tag in ("a", "b"):      # two tags: one lands on the named-version path, one on detection
                    lines.append(junk_one("bundle_%s_%s" % (how, tag), dict(bundle, objects=members) if members is not None else dict(bundle), v, strict))
        # a member whose own inspected members (what version detection and dispatch read before any cleaning) are of the wrong JSON kind
        for mk in ("type", "id", "spec_version", "extensions", "created", "modified"):
            for wk in WRONG:
                for tag in ("a", "b"):
                    lines.append(junk_one("bundle_member_%s_%s_%s" % (mk, wk, tag), dict(bundle, objects=[dict(ident, **{mk: copy.deepcopy(WRONG[wk])})]), v, tag == "a"))
                lines.append(junk_one("bundle_second_member_%s_%s" % (mk, wk), dict(bundle, objects=[ident, dict(ident, **{mk: copy.deepcopy(WRONG[wk])})]), v, True))
        od = g.instance("objects:observed-data", "max")
        od.pop("object_refs", None)
        for how, objs in (("entry_without_type", {"0": {}}), ("entry_without_type2", {"0": {"name": "foo.exe"}}), ("entry_null", {"0": None}), ("entry_string", {"0": "x"}),
                          ("entry_type_number", {"0": {"type": 7}}), ("entry_list", {"0": [{"type": "file", "name": "f"}]}), ("entries_as_list", [{"type": "file", "name": "f"}]),
                          ("key_not_string_like", {"": {"type": "file", "name": "f"}})):
            for strict in (True, False):
                for tag in ("a", "b"):
                    lines.append(junk_one("observed-data_%s_%s" % (how, tag), dict(od, objects=objs), v, strict))
        for name in ("", " ", "7up", "Xa", "a b", "x", "ab", "extensions.", "\u00e9t\u00e9", "type ", "a" * 300):
            for tag in ("a", "b"):
                lines.append(junk_one("custom_member_name_%r_%s" % (name[:6], tag), dict(ident, **{name: "v"}), v, False))
                lines.append(junk_one("custom_member_name_%r_strict_%s" % (name[:6], tag), dict(ident, **{name: "v"}), v, True))
    # marking definitions with every subset of definition_type / definition / extensions present (2.1 lets extensions stand in for the definition)
    extdef = {"extension-definition--11111111-1111-4111-8111-111111111111": {"extension_type": "property-extension", "a": 1}}
    for v in VERSIONS:
        for dt_, dfn in (("tlp", {"tlp": "white"}), ("statement", {"statement": "x"}), ("x-unknown", {"k": "v"})):
            for keep in ((), ("definition_type",), ("definition",), ("definition_type", "definition")):
                for with_ext in (False, True):
                    if with_ext and v == "2.0":
                        continue
                    d = {"type": "marking-definition", "id": "marking-definition--" + (TLP_FIXED["white"] if dt_ == "tlp" else "11111111-1111-4111-8111-111111111111"),
                         "created": "2017-01-20T00:00:00.000Z"}
                    if v == "2.1":
                        d["spec_version"] = "2.1"
                    if "definition_type" in keep:
                        d["definition_type"] = dt_
                    if "definition" in keep:
                        d["definition"] = dict(dfn)
                    if with_ext:
                        d["extensions"] = copy.deepcopy(extdef)
                    for strict in (True, False):
                        ln = junk_one("marking_definition_%s_keeps_%s_%s" % (dt_, "+".join(keep) or "nothing", "ext" if with_ext else "noext"), d, v, strict)
                        ln["strict"] = False          # (judged for the error family only)
                        ln.pop("output", None)
                        ln["doc"] = {"key": "objects:?", "props": []}
                        lines.append(ln)
    # free-form content (an extension definition the library does not know, a custom property) of an observable whose identifier the library computes from it:
    # numbers without a JSON form, very large numbers, deep nesting
    for nm, val in (("huge_int", 10 ** 400), ("huge_negative_int", -10 ** 400), ("nan", float("nan")), ("inf", float("inf")), ("big_float", 1e308), ("minus_zero", -0.0),
                    ("int_2_63", 2 ** 63), ("nested_huge", {"k": [1, {"z": 10 ** 400}]}), ("list_of_nan", [float("nan")])):
        for where in ("unknown_extension", "custom_property"):
            d = {"type": "file", "spec_version": "2.1", "name": "f"}
            if where == "unknown_extension":
                d["extensions"] = {"extension-definition--11111111-1111-4111-8111-111111111111": {"extension_type": "property-extension", "a": val}}
            else:
                d["x_free"] = val
            for strict in (True, False):
                ln = junk_one("free_form_number_%s_in_%s" % (nm, where), d, "2.1", strict)
                ln["strict"] = False
                ln.pop("output", None)
                ln["doc"] = {"key": "objects:?", "props": []}
                ln["input"] = {"generated": "free_form_number_%s_in_%s" % (nm, where)}
                lines.append(ln)
    # registered extensions (toplevel and property extensions) whose content claims another extension type, or carries the other kind's members
    c = custom_types()
    g21 = schema.Gen("2.1", rng)
    ident21 = g21.instance("objects:identity", "min")
    for ext_id, members in (("extension-definition--aaaaaaaa-1111-4111-8111-111111111111", {"rank": 1}), ("extension-definition--cccccccc-1111-4111-8111-111111111111", {"depth": 1})):
        for et in ("property-extension", "toplevel-property-extension", "new-sdo", "new-sco", "new-sro", "", None, 5, ["toplevel-property-extension"]):
            for where in ("inside", "toplevel"):
                ext = dict(members) if where == "inside" else {}
                if et is not None:
                    ext["extension_type"] = et
                d = dict(ident21, extensions={ext_id: ext}, **(members if where == "toplevel" else {}))
                for strict in (True, False):
                    ln = junk_one("registered_extension_claims_%r_%s_%s" % (et, where, ext_id[22:23]), d, "2.1", strict)
                    ln["strict"] = False        # these extensions are registered by the harness, the frozen model does not know them: the output is not judged (C17 only)
                    ln.pop("output", None)
                    ln["doc"] = {"key": "objects:?", "props": []}
                    lines.append(ln)
    # deep nesting (termination)
    for depth in (200, 400):          # 400/800 JSON nesting levels: still decodable by this interpreter's json module
        deep = "x"
        for _ in range(depth):
            deep = {"a": [deep]}
        for tag in ("a", "b"):
            lines.append(junk_one("deep_nesting_%d_string_property_%s" % (depth, tag), {"type": "identity", "spec_version": "2.1", "id": "identity--11111111-1111-4111-8111-111111111111", "name": deep}, "2.1", True))
            lines.append(junk_one("deep_nesting_%d_extension_%s" % (depth, tag), {"type": "file", "spec_version": "2.1", "id": "file--11111111-1111-4111-8111-111111111111", "name": "f", "extensions": {"ntfs-ext": {"alternate_data_streams": [{"name": deep}]}}}, "2.1", False))
            lines.append(junk_one("deep_nesting_%d_custom_%s" % (depth, tag), {"type": "identity", "spec_version": "2.1", "id": "identity--11111111-1111-4111-8111-111111111111", "name": "n", "x_deep": deep}, "2.1", False))
            lines.append(junk_one("deep_nesting_%d_dictionary_%s" % (depth, tag), {"type": "network-traffic", "spec_version": "2.1", "id": "network-traffic--11111111-1111-4111-8111-111111111111", "protocols": ["tcp"], "src_ref": "ipv4-addr--11111111-1111-4111-8111-111111111111", "ipfix": deep}, "2.1", True))
    deep = "x"
    for _ in range(150):
        deep = {"a": [deep]}
    lines.append(junk_one("deep_nesting_150", {"type": "identity", "id": "identity--11111111-1111-4111-8111-111111111111", "name": deep}, "2.1", True))
    lines.append(junk_one("deep_nesting_150_ext", {"type": "file", "name": "f", "extensions": deep}, "2.1", False))
    return lines


def junk_one(how, d, v, strict, observable=False):
    if isinstance(d, dict) and "custom_properties" in d:
        strict = False       # the custom_properties keyword is itself the request for customisation (documented API): no strict-mode obligation
    line = {"kind": "emit", "v": v or "2.1", "key": lex.key_for(d, v or "2.1") if isinstance(d, dict) else "objects:?", "ctx": "junk:" + how, "entry": "parse", "strict": strict, "ok": False,
            "family": True, "exc": "none", "doc": {"key": "objects:?", "props": []}, "input": d}
    try:
        # the version is named or left to detection (both paths inspect raw input)
        named = v if (zlib.crc32(how.encode()) % 2 == 0 or (observable and isinstance(d, dict))) else None
        line["version_named"] = named is not None
        obj = parse(d, named, strict=strict, observable=observable and isinstance(d, dict))
        out = out_json(obj)
        line["ok"] = True
        if isinstance(out, dict) and strict and hasattr(obj, "serialize"):
            if named is None:
                # the version was left to detection: the output is held to the version the library decided on
                mod = type(obj).__module__
                line["v"] = "2.0" if ".v20." in mod or mod.endswith(".v20") else "2.1" if ".v21." in mod or mod.endswith(".v21") else line["v"]
            line["doc"] = lex.doc(out, line["v"], None)
            line["key"] = line["doc"]["key"]
            line["output"] = out
        else:
            line["strict"] = False       # nothing validated was produced (pass-through dictionary in permissive mode)
    except RecursionError as e:
        line.update(exc="RecursionError", family=False)
    except Exception as e:  # noqa
        line["exc"] = type(e).__name__
        line["family"] = in_family(e)
        line["msg"] = message_of(e, line)[:160]
    if how.startswith("deep_nesting"):
        # what matters here is termination and the class of what escapes; the (very deep) output is not re-validated
        line["input"] = {"generated": how}
        line.pop("output", None)
        line["doc"] = {"key": "objects:?", "props": []}
        line["strict"] = False
    return line


def deep_registry_snapshot():
    """the registries and what every registered class says about itself (its property tables by name and identity)"""
    import stix2.registry
    snap = {}
    for v, cats in stix2.registry.STIX2_OBJ_MAPS.items():
        for c, m in cats.items():
            for k, cls in m.items():
                tables = []
                for attr in ("_properties", "_toplevel_properties", "_id_contributing_properties"):
                    t = getattr(cls, attr, None)
                    if isinstance(t, dict):
                        tables.append((attr, [(n, id(p)) for n, p in t.items()]))
                    elif isinstance(t, (list, tuple)):
                        tables.append((attr, list(t)))
                snap["%s/%s/%s" % (v, c, k)] = (id(cls), tables, getattr(cls, "_type", None), getattr(cls, "extension_type", None))
    return snap


def refused_extension_objects():
    A, B, C = ("extension-definition--%s-1111-4111-8111-111111111111" % (x * 8) for x in "abc")
    tl = {"extension_type": "toplevel-property-extension"}
    ident = {"type": "identity", "spec_version": "2.1", "id": "identity--11111111-1111-4111-8111-111111111111", "created": "2020-01-01T00:00:00.000Z", "modified": "2020-01-01T00:00:00.000Z", "name": "n"}
    return [("two_toplevel_extensions_required_member_missing", dict(ident, extensions={A: dict(tl), B: dict(tl)}, rank=1)),
            ("two_toplevel_extensions_reversed_wrong_kind", dict(ident, extensions={B: dict(tl), A: dict(tl)}, rank="x", weight=[])),
            ("two_toplevel_extensions_bad_host", dict(ident, extensions={A: dict(tl), B: dict(tl)}, rank=1, weight=2, name=5)),
            ("toplevel_and_property_extension_bad_member", dict(ident, extensions={A: dict(tl), C: {"extension_type": "property-extension", "depth": "deep"}}, rank=1)),
            ("three_extensions_bad_claim", dict(ident, extensions={C: dict(tl), A: dict(tl), B: {"extension_type": "property-extension"}}, rank=1, weight=1))]


def state_lines(chk):
    """C17: a failed construction / parse / add leaves registries and stores as they were"""
    import stix2
    import stix2.registry
    lines = []

    reg_snapshot = deep_registry_snapshot
    custom_types()
    store = stix2.MemoryStore()
    store.add(stix2.v21.Identity(name="kept"))
    for how, data in (("bad_object", {"type": "identity", "id": "identity--bad", "name": 5}), ("bad_member_in_list", [stix2.v21.Identity(name="ok"), {"type": "identity", "name": []}]),
                      ("junk", [[None]]), ("no_type", {"id": "x"})):
        before_r, before_s = reg_snapshot(), sorted(o.serialize() for o in store.query())
        try:
            store.add(data, version="2.1")
        except Exception:  # noqa
            failed = True
        else:
            failed = False
        after_s = sorted(o.serialize() for o in store.query())
        if failed:
            # objects of a list that were added before the failing one legitimately stay; nothing already stored may change
            lines.append({"kind": "state", "how": "MemoryStore.add:" + how, "unchanged": set(before_s) <= set(after_s) and before_r == reg_snapshot()})
    for how, fn in (("CustomObject_bad_name", lambda: stix2.v21.CustomObject("x_bad", [("p", stix2.properties.StringProperty())])(type("C", (), {}))),
                    ("CustomObject_duplicate", lambda: stix2.v21.CustomObject("identity", [("p", stix2.properties.StringProperty())])(type("C", (), {}))),
                    ("parse_failure", lambda: stix2.parse({"type": "indicator", "pattern": 5}))) + tuple(
                        # objects that claim several registered extensions at once and are refused: what the registered classes say afterwards is what they said before
                        ("refused_object_with_extensions:%s:%s" % (nm, "strict" if strict else "permissive"),
                         (lambda d=d, strict=strict: stix2.parse(copy.deepcopy(d), allow_custom=not strict))) for strict in (True, False) for nm, d in refused_extension_objects()):
        before = reg_snapshot()
        try:
            fn()
        except Exception:  # noqa
            pass
        lines.append({"kind": "state", "how": how, "unchanged": before == reg_snapshot()})
    return lines


# ------------------------------------------------------------------------------------------------ C01: roundtrip
OPTION_SETS = [dict(pretty=p, sort_keys=s, include_optional_defaults=i, **({"indent": n} if n else {})) for p in (False, True) for s in (False, True) for i in (False, True) for n in (None, 2)]


def native_ts(text, rng):
    import datetime as dt
    from stix2.utils import STIXdatetime, parse_into_datetime
    b = parse_into_datetime(text)
    val = dt.datetime(b.year, b.month, b.day, b.hour, b.minute, b.second, rng.choice([123456, 999999, 1, 500, 120000, 0]), tzinfo=dt.timezone.utc)
    form = rng.choice(["datetime", "any:exact", "millisecond:exact", "millisecond:min", "second:exact", "second:min"])
    if form == "datetime":
        return val
    p, c = form.split(":")
    return STIXdatetime(val, precision=p, precision_constraint=c)


def roundtrip_objects(chk, quick):
    """library objects of every type (strict and with custom content), bundles, containers, registered custom types"""
    import stix2
    rng = chk.rng
    objs = []
    for v in VERSIONS:
        g = schema.Gen(v, rng)
        members = []
        for key in g.keys():
            for mode in (("max", "rand") if quick else ("min", "max", "rand", "rand", "rand")):
                d = g.instance(key, mode)
                try:
                    o = parse(d, v, observable=is_obs20(key, v))
                except Exception:  # noqa  (C03's business)
                    continue
                objs.append((v, key, mode, o))
                if not is_obs20(key, v):
                    members.append(o)
                # ... and with the times the library generates itself (no created / modified / valid_from given: the wall clock, with microseconds)
                gen_names = [p["name"] for p in g.types[key]["properties"] if p.get("default") == "NOW" and p["name"] in d]
                if gen_names and not is_obs20(key, v) and rng.random() < (0.5 if quick else 1.0):
                    kw = {k: val for k, val in copy.deepcopy(d).items() if k != "type" and k not in gen_names}
                    try:
                        import stix2.registry
                        objs.append((v, key, mode + "+generated_times", stix2.registry.class_for_type(d["type"], v)(**kw)))
                    except Exception:  # noqa  (e.g. a given time now earlier than a generated one: C03's business)
                        pass
                # the same content given the way a Python caller gives it: timestamps as datetime / STIXdatetime values that carry their own precision labels and finer digits
                tprops = [p["name"] for p in g.types[key]["properties"] if p["kind"] == "timestamp" and isinstance(d.get(p["name"]), str)]
                if tprops and not is_obs20(key, v) and rng.random() < (0.5 if quick else 1.0):
                    kw = {k: val for k, val in copy.deepcopy(d).items() if k != "type"}
                    for n in tprops:
                        kw[n] = native_ts(d[n], rng)
                    try:
                        import stix2.registry
                        cls = stix2.registry.class_for_type(d["type"], v)
                        objs.append((v, key, mode + "+native_timestamps", cls(**kw)))
                    except Exception:  # noqa  (refusals are C03's business)
                        pass
                if rng.random() < (0.3 if quick else 0.6) and not is_obs20(key, v):
                    d2 = copy.deepcopy(d)
                    d2["x_custom_" + rng.choice(["a", "b"])] = rng.choice(["v", 5, ["l"], {"k": "v"}, False])
                    try:
                        objs.append((v, key, mode + "+custom", parse(d2, v, strict=False)))
                    except Exception:  # noqa
                        pass
        mod = stix2.v20 if v == "2.0" else stix2.v21
        for n in (1, 3):
            try:
                objs.append((v, "objects:bundle", "bundle%d" % n, mod.Bundle(rng.sample(members, min(n, len(members))), allow_custom=True)))
            except Exception:  # noqa
                pass
        if v == "2.0":
            od = {"type": "observed-data", "id": "observed-data--11111111-1111-4111-8111-111111111111", "created": "2020-01-01T00:00:00.000Z", "modified": "2020-01-01T00:00:00.000Z",
                  "first_observed": "2020-01-01T00:00:00Z", "last_observed": "2020-01-01T00:00:00.5Z", "number_observed": 2,
                  "objects": {"0": {"type": "file", "name": "f", "size": 0, "extensions": {"ntfs-ext": {"sid": "s"}}}, "1": {"type": "directory", "path": "/", "contains_refs": ["0"]},
                              "2": {"type": "email-message", "is_multipart": False, "subject": "Ünï\U0001f600"}}}
            objs.append((v, "objects:observed-data", "container", parse(od, v)))
    return objs


_CUSTOM = {}


def custom_types():
    """registered custom object / observable types and two top-level-property extensions (C19: they enjoy the same guarantees)"""
    if _CUSTOM:
        return _CUSTOM
    import stix2
    from stix2.properties import BooleanProperty, IntegerProperty, ListProperty, StringProperty, TimestampProperty

    # the library meets content of these types BEFORE they are registered (an ingest pipeline that sees a feed first and learns its types later): whatever it
    # concluded then must not outlive the registration
    ts = {"created": "2020-01-01T00:00:00.000Z", "modified": "2020-01-01T00:00:00.000Z"}
    early = [({"type": "x-verif-rt", "spec_version": "2.1", "id": "x-verif-rt--11111111-1111-4111-8111-111111111111", "name": "n", **ts}, "2.1", False),
             ({"type": "x-verif-rt", "id": "x-verif-rt--11111111-1111-4111-8111-111111111111", "name": "n", **ts}, "2.0", False),
             ({"type": "x-verif-rt-obs", "spec_version": "2.1", "id": "x-verif-rt-obs--11111111-1111-4111-8111-111111111111", "value": "v"}, "2.1", False),
             ({"type": "x-verif-rt-obs", "value": "v"}, "2.1", True), ({"type": "x-verif-rt-obs", "value": "v"}, "2.0", True),
             ({"type": "identity", "spec_version": "2.1", "id": "identity--11111111-1111-4111-8111-111111111111", "name": "n", "rank": 1, **ts,
               "extensions": {"extension-definition--aaaaaaaa-1111-4111-8111-111111111111": {"extension_type": "toplevel-property-extension"},
                              "extension-definition--cccccccc-1111-4111-8111-111111111111": {"extension_type": "property-extension", "depth": 1}}}, "2.1", False)]
    for d, v, obs in early:
        for strict in (False, True):
            for ver in (None, v):
                for wrapped in (False, True):
                    try:
                        if obs:
                            stix2.parse_observable(copy.deepcopy(d), allow_custom=not strict, version=ver)
                        elif wrapped:
                            stix2.parse({"type": "bundle", "id": "bundle--11111111-1111-4111-8111-111111111111", "objects": [copy.deepcopy(d)], **({"spec_version": "2.0"} if v == "2.0" else {})},
                                        allow_custom=not strict, version=ver)
                        else:
                            stix2.parse(copy.deepcopy(d), allow_custom=not strict, version=ver)
                    except Exception:  # noqa  (refusals of unregistered content are expected here)
                        pass
    try:
        stix2.parse({"type": "observed-data", "id": "observed-data--11111111-1111-4111-8111-111111111111", **ts, "first_observed": "2020-01-01T00:00:00Z", "last_observed": "2020-01-01T00:00:00Z",
                     "number_observed": 1, "objects": {"0": {"type": "x-verif-rt-obs", "value": "v"}}}, allow_custom=True, version="2.0")
    except Exception:  # noqa
        pass

    @stix2.v21.CustomObject("x-verif-rt", [("name", StringProperty(required=True)), ("level", IntegerProperty()), ("flag", BooleanProperty(default=lambda: False)),
                                           ("tags", ListProperty(StringProperty)), ("seen", TimestampProperty())])
    class XVerifRt(object):
        pass

    @stix2.v20.CustomObject("x-verif-rt", [("name", StringProperty(required=True)), ("level", IntegerProperty()), ("seen", TimestampProperty())])
    class XVerifRt20(object):
        pass

    @stix2.v21.CustomObservable("x-verif-rt-obs", [("value", StringProperty(required=True)), ("count", IntegerProperty())], ["value"])
    class XVerifRtObs(object):
        pass

    @stix2.v21.CustomExtension("extension-definition--aaaaaaaa-1111-4111-8111-111111111111", [("rank", IntegerProperty(required=True))])
    class ExtA(object):
        extension_type = "toplevel-property-extension"

    @stix2.v21.CustomExtension("extension-definition--bbbbbbbb-1111-4111-8111-111111111111", [("weight", IntegerProperty(required=True)), ("shade", StringProperty(default=lambda: "grey"))])
    class ExtB(object):
        extension_type = "toplevel-property-extension"

    @stix2.v21.CustomExtension("extension-definition--cccccccc-1111-4111-8111-111111111111", [("depth", IntegerProperty())])
    class ExtC(object):
        extension_type = "property-extension"
    _CUSTOM.update(rt=XVerifRt, rt20=XVerifRt20, obs=XVerifRtObs, a=ExtA, b=ExtB, c=ExtC)
    return _CUSTOM


def reuse_and_custom_objects(chk):
    """objects built from values of other objects, objects of registered custom types, objects carrying registered extensions
    -- in an order that alternates single and combined top-level extensions"""
    import stix2
    c = custom_types()
    out = []
    src = stix2.parse({"type": "identity", "spec_version": "2.1", "id": "identity--11111111-1111-4111-8111-111111111111", "created": "2020-01-01T00:00:00.123456Z",
                       "modified": "2020-01-01T00:00:01.654321Z", "name": "src", "identity_class": "individual"})
    for v, mod in (("2.0", stix2.v20), ("2.1", stix2.v21)):
        for cls, extra in (("Identity", {"identity_class": "individual"}), ("Campaign", {}), ("Malware", {"labels": ["ransomware"]} if v == "2.0" else {"is_family": False})):
            try:
                out.append((v, "objects:" + cls.lower(), "built_from_values_of_another_object",
                            getattr(mod, cls)(name="n", created=src["created"], modified=src["modified"], **extra)))
            except Exception:  # noqa
                pass
    try:
        out.append(("2.1", "objects:language-content", "built_from_values_of_another_object",
                    stix2.v21.LanguageContent(object_ref=src["id"], object_modified=src["modified"], contents={"de": {"name": "quelle"}})))
    except Exception:  # noqa
        pass
    out.append(("2.1", "objects:x-verif-rt", "registered_custom_object", c["rt"](name="n", level=0, tags=["a", "a"], seen="2020-01-01T00:00:00.5Z")))
    out.append(("2.1", "objects:x-verif-rt", "registered_custom_object_min", c["rt"](name="")))
    out.append(("2.0", "objects:x-verif-rt", "registered_custom_object", c["rt20"](name="n", level=7, seen="2020-01-01T00:00:00Z")))
    out.append(("2.1", "observables:x-verif-rt-obs", "registered_custom_observable", c["obs"](value="v", count=0)))
    a, b, cc = c["a"]._type, c["b"]._type, c["c"]._type
    tl = {"extension_type": "toplevel-property-extension"}
    seq = [("ext_A", dict(rank=1, extensions={a: tl})), ("ext_A_and_B", dict(rank=2, weight=3, extensions={a: tl, b: tl})), ("ext_A_again", dict(rank=4, extensions={a: tl})),
           ("ext_B_and_A", dict(rank=5, weight=6, shade="blue", extensions={b: tl, a: tl})), ("ext_B", dict(weight=7, extensions={b: tl})),
           ("ext_C_nested", dict(extensions={cc: {"extension_type": "property-extension", "depth": 0}})), ("ext_A_third_time", dict(rank=8, extensions={a: tl})),
           # extensions of different kinds in one object, in every document order: a property extension (or a predefined one) before / between / after toplevel ones
           ("ext_C_then_A", dict(rank=1, extensions={cc: {"extension_type": "property-extension", "depth": 1}, a: tl})),
           ("ext_A_then_C", dict(rank=1, extensions={a: tl, cc: {"extension_type": "property-extension", "depth": 1}})),
           ("ext_C_A_B", dict(rank=1, weight=2, extensions={cc: {"extension_type": "property-extension", "depth": 1}, a: tl, b: tl})),
           ("ext_A_C_B", dict(rank=1, weight=2, extensions={a: tl, cc: {"extension_type": "property-extension", "depth": 1}, b: tl})),
           ("ext_unregistered_then_B", dict(weight=2, extensions={"extension-definition--dddddddd-1111-4111-8111-111111111111": {"extension_type": "property-extension", "q": 1}, b: tl}))]
    for how, f in (("predefined_then_A", lambda: stix2.v21.File(name="f", rank=3, extensions={"ntfs-ext": {"sid": "s"}, a: tl})),
                   ("A_then_predefined", lambda: stix2.v21.File(name="f", rank=3, extensions={a: tl, "ntfs-ext": {"sid": "s"}})),
                   ("predefined_then_A:parsed", lambda: stix2.parse({"type": "file", "spec_version": "2.1", "id": "file--11111111-1111-4111-8111-111111111111", "name": "f", "rank": 3,
                                                                     "extensions": {"ntfs-ext": {"sid": "s"}, a: tl}}))):
        try:
            out.append(("2.1", "observables:file", "registered_extension:" + how, f()))
        except Exception as e:  # noqa
            out.append(("2.1", "observables:file", "registered_extension:" + how, e))
    for how, kw in seq:
        try:
            out.append(("2.1", "objects:identity", "registered_extension:" + how, stix2.v21.Identity(name="n", **kw)))
        except Exception as e:  # noqa
            out.append(("2.1", "objects:identity", "registered_extension:" + how, e))
    # the extension given as an instance of its registered class (not a dictionary), with top-level values that still need cleaning; and the objects the library derives
    # from an object that carries a registered toplevel extension (they are built from extension instances, too)
    import copy as _copy
    derived = []
    try:
        derived.append(("ext_A_as_instance", stix2.v21.Identity(name="n", rank="9", extensions={a: c["a"]()}, allow_custom=True)))
        derived.append(("ext_B_as_instance", stix2.v21.Identity(name="n", weight="3", shade="red", extensions={b: c["b"]()}, allow_custom=True)))
        derived.append(("ext_A_as_instance_strict", stix2.v21.Identity(name="n", rank=9, extensions={a: c["a"]()})))
    except Exception as e:  # noqa
        derived.append(("ext_as_instance", e))
    try:
        base = stix2.v21.Identity(name="n", rank=1, extensions={a: tl})
        for how, f in (("new_version", lambda: base.new_version(name="m")), ("deepcopy", lambda: _copy.deepcopy(base)),
                       ("add_markings", lambda: base.add_markings(stix2.v21.TLP_GREEN)), ("revoke", lambda: base.revoke()),
                       ("bundle_member", lambda: stix2.v21.Bundle(base)), ("bundle_member_permissive", lambda: stix2.v21.Bundle(base, allow_custom=True))):
            try:
                derived.append(("ext_A_then_" + how, f()))
            except Exception as e:  # noqa
                derived.append(("ext_A_then_" + how, e))
    except Exception as e:  # noqa
        derived.append(("ext_A_base", e))
    for how, o in derived:
        out.append(("2.1", "objects:bundle" if "bundle_member" in how else "objects:identity", "registered_extension:" + how, o))
    # registered custom types that bring an extension of their own (extension_name=...), with and without a custom property next to it
    from stix2.properties import StringProperty
    if "ordx" not in _CUSTOM:
        @stix2.v21.CustomObject("x-verif-ord", [("name", StringProperty(required=True))], extension_name="extension-definition--99999999-1111-4111-8111-111111111111")
        class XOrd(object):
            pass

        @stix2.v21.CustomObservable("x-verif-ord-obs", [("value", StringProperty(required=True))], ["value"], extension_name="extension-definition--99999999-2222-4222-8222-222222222222")
        class XOrdObs(object):
            pass
        _CUSTOM.update(ordx=XOrd, ordo=XOrdObs)
    for how, f in (("own_extension", lambda: _CUSTOM["ordx"](name="n")), ("own_extension+custom_property", lambda: _CUSTOM["ordx"](name="n", x_custom=1, allow_custom=True)),
                   ("own_extension+custom_properties_keyword", lambda: _CUSTOM["ordx"](name="n", custom_properties={"x_a": [1], "a_x": 2})),
                   ("observable_own_extension+custom_property", lambda: _CUSTOM["ordo"](value="v", x_custom={"k": 1}, allow_custom=True))):
        try:
            o = f()
            out.append(("2.1", ("observables:" if "observable" in how else "objects:") + o["type"], "registered_custom_type:" + how, o))
        except Exception as e:  # noqa
            out.append(("2.1", "objects:x-verif-ord", "registered_custom_type:" + how, e))
    return out


def roundtrip_lines(chk, quick):
    import stix2
    lines = []
    rng = chk.rng
    for v, key, mode, o in roundtrip_objects(chk, quick) + reuse_and_custom_objects(chk):
        if isinstance(o, Exception):
            lines.append({"kind": "roundtrip", "v": v, "key": key, "how": mode, "opts": {}, "same_class": False, "equal": False, "same_text": False, "options_equal": False,
                          "dropped": [], "pretty": [], "exc": "construct:" + type(o).__name__, "msg": str(o)[:160], "text_sample": ""})
            continue
        full = out_json(o, include_optional_defaults=True)
        sets = OPTION_SETS if not quick else rng.sample(OPTION_SETS, 4) + [dict(pretty=True, sort_keys=False, include_optional_defaults=False),
                                                                             dict(pretty=True, sort_keys=True, include_optional_defaults=rng.random() < 0.5)]
        for opts in sets:
            line = {"kind": "roundtrip", "v": v, "key": key, "how": mode, "opts": {k: val for k, val in opts.items()}, "same_class": False, "equal": False, "same_text": False,
                    "options_equal": False, "dropped": [], "pretty": [], "exc": "none"}
            try:
                text = o.serialize(**opts)
                back = stix2.parse(text, allow_custom=True)
                line["same_class"] = type(back) is type(o)
                line["equal"] = bool(back == o)
                line["same_text"] = back.serialize(**opts) == text
                val = json.loads(text)
                line["dropped"] = sorted(k for k in full if k not in val)
                line["options_equal"] = all(k in full and json.dumps(val[k], sort_keys=True) == json.dumps(strip_like(full[k], val[k]), sort_keys=True) for k in val) and \
                    (not opts.get("include_optional_defaults") or val == full)
                if opts.get("pretty"):      # documented: pretty=True installs the specification-order item_sort_key, whatever sort_keys says
                    line["pretty"] = list(val)
                else:
                    line["pretty"] = []
            except Exception as e:  # noqa
                line["exc"] = type(e).__name__
                line["msg"] = message_of(e, line)[:160]
            line["text_sample"] = (text[:200] if line["exc"] == "none" else "")
            lines.append(line)
    return lines


def strip_like(full, val):
    """the include-defaults value restricted to what the other option set shows (nested default-valued members may be omitted too)"""
    if isinstance(full, dict) and isinstance(val, dict):
        return {k: strip_like(full[k], val[k]) for k in val if k in full}
    if isinstance(full, list) and isinstance(val, list) and len(full) == len(val):
        return [strip_like(a, b) for a, b in zip(full, val)]
    return full


# ------------------------------------------------------------------------------------------------ C04: custom
def hash_dict_paths(x, prefix=()):
    """paths (below x) of dictionaries stored under a member called hashes / file_header_hashes"""
    out = []
    if isinstance(x, dict):
        for k, v in x.items():
            if k in ("hashes", "file_header_hashes") and isinstance(v, dict) and v:
                out.append(prefix + (k,))
            else:
                out += hash_dict_paths(v, prefix + (k,))
    elif isinstance(x, list):
        for i, v in enumerate(x):
            out += hash_dict_paths(v, prefix + (i,))
    return out


def injections(g, key, base, rng):
    """(place, content with custom material injected) derived from the frozen model"""
    t = g.types[key]
    out = []
    x = copy.deepcopy(base)
    x["x_custom_top"] = "v"
    out.append(("top_level_custom_property", x))
    for nm, val in (("null", None), ("empty_list", []), ("empty_string", ""), ("zero", 0), ("false", False), ("empty_object", {})):
        x = copy.deepcopy(base)              # values the library may drop or keep: the flag follows what is emitted
        x["x_custom_top"] = val
        out.append(("top_level_custom_property_valued_" + nm, x))
    for d in t["properties"]:
        n = d["name"]
        if n not in base:
            continue
        if d["kind"] in ("embedded", "embeddedobject") and isinstance(base[n], dict):
            x = copy.deepcopy(base)
            x[n]["x_custom_emb"] = "v"
            out.append(("embedded:%s" % n, x))
            x = copy.deepcopy(base)          # the constructors' own keyword for custom content, arriving as a member of nested JSON: custom content like any other
            x[n]["custom_properties"] = {"x_custom_lit": "v"}
            out.append(("embedded_literal_custom_properties_key:%s" % n, x))
        if d["kind"] == "list" and d["contained"]["kind"] == "embedded" and base[n]:
            x = copy.deepcopy(base)
            x[n][-1]["x_custom_emb"] = "v"
            out.append(("embedded_in_list:%s" % n, x))
            x = copy.deepcopy(base)
            x[n][-1]["custom_properties"] = {"x_custom_lit": "v"}
            out.append(("embedded_in_list_literal_custom_properties_key:%s" % n, x))
        if d["kind"] == "hashes":
            for nm, hv in (("library_known_not_in_spec", ("TLSH", "0" * 70) if g.v == "2.0" else ("SHA-224", "0" * 56)), ("unknown_algorithm", ("FOOHASH", "abc"))):
                x = copy.deepcopy(base)
                x[n][hv[0]] = hv[1]
                out.append(("hash:%s:%s" % (n, nm), x))
                x = copy.deepcopy(base)            # ... and before the specification's algorithms instead of after them
                x[n] = dict({hv[0]: hv[1]}, **x[n])
                out.append(("hash:%s:%s:first" % (n, nm), x))
        if d["kind"] in ("extensions", "embedded", "embeddedobject", "list"):
            # hash dictionaries anywhere below this property (alternate data streams, PE sections, external references ...): a non-specification algorithm first / last
            for path in hash_dict_paths(base[n]):
                for pos in ("first", "last"):
                    x = copy.deepcopy(base)
                    h = x[n]
                    for st in path[:-1]:
                        h = h[st]
                    hv = ("TLSH", "0" * 70) if g.v == "2.0" else ("SHA-224", "0" * 56)
                    h[path[-1]] = dict({hv[0]: hv[1]}, **h[path[-1]]) if pos == "first" else dict(h[path[-1]], **{hv[0]: hv[1]})
                    out.append(("nested_hash:%s.%s:%s" % (n, ".".join(map(str, path)), pos), x))
        if d["kind"] == "extensions":
            x = copy.deepcopy(base)
            first = sorted(x[n])[0]
            x[n][first]["x_custom_in_ext"] = "v"
            out.append(("registered_extension_custom_property", x))
            x = copy.deepcopy(base)
            x[n] = dict({"x-unregistered-ext": {"a": 1}}, **x[n])
            out.append(("unregistered_extension_first", x))
            x = copy.deepcopy(base)
            x[n]["x-unregistered-ext"] = {"a": 1}
            out.append(("unregistered_extension_last", x))
        if d["kind"] == "reference" or (d["kind"] == "list" and d["contained"]["kind"] == "reference"):
            rd = d if d["kind"] == "reference" else d["contained"]
            val = "x-custom-type--11111111-1111-4111-8111-111111111111"
            x = copy.deepcopy(base)
            x[n] = val if d["kind"] == "reference" else [val]
            out.append(("reference_to_unregistered_type:%s:%s" % ("whitelist-generic" if rd["auth"] == "whitelist" and rd["generics"] else rd["auth"], n), x))
            if rd["auth"] == "whitelist":
                # a registered type that is in none of the allowed categories / not among the allowed types
                for other in ("marking-definition", "relationship", "bundle", "identity", "file" if g.v == "2.1" else "observed-data"):
                    if other not in rd["specifics"] and not (other in ("relationship",) and "SRO" in rd["generics"]) and not (other in ("identity", "observed-data") and "SDO" in rd["generics"]) \
                            and not (other == "file" and "SCO" in rd["generics"]):
                        x = copy.deepcopy(base)
                        val = other + "--11111111-1111-4111-8111-111111111111"
                        x[n] = val if d["kind"] == "reference" else [val]
                        out.append(("reference_to_registered_type_not_allowed_here:%s:%s" % (other, n), x))
            if g.v == "2.0":       # a type that exists in 2.1 only is custom for 2.0
                val = "location--11111111-1111-4111-8111-111111111111"
                x = copy.deepcopy(base)
                x[n] = val if d["kind"] == "reference" else [val]
                out.append(("reference_to_2.1_only_type:%s" % n, x))
    return out


def custom_lines(chk, quick):
    import stix2
    import stix2.versioning
    rng = chk.rng
    lines = []
    for v in VERSIONS:
        g = schema.Gen(v, rng)
        for key in g.keys():
            base = g.instance(key, "max")
            inj = injections(g, key, base, rng)
            if "extensions" not in base and key.startswith("observables:") and key.split(":")[1] in schema.EXT_FOR:
                pass
            if v == "2.1":
                # custom material together with an unregistered extension-definition extension (which by itself is not a customisation), before and after it
                extdef = {"extension_type": "property-extension", "rank": 1}
                more = []
                for place, d in inj:
                    if quick and rng.random() < 0.6:
                        continue
                    if not isinstance(d.get("extensions", {}), dict):
                        continue
                    a = copy.deepcopy(d)
                    a["extensions"] = dict(a.get("extensions", {}), **{"extension-definition--" + g.uid(): dict(extdef)})
                    more.append((place + "+extension_definition_after", a))
                    b = copy.deepcopy(d)
                    b["extensions"] = dict({"extension-definition--" + g.uid(): dict(extdef)}, **b.get("extensions", {}))
                    more.append((place + "+extension_definition_before", b))
                ctl = copy.deepcopy(base)
                ctl["extensions"] = dict(ctl.get("extensions", {}), **{"extension-definition--" + g.uid(): dict(extdef)})
                lines.append(custom_one(v, key, "no_custom_content+extension_definition", ctl, "permissive", False))
                inj = inj + more
            # the parser's own keyword arguments arriving as members of the content (on the object, on the enclosing bundle): content cannot switch strictness off
            for place, d in list(inj[:3]) + ([inj[len(inj) // 2]] if len(inj) > 6 else []):
                if isinstance(d, dict):
                    for kwname in ("allow_custom", "interoperability"):
                        inj.append((place + "+member_named_%s" % kwname, dict(d, **{kwname: True})))
            for place, d in inj:
                obs = is_obs20(key, v)
                lines.append(custom_one(v, key, place, d, "strict", obs))
                lines.append(custom_one(v, key, place, d, "permissive", obs))
                if not obs and (not quick or rng.random() < 0.3):
                    b = {"type": "bundle", "id": "bundle--11111111-1111-4111-8111-111111111111", "objects": [g.instance("objects:identity", "min"), d]}
                    if v == "2.0":
                        b["spec_version"] = "2.0"
                    lines.append(custom_one(v, "objects:bundle", "bundle_member:" + place, b, "strict", False))
                    if "member_named_" not in place and rng.random() < 0.2:
                        lines.append(custom_one(v, "objects:bundle", "bundle_member:" + place + "+bundle_member_named_allow_custom", dict(b, allow_custom=True), "strict", False))
                    lines.append(custom_one(v, "objects:bundle", "bundle_member:" + place, b, "permissive", False))
            # a clean object must not be flagged
            lines.append(custom_one(v, key, "no_custom_content", base, "permissive", is_obs20(key, v)))
        # unregistered object type as bundle member / unregistered observable in a 2.0 container
        b = {"type": "bundle", "id": "bundle--11111111-1111-4111-8111-111111111111", "objects": [{"type": "x-unregistered", "id": "x-unregistered--11111111-1111-4111-8111-111111111111", "a": 1}]}
        if v == "2.0":
            b["spec_version"] = "2.0"
        for mode in ("strict", "permissive"):
            lines.append(custom_one(v, "objects:bundle", "unregistered_type_in_bundle", b, mode, False))
        if v == "2.1":
            # two registered toplevel-property extensions: after an object that legitimately carries both, an object carrying one of them plus a top-level member
            # that belongs to the other is as custom as it was before (what the library learned from the first object must not stay behind)
            custom_types()
            A, B = "extension-definition--aaaaaaaa-1111-4111-8111-111111111111", "extension-definition--bbbbbbbb-1111-4111-8111-111111111111"
            tl = {"extension_type": "toplevel-property-extension"}
            ident = g.instance("objects:identity", "min")
            both = dict(ident, extensions={A: dict(tl), B: dict(tl)}, rank=1, weight=2)
            only_a_plus_b = dict(ident, extensions={A: dict(tl)}, rank=1, weight=2)
            only_b_plus_a = dict(ident, extensions={B: dict(tl)}, rank=1, weight=2)
            for rnd in range(2):
                for first, second in ((A, B), (B, A)):
                    lines.append(custom_one(v, "objects:identity", "both_toplevel_extensions(control)", dict(both, extensions={first: dict(tl), second: dict(tl)}), "permissive", False))
                    for place, d in (("toplevel_member_of_absent_extension:B", only_a_plus_b), ("toplevel_member_of_absent_extension:A", only_b_plus_a)):
                        for mode in ("strict", "permissive"):
                            lines.append(custom_one(v, "objects:identity", place + ":after_object_with_both", d, mode, False))
            # objects that reach a constructor with a registered toplevel extension given as an *instance* of its class (explicitly, or because the library derived them from
            # another object): nothing custom about them -- the flag and the strict re-parse must agree
            import copy as _copy
            try:
                base_tl = stix2.v21.Identity(name="n", rank=1, extensions={A: dict(tl)})
            except Exception:  # noqa  (refusing this valid object is C03's business; the derived objects below then report their own refusal)
                base_tl = None
            # ... and a registered extension given as an instance that itself carries custom content: the host is as custom as its extension
            custom_ntfs = lambda: stix2.v21.NTFSExt(sid="s", x_note=1, allow_custom=True)  # noqa
            file_custom_ext = None
            try:
                file_custom_ext = stix2.v21.File(name="f", extensions={"ntfs-ext": custom_ntfs()}, allow_custom=True)
            except Exception:  # noqa
                pass
            for place, build, mode in (("custom_content_inside_extension_instance", lambda: stix2.v21.File(name="f", extensions={"ntfs-ext": custom_ntfs()}), "strict"),
                                       ("custom_content_inside_extension_instance:bundle_member", lambda: stix2.v21.Bundle(file_custom_ext), "strict"),
                                       ("custom_content_inside_extension_instance:parse_of_object", lambda: stix2.parse(file_custom_ext, allow_custom=False), "strict"),
                                       ("custom_content_inside_extension_instance:container_member",
                                        lambda: stix2.v21.ObservedData(first_observed="2020-01-01T00:00:00Z", last_observed="2020-01-01T00:00:00Z", number_observed=1, objects={"0": file_custom_ext}), "strict")):
                line = {"kind": "custom", "v": v, "key": "observables:file", "place": place, "mode": mode, "refused": False, "has_custom": False, "strict_reparse_refused": False,
                        "exc": "none", "input": {"generated": place}}
                try:
                    build()
                except Exception as e:  # noqa
                    line["refused"] = True
                    line["exc"] = type(e).__name__
                lines.append(line)
            for place, build in (("custom_content_inside_extension_instance", lambda: stix2.v21.File(name="f", extensions={"ntfs-ext": custom_ntfs()}, allow_custom=True)),
                                 ("custom_content_inside_extension_instance:deepcopy", lambda: _copy.deepcopy(file_custom_ext)),
                                 ("custom_content_inside_extension_instance:parse_of_object", lambda: stix2.parse(file_custom_ext, allow_custom=True)),
                                 ("custom_content_inside_extension_instance:bundle_member", lambda: stix2.v21.Bundle(file_custom_ext, allow_custom=True)),
                                 ("extension_instance_given", lambda: stix2.v21.Identity(name="n", rank=2, extensions={A: _CUSTOM["a"]()}, allow_custom=True)),
                                 ("new_version_of_object_with_toplevel_extension", lambda: stix2.versioning.new_version(base_tl, name="m", allow_custom=True)),
                                 ("deepcopy_of_object_with_toplevel_extension", lambda: _copy.deepcopy(base_tl)),
                                 ("add_markings_on_object_with_toplevel_extension", lambda: base_tl.add_markings(stix2.v21.TLP_GREEN)),
                                 ("bundle_member_with_toplevel_extension", lambda: stix2.v21.Bundle(base_tl, allow_custom=True)),
                                 ("observable_with_toplevel_extension_in_bundle", lambda: stix2.v21.Bundle(stix2.v21.File(name="f", rank=3, extensions={A: dict(tl)}), allow_custom=True))):
                line = {"kind": "custom", "v": v, "key": "objects:identity", "place": place, "mode": "permissive", "refused": False, "has_custom": False, "strict_reparse_refused": False,
                        "exc": "none", "input": {"generated": place}}
                try:
                    obj = build()
                    line["has_custom"] = bool(obj.has_custom)
                    try:
                        stix2.parse(obj.serialize(), allow_custom=False, version=v)
                    except Exception as e:  # noqa
                        line["strict_reparse_refused"] = True
                        line["reparse_exc"] = type(e).__name__
                except Exception as e:  # noqa
                    line["refused"] = True
                    line["exc"] = type(e).__name__
                lines.append(line)
            # an unregistered type carrying an extension-definition extension: only an extension that defines a new object type (new-sdo / new-sco / new-sro) is documented to
            # let the dictionary through; every other extension type leaves it an unregistered type
            for et in ("property-extension", "toplevel-property-extension", "", None, "new-thing"):
                ext = {} if et is None else {"extension_type": et}
                u = {"type": "x-unregistered", "id": "x-unregistered--11111111-1111-4111-8111-111111111111", "spec_version": "2.1", "created": "2020-01-01T00:00:00.000Z",
                     "modified": "2020-01-01T00:00:00.000Z", "a": 1, "extensions": {"extension-definition--22222222-2222-4222-8222-222222222222": ext}}
                lines.append(custom_one(v, "objects:?", "unregistered_type_with_extension_definition:%s" % et, u, "strict", False))
                lines.append(custom_one(v, "objects:bundle", "bundle_member:unregistered_type_with_extension_definition:%s" % et,
                                        {"type": "bundle", "id": "bundle--11111111-1111-4111-8111-111111111111", "objects": [u]}, "strict", False))
        # the constructors' keyword `custom_properties` arriving as a member of *nested* JSON (container members, bundle members): custom content like any other
        odl = {"type": "observed-data", "id": "observed-data--11111111-1111-4111-8111-111111111111", "created": "2020-01-01T00:00:00.000Z", "modified": "2020-01-01T00:00:00.000Z",
               "first_observed": "2020-01-01T00:00:00Z", "last_observed": "2020-01-01T00:00:00Z", "number_observed": 1,
               "objects": {"0": {"type": "file", "name": "f", "custom_properties": {"x_custom_lit": 1}}, "1": {"type": "ipv4-addr", "value": "1.2.3.4"}}}
        if v == "2.1":
            odl["spec_version"] = "2.1"
        idl = dict(g.instance("objects:identity", "min"), custom_properties={"x_custom_lit": 1})
        bl = {"type": "bundle", "id": "bundle--11111111-1111-4111-8111-111111111111", "objects": [g.instance("objects:identity", "min"), idl]}
        bod = {"type": "bundle", "id": "bundle--11111111-1111-4111-8111-111111111111", "objects": [odl]}
        if v == "2.0":
            bl["spec_version"] = bod["spec_version"] = "2.0"
        for mode in ("strict", "permissive"):
            lines.append(custom_one(v, "objects:observed-data", "literal_custom_properties_key_on_container_member", odl, mode, False))
            lines.append(custom_one(v, "objects:bundle", "bundle_member:literal_custom_properties_key", bl, mode, False))
            lines.append(custom_one(v, "objects:bundle", "bundle_member:literal_custom_properties_key_on_container_member", bod, mode, False))
        if v == "2.0":
            od = {"type": "observed-data", "id": "observed-data--11111111-1111-4111-8111-111111111111", "created": "2020-01-01T00:00:00.000Z", "modified": "2020-01-01T00:00:00.000Z",
                  "first_observed": "2020-01-01T00:00:00Z", "last_observed": "2020-01-01T00:00:00Z", "number_observed": 1, "objects": {"0": {"type": "x-unregistered-obs", "a": 1}}}
            for mode in ("strict", "permissive"):
                lines.append(custom_one(v, "objects:observed-data", "unregistered_observable_in_container", od, mode, False))
                od2 = copy.deepcopy(od)
                od2["objects"] = {"0": {"type": "file", "name": "f", "x_custom_member": 1}}
                lines.append(custom_one(v, "objects:observed-data", "custom_property_on_container_member", od2, mode, False))
    return lines


def custom_one(v, key, place, d, mode, observable):
    import stix2
    line = {"kind": "custom", "v": v, "key": key, "place": place, "mode": mode, "refused": False, "has_custom": False, "strict_reparse_refused": False, "exc": "none", "input": d}
    try:
        obj = parse(d, v, strict=(mode == "strict"), observable=observable)
    except Exception as e:  # noqa
        line["refused"] = True
        line["exc"] = type(e).__name__
        return line
    if mode == "permissive":
        if not hasattr(obj, "serialize"):
            line["refused"] = True          # pass-through dictionary: nothing was constructed
            line["exc"] = "passthrough"
            return line
        line["has_custom"] = bool(obj.has_custom)
        try:
            text = obj.serialize()
            if observable:
                stix2.parse_observable(text, allow_custom=False, version=v)
            else:
                stix2.parse(text, allow_custom=False, version=v)
        except Exception as e:  # noqa
            line["strict_reparse_refused"] = True
            line["reparse_exc"] = type(e).__name__
    return line


# ------------------------------------------------------------------------------------------------ validation
KEEP = {"emit": ("kind", "strict", "ok", "family", "exc", "doc"), "accept": ("kind", "doc", "ok", "exc", "preserved", "extra", "key"),
        "roundtrip": ("kind", "key", "same_class", "equal", "same_text", "options_equal", "dropped", "pretty"),
        "custom": ("kind", "mode", "refused", "has_custom", "strict_reparse_refused"), "state": ("kind", "unchanged")}


def validate(chk, lines, prefix, reporter):
    """lines are judged per spec version (the model file differs); returns rejected indices"""
    rejected = set()
    for v in VERSIONS:
        idx = [i for i, ln in enumerate(lines) if ln.get("v", "2.1") == v]
        if not idx:
            continue
        slim = [{k: lines[i][k] for k in KEEP[lines[i]["kind"]]} for i in idx]
        for r in common.validate_trace_parallel(chk, "Trace_ObjectModel", "Trace_ObjectModel", slim, "S3_code_to_spec_" + v, jobs=14, chunk=350, env={"MODEL_FILE": lex.model_file(v)}):
            i = idx[r[0] - 1]
            rejected.add(i)
            if r[2].startswith(prefix):
                reporter(lines[i], r[2], r[3] if len(r) > 3 else "")
    return rejected


def s1(chk):
    res = chk.add_tlc("S1_object_model", tlc.run("MC_ObjectModel", "MC_ObjectModel", workers=16, scratch=chk.scratch, timeout=3600))
    if not res.completed:
        chk.spec_violation("S1", res)
    neg = tlc.run("Neg_ObjectModel", "Neg_ObjectModel", workers=4, scratch=chk.scratch)
    chk.stages["S1_negative_config"] = {"invariant_violated_as_required": bool(neg.invariant_violated)}
    if not neg.invariant_violated:
        chk.machinery("Neg_ObjectModel did not produce a counterexample")
