"""C18 -- federation and relationship navigation equal a scan of the data.  Shares the store pipeline of c11.py; owns clauses C18:*."""
from . import c11

PREFIX = "C18:"


def run(chk):
    chk.rule = ("a case is one read through a CompositeDataSource or Environment over 2-3 member sources (memory and filesystem, overlapping parts, every attachment "
                "order drawn at random) or one navigation call (relationships / related_to / creator_of with type, source-only, target-only, extra filters); "
                "distinct_nontrivial counts distinct (operation, front, filter set, answer emptiness, exception, routes, types, navigation options)")
    chk.assumptions = ["the reference is the de-duplicated union of the members' contents, keyed by (id, modified)",
                       "with filters attached, composite get may answer nothing when a member's newest version fails them (documented deviation)"]
    lines = c11.pipeline(chk)
    rejected = c11.validate(chk, lines, PREFIX)
    chk.sample({"trace_line": {k: v for k, v in [l for l in lines if l["op"] in ("cquery", "related_to")][-1].items() if k != "S"}})
    c11.selftest(chk, lines, rejected, "cquery")


def replay(path):
    return c11.replay(path)
