"""C20 -- confidence-scale conversions.  Spec: spec/Confidence.tla."""
import json
import os

from .. import common, tlc

TO_LABEL = ["value_to_none_low_medium_high", "value_to_zero_ten", "value_to_admiralty_credibility",
            "value_to_wep", "value_to_dni"]
TO_VALUE = ["none_low_med_high_to_value", "zero_ten_to_value", "admiralty_credibility_to_value",
            "wep_to_value", "dni_to_value"]


def call(fn, arg):
    """One real call, projected to a trace line."""
    from stix2.confidence import scales
    line = {"fn": fn}
    if isinstance(arg, int):
        if abs(arg) < 2 ** 31 - 1:
            line.update(k="int", n=arg)
        else:
            line.update(k="big", neg=arg < 0, digits=str(abs(arg)))
    else:
        line.update(k="str", s=arg)
    try:
        r = getattr(scales, fn)(arg)
    except Exception as e:  # noqa
        line.update(ok=False, rk="none", exc=type(e).__name__)
        return line
    if isinstance(r, str):
        line.update(ok=True, rk="label", label=r, exc="none")
    elif isinstance(r, int) and not isinstance(r, bool):
        line.update(ok=True, rk="value", value=r, exc="none")
    else:
        line.update(ok=True, rk="label", label="<%s>" % type(r).__name__, exc="none")
    return line


def near_misses(rng, labels, n):
    out = set()
    for lab in labels:
        out.update([lab.lower(), lab.upper(), " " + lab, lab + " ", lab + "\n", lab.replace(" ", "  "), lab[:-1], lab + "x"])
    out -= set(labels)
    out = sorted(out)
    rng.shuffle(out)
    return out[:n]


def run(chk):
    quick = chk.tier == "quick"
    chk.rule = ("cases = (conversion function, argument); every integer in the window and every label of every scale "
                "plus junk/near-miss labels; distinct_nontrivial counts distinct (function, argument class) where the class is "
                "the integer itself inside -50..150, 'big+/-' outside, or the label string")
    chk.assumptions = ["range tables transcribed from STIX 2.1 Part 1 Appendix A into spec/Confidence.tla are the oracle",
                       "label spellings are the library's documented ones (the specification's capitalisation is not judged)"]
    # S1: the tables and the call machine
    out = os.path.join(chk.scratch, "expected.json")
    res = chk.add_tlc("S1_model_check", tlc.run("MC_Confidence", "MC_Confidence", workers=8, env={"OUT_FILE": out},
                                                 scratch=chk.scratch))
    if not res.completed:
        chk.spec_violation("S1", res)
    neg = tlc.run("Neg_Confidence", "Neg_Confidence", workers=2, scratch=chk.scratch)
    chk.stages["S1_negative_config"] = {"invariant_violated_as_required": bool(neg.invariant_violated)}
    if not neg.invariant_violated:
        chk.machinery("negative configuration Neg_Confidence did not produce a counterexample")

    # S2 spec -> code: the complete table TLC computed, replayed on the implementation
    table = json.load(open(out))
    labels = set()
    n_s2 = 0

    def compare(fn, arg, exp, line, stage):
        obs = {"ok": line["ok"]}
        if line["ok"]:
            obs["k"] = line["rk"]
            obs[line["rk"]] = line[line["rk"]]
        if obs != exp:
            chk.violation({"entry": fn, "case": "arg=%r" % (arg,)}, {"fn": fn, "arg": arg, "expected": exp, "observed": line}, stage)
            return False
        return True

    for fn, row in sorted(table["tolabel"].items()):
        for n, exp in row.items():
            line = call(fn, int(n))
            compare(fn, int(n), exp, line, "S2")
            chk.case([fn, int(n)], {"fn": fn, "arg": int(n), "expected": exp, "observed": line} if int(n) in (29, 30) else None)
            n_s2 += 1
    for fn, row in sorted(table["tovalue"].items()):
        for lab, exp in row.items():
            labels.add(lab)
            line = call(fn, lab)
            compare(fn, lab, exp, line, "S2")
            chk.case([fn, lab], {"fn": fn, "arg": lab, "expected": exp, "observed": line} if exp["ok"] and lab == "High" else None)
            n_s2 += 1
    # S2b: the conversions are functions -- an answer does not depend on what was asked before.  Every ORDERED PAIR of arguments (all 101 x 101 values per scale, all pairs of
    # labels plus an unknown one) is asked in sequence and the second answer compared with the table; then descending and shuffled sweeps
    n_pairs = 0
    for fn, row in sorted(table["tolabel"].items()):
        vals = sorted(int(n) for n in row)
        for a in vals:
            for b in vals:
                call(fn, a)
                line = call(fn, b)
                n_pairs += 1
                if not compare(fn, b, row[str(b)], line, "S2b"):
                    chk.notes.setdefault("order_dependent_answers", []).append([fn, a, b]) if len(chk.notes.get("order_dependent_answers", [])) < 5 else None
        for order in (sorted(vals, reverse=True), chk.rng.sample(vals, len(vals)), [v for pair in zip(vals, reversed(vals)) for v in pair]):
            for b in order:
                compare(fn, b, row[str(b)], call(fn, b), "S2b")
                n_pairs += 1
        chk.case([fn, "all ordered pairs"])
    for fn, row in sorted(table["tovalue"].items()):
        labs0 = sorted(row)
        for a in labs0 + ["no-such-label"]:
            for b in labs0:
                call(fn, a)
                compare(fn, b, row[b], call(fn, b), "S2b")
                n_pairs += 1
        chk.case([fn, "all ordered pairs"])
    chk.traces += 1
    chk.stages["S2_spec_to_code"] = {"table_cells_replayed": n_s2, "ordered_pairs_and_sweeps": n_pairs}

    # S3 code -> spec: the implementation on a wider domain, judged by TLC
    ints = list(range(-60, 161)) + [2 ** 31 - 2, 2 ** 31 - 1, 2 ** 31, -2 ** 31, 2 ** 53, 2 ** 63, 2 ** 63 - 1, -2 ** 63, 10 ** 30, -10 ** 30]
    if not quick:
        ints += list(range(-2000, -60)) + list(range(161, 3000))
        ints += [chk.rng.randrange(-2 ** 70, 2 ** 70) for _ in range(500)]
    labs = sorted(labels) + near_misses(chk.rng, [l for l in labels], 60 if quick else 100000)
    lines = []
    for fn in TO_LABEL:
        for n in ints:
            lines.append(call(fn, n))
            chk.case([fn, n if -50 <= n <= 150 else ("big+" if n > 0 else "big-")])
    for fn in TO_VALUE:
        for lab in labs:
            lines.append(call(fn, lab))
            chk.case([fn, lab])
    for r in common.validate_trace(chk, "Trace_Confidence", "Trace_Confidence", lines, "S3_code_to_spec"):
        ln = lines[r[0] - 1]
        chk.violation({"entry": ln["fn"], "case": "%s arg=%r" % (r[2], ln.get("n", ln.get("s", ln.get("digits"))))},
                      {"line": ln, "clause": r[2]}, "S3")
    chk.sample({"trace_line": lines[0]})
    chk.sample({"trace_line": lines[-1]})

    # S3b: the repository's own tests as drivers (calls recorded from outside by harness/record_plugin.py)
    rl, summ = common.repo_test_traces(chk, ["confidence"], select=["stix2/test/v21/test_confidence.py"])
    cl = rl["confidence"]
    for r in common.validate_trace(chk, "Trace_Confidence", "Trace_Confidence", [{k: v for k, v in x.items() if k != "test"} for x in cl], "S3b_repo_tests") if cl else []:
        ln = cl[r[0] - 1]
        chk.violation({"entry": ln["fn"], "case": "%s arg=%r" % (r[2], ln.get("n", ln.get("s")))}, {"line": ln, "clause": r[2], "recorded_from_repository_test": ln.get("test")}, "S3b")
    chk.stages["S3b_repo_tests"] = dict(chk.stages.get("S3b_repo_tests", {}), recorded_calls=len(cl), tests_passed_under_recording=summ["tests_passed_under_recording"],
                                        recorder_errors=summ["recorder_errors"])

    # S4 binding self-test: corrupt one logged result, one expectation
    bad = [dict(x) for x in lines[:400]]
    idx = next(i for i, x in enumerate(bad) if x["ok"] and x["rk"] == "label")
    bad[idx]["label"] = "Med" if bad[idx]["label"] != "Med" else "Low"
    rej = common.validate_trace(chk, "Trace_Confidence", "Trace_Confidence", bad, "S4_selftest", count=False)
    ok4 = len(rej) == 1 and rej[0][0] == idx + 1
    chk.notes["binding_selftest"] = {"corrupted_lines": 1, "rejected_lines": len(rej), "ok": ok4}
    if not ok4:
        chk.machinery("binding self-test failed: corrupted trace line %d not rejected exactly once: %r" % (idx + 1, rej))
    chk.exhaustive = True
    chk.notes["explanation"] = ("S1: TLC checks partition/total/monotone/round-trip/refusal on the tables and on every call state; "
                                "S2: every cell of the TLC-computed table replayed on the implementation; S3: implementation on a wider "
                                "domain validated by the trace spec; S4: corrupted trace must be rejected")


def replay(path):
    d = json.load(open(path))["detail"]
    ln = d.get("line") or d.get("observed")
    arg = d.get("arg", ln.get("n", ln.get("s")))
    if ln.get("k") == "big":
        arg = int(ln["digits"]) * (-1 if ln["neg"] else 1)
    print(json.dumps({"recorded": ln, "now": call(ln["fn"], arg)}, indent=1))
    return 0
