"""C06 -- deterministic observable identifiers.  Spec: spec/DetId.tla (on top of CanonJson.tla)."""
import copy
import json
import os
import subprocess
import sys
import uuid

from .. import common, tlc
from .c16 import units, from_units

NAMESPACE = uuid.UUID("00abedb4-aa42-466c-9c01-fed23315a9b7")      # STIX 2.1 part "Deterministic identifiers": the namespace value
STRS = ["a", "", "é", "\"quoted\\", "line\nfeed", "\U0001f600", " ", "tab\t", "\x7f", "A b", "0"]
HASHVALS = {"MD5": "d41d8cd98f00b204e9800998ecf8427e", "SHA-1": "da39a3ee5e6b4b0d3255bfef95601890afd80709",
            "SHA-256": "e3b0c44298fc1c149afbf4c8996fb92427ae41e4649b934ca495991b7852b855",
            "SHA-512": "cf83e1357eefb8bdf1542850d66d8007d620e4050b5715dc83f4a921d36ce9ce47d0d13c5d85f2b0ff8318d2877eec2f63b931bd47417a81a538327af927da3e",
            "SHA3-256": "a7ffc6f8bf1ed76651c14756a061d662f580ff4de43b49fa82d80a4b80f8434a", "SSDEEP": "3:AXGBicFlgVNhBGcL6wCrFQEv:AXGBicFlIHBGcL6wCrFQEv"}
# floats at the layout boundaries of RFC 8785 / ECMAScript number-to-string (1e-7, 1e-6, 1e21) and ordinary ones
FLOATS = [1.5, 0.1, 100.0, 1e-7, 1.5e-7, 1e-6, 1.5e-6, 2.5e-6, 9.99e-6, 1e-5, 0.00012, 1e16, 1e20, 1.5e20, 1e21, 1.5e21, 123456789012345680000.0, -1.5e-6, -2.5, 5e-324, 1.7976931348623157e308, 0.30000000000000004]
TS = ["2020-01-01T00:00:00Z", "2020-01-01T00:00:00.5Z", "2020-01-01T00:00:00.123456Z", "2019-12-31T23:59:59.000Z"]
EA = "email-addr--11111111-1111-5111-8111-111111111111"
IP = "ipv4-addr--11111111-1111-5111-8111-1111111111%02x"
DIRREF = "directory--11111111-1111-5111-8111-111111111111"


def hashes(rng):
    ks = rng.sample(sorted(HASHVALS), rng.randint(1, 4))
    rng.shuffle(ks)
    return {k: HASHVALS[k] for k in ks}


def spec(rng):
    """type -> (required/base kwargs, contributing pools, non-contributing pools); a pool entry is a callable"""
    s = lambda: rng.choice(STRS)  # noqa
    return {
        "artifact": ({}, {"hashes": lambda: hashes(rng), "payload_bin": lambda: rng.choice(["aGVsbG8=", "AA=="])}, {"mime_type": lambda: "text/plain"}),
        "autonomous-system": ({}, {"number": lambda: rng.choice([0, 1, 65536, 2 ** 31, 2 ** 53 + 1, 10 ** 21])}, {"name": s, "rir": s}),
        "directory": ({}, {"path": s}, {"path_enc": lambda: "UTF-8", "ctime": lambda: rng.choice(TS)}),
        "domain-name": ({}, {"value": s}, {"resolves_to_refs": lambda: [IP % 1]}),
        "email-addr": ({}, {"value": s}, {"display_name": s}),
        "email-message": ({"is_multipart": False}, {"from_ref": lambda: EA, "subject": s, "body": s}, {"date": lambda: rng.choice(TS), "message_id": s}),
        "file": ({}, {"hashes": lambda: hashes(rng), "name": s, "parent_directory_ref": lambda: DIRREF,
                      "extensions": lambda: rng.choice([{"ntfs-ext": {"sid": s(), "alternate_data_streams": [{"name": s(), "size": rng.choice([0, 5])}]}},
                                                        {"ntfs-ext": {"alternate_data_streams": [{"name": s(), "hashes": hashes(rng)}, {"name": "second", "hashes": hashes(rng)}]}},
                                                        {"raster-image-ext": {"image_height": rng.choice([0, 1, 1080]), "exif_tags": {"k": rng.choice(FLOATS), "j": s()}}},
                                                        {"windows-pebinary-ext": {"pe_type": "exe", "optional_header": {"hashes": hashes(rng), "size_of_code": rng.choice([0, 4096])},
                                                                                  "sections": [{"name": s(), "entropy": rng.choice(FLOATS), "hashes": hashes(rng)}]}}])},
                 {"size": lambda: rng.choice([0, 1, 2 ** 40]), "mime_type": lambda: "a/b", "ctime": lambda: rng.choice(TS)}),
        "ipv4-addr": ({}, {"value": lambda: rng.choice(["1.2.3.4", "10.0.0.0/8"])}, {"resolves_to_refs": lambda: ["mac-addr--11111111-1111-5111-8111-111111111111"]}),
        "ipv6-addr": ({}, {"value": lambda: rng.choice(["::1", "2001:db8::/32"])}, {}),
        "mac-addr": ({}, {"value": lambda: "aa:bb:cc:dd:ee:ff"}, {}),
        "mutex": ({}, {"name": s}, {}),
        "network-traffic": ({"protocols": ["tcp"]}, {"start": lambda: TS[3], "end": lambda: rng.choice(TS[:3]), "src_ref": lambda: IP % 1, "dst_ref": lambda: IP % 2,
                                                     "src_port": lambda: rng.choice([0, 80, 65535]), "dst_port": lambda: rng.choice([0, 443]),
                                                     "protocols": lambda: rng.choice([["tcp"], ["ipv4", "tcp", "http"]]),
                                                     "extensions": lambda: {"http-request-ext": {"request_method": "get", "request_value": s() or "/", "request_header": {"b": "1", "a": s()}}}},
                            {"is_active": lambda: False, "src_byte_count": lambda: rng.choice([0, 9]), "ipfix": lambda: {"k": 1, "a": "v"}}),
        "process": ({}, {}, {"pid": lambda: rng.choice([0, 1, 4242]), "command_line": s}),
        "software": ({"name": "n"}, {"name": s, "cpe": lambda: "cpe:2.3:a:b:c:1:*:*:*:*:*:*:*", "swid": s, "vendor": s, "version": s}, {"languages": lambda: ["en"]}),
        "url": ({}, {"value": lambda: rng.choice(["http://x.example/", "http://x.example/?a=\"b\"&c=é"])}, {}),
        "user-account": ({}, {"account_type": lambda: rng.choice(["unix", "windows-local"]), "user_id": s, "account_login": s}, {"display_name": s, "is_privileged": lambda: rng.choice([False, True])}),
        "windows-registry-key": ({}, {"key": lambda: rng.choice(["HKEY_LOCAL_MACHINE\\\\System\\\\Foo", "hkey_current_user\\x"]),
                                      "values": lambda: [{"name": s(), "data": s(), "data_type": "REG_SZ"} for _ in range(rng.randint(1, 2))]},
                                 {"number_of_subkeys": lambda: rng.choice([0, 3]), "modified_time": lambda: rng.choice(TS)}),
        "x509-certificate": ({}, {"hashes": lambda: hashes(rng), "serial_number": s}, {"issuer": s, "is_self_signed": lambda: rng.choice([False, True])}),
    }


CLASSES = {"artifact": "Artifact", "autonomous-system": "AutonomousSystem", "directory": "Directory", "domain-name": "DomainName", "email-addr": "EmailAddress",
           "email-message": "EmailMessage", "file": "File", "ipv4-addr": "IPv4Address", "ipv6-addr": "IPv6Address", "mac-addr": "MACAddress", "mutex": "Mutex",
           "network-traffic": "NetworkTraffic", "process": "Process", "software": "Software", "url": "URL", "user-account": "UserAccount",
           "windows-registry-key": "WindowsRegistryKey", "x509-certificate": "X509Certificate"}
_REG = [None]


def custom_class():
    if _REG[0] is None:
        import stix2.v21
        from stix2.properties import BooleanProperty, DictionaryProperty, FloatProperty, IntegerProperty, StringProperty

        @stix2.v21.CustomObservable("x-verif-obs", [("flag", BooleanProperty()), ("val", StringProperty()), ("num", IntegerProperty()), ("ratio", FloatProperty()), ("data", DictionaryProperty(spec_version="2.1")), ("note", StringProperty())],
                                     ["flag", "val", "num", "ratio", "data"])
        class XVerifObs(object):
            pass
        _REG[0] = XVerifObs
    return _REG[0]


def tag(x):
    """JSON-plain -> tagged value (CanonJson.tla); floats by their shortest repr digits"""
    if x is None:
        return {"k": "null"}
    if isinstance(x, bool):
        return {"k": "bool", "v": x}
    if isinstance(x, str):
        return {"k": "str", "u": units(x)}
    if isinstance(x, (int, float)):
        if x == 0:
            return {"k": "zero"}
        f = float(x)          # RFC 8785: numbers are IEEE doubles
        r = repr(abs(f))
        mant, _, exp = r.partition("e")
        ip, _, fp = mant.partition(".")
        if fp == "0":
            fp = ""
        alld = ip + fp
        lead = len(alld) - len(alld.lstrip("0"))
        ds = alld.strip("0")
        n = len(ip) - lead + (int(exp) if exp else 0)
        return {"k": "num", "neg": f < 0, "digits": [int(c) for c in ds], "n": n}
    if isinstance(x, list):
        return {"k": "list", "items": [tag(i) for i in x]}
    return {"k": "obj", "keys": [units(k) for k in x], "vals": [tag(v) for v in x.values()]}


def shuffle_deep(rng, x):
    if isinstance(x, dict):
        items = list(x.items())
        rng.shuffle(items)
        return {k: shuffle_deep(rng, v) for k, v in items}
    if isinstance(x, list):
        return [shuffle_deep(rng, v) for v in x]
    return x


def build_cases(chk, quick):
    import stix2
    import stix2.v21
    rng = chk.rng
    xcls = custom_class()
    cases = []
    per_type = 14 if quick else 300
    for typ in sorted(CLASSES) + ["x-verif-obs"]:
        for i in range(per_type):
            if typ == "x-verif-obs":
                # "data" is free-form content: floats directly in a list, in a nested list, as dictionary values; integral floats are written without a fraction
                con = {"flag": lambda: rng.choice([False, True]), "val": lambda: rng.choice(STRS), "num": lambda: rng.choice([0, 7]), "ratio": lambda: rng.choice(FLOATS),
                       "data": lambda: {"series": [rng.choice(FLOATS), 2.0, rng.choice(FLOATS)], "nested": [[1.0, rng.choice(FLOATS)], {"v": rng.choice(FLOATS)}], "one": rng.choice(FLOATS + [3.0])}}
                base, non = {}, {"note": lambda: rng.choice(STRS)}
                cls = xcls
            else:
                base, con, non = spec(rng)[typ]
                cls = getattr(stix2.v21, CLASSES[typ])
            kw = copy.deepcopy(base)
            present = [p for p in con if rng.random() < (0.55 if i else 1.0)]
            if i == 1:
                present = []
            if i == 2 and con:
                present = [sorted(con)[0]]
            for p in present:
                kw[p] = con[p]()
            for p in non:
                if rng.random() < 0.5:
                    kw[p] = non[p]()
            # keep the inter-property constraints of the types satisfied
            if typ == "artifact":
                kw.setdefault("payload_bin", "aGVsbG8=")
            if typ == "network-traffic":
                if "src_ref" not in kw and "dst_ref" not in kw:
                    kw["src_ref"] = IP % 1
                if "end" in kw:
                    kw["is_active"] = False
                    kw["start"] = TS[3]
            required = {"directory": ["path"], "domain-name": ["value"], "email-addr": ["value"], "ipv4-addr": ["value"], "ipv6-addr": ["value"], "mac-addr": ["value"],
                        "mutex": ["name"], "url": ["value"], "autonomous-system": ["number"], "software": ["name"]}.get(typ, [])
            for p in required:
                if p not in kw:
                    kw[p] = con[p]()
            if typ == "file" and "name" not in kw and "hashes" not in kw:
                which = rng.choice(["name", "hashes"])
                kw[which] = con[which]()
            if not [k for k in kw if k not in base or k in con]:
                filler = {"process": ("pid", 1), "x509-certificate": ("issuer", "i"), "user-account": ("display_name", "d"), "windows-registry-key": ("number_of_subkeys", 1),
                          "email-message": ("message_id", "m"), "x-verif-obs": ("note", "n")}.get(typ)
                if filler:
                    kw[filler[0]] = filler[1]
            cases.append({"type": typ, "cls": cls, "kw": kw, "non": non})
    return cases


def make(case, rng, route):
    """create the observable along one route; returns the object"""
    import stix2
    kw = shuffle_deep(rng, copy.deepcopy(case["kw"]))
    if route == "kwargs":
        return case["cls"](**kw)
    first = case["cls"](**copy.deepcopy(case["kw"]))
    d = json.loads(first.serialize())
    d.pop("id")
    d = shuffle_deep(rng, d)
    if route == "parse":
        return stix2.parse(json.dumps(d), version="2.1")
    if route == "roundtrip":
        return stix2.parse(first.serialize(), version="2.1")
    raise ValueError(route)


def O_rel(x):
    from .. import objects as O
    return O.rel_us(x)


def run(chk):
    import stix2
    quick = chk.tier == "quick"
    rng = chk.rng
    chk.rule = ("a case is one 2.1 observable (every built-in type and a registered custom observable) with a random subset of contributing and non-contributing properties, created along "
                "several routes; distinct_nontrivial counts distinct (type, set of contributing properties present, hash algorithms in order, routes, identifier kind)")
    chk.assumptions = ["UUIDv5 = SHA-1 (hashlib/uuid) of the UTF-8 bytes of the preimage TLC computes; namespace 00abedb4-aa42-466c-9c01-fed23315a9b7 from the specification",
                       "contributing lists per type frozen in spec/DetId.tla from the STIX 2.1 text; custom observables contribute what their registration declares",
                       "floats enter the tagged view through Python's shortest repr"]
    res = chk.add_tlc("S1_model_check", tlc.run("MC_DetId", "MC_DetId", workers=4, scratch=chk.scratch))
    if not res.completed:
        chk.spec_violation("S1", res)
    neg = tlc.run("Neg_DetId", "Neg_DetId", workers=2, scratch=chk.scratch)
    chk.stages["S1_negative_config"] = {"invariant_violated_as_required": bool(neg.invariant_violated)}
    if not neg.invariant_violated:
        chk.machinery("Neg_DetId did not produce a counterexample")

    cases = build_cases(chk, quick)
    recs, objs = [], []
    for c in cases:
        try:
            o = make(c, rng, "kwargs")
        except Exception as e:  # noqa
            chk.machinery("cannot build %s %r: %s %s" % (c["type"], c["kw"], type(e).__name__, e))
            continue
        d = json.loads(o.serialize())
        d.pop("id")
        rec = {"type": c["type"].replace("-", "_"), "names": {k: units(k) for k in d}, "props": tag(d)}
        if c["type"] == "x-verif-obs":
            rec["contrib"] = ["flag", "val", "num", "ratio", "data"]
            rec["type"] = "process"       # any table row; "contrib" overrides it
        recs.append(rec)
        objs.append((c, o, d))
    cfile = os.path.join(chk.scratch, "cases.ndjson")
    ofile = os.path.join(chk.scratch, "pre.json")
    tlc.write_ndjson(cfile, recs)
    ev = chk.add_tlc("S2_spec_computes_preimages", tlc.run("MC_DetId", "MC_DetId", workers=1, env={"CASES_FILE": cfile, "OUT_FILE": ofile}, scratch=chk.scratch, timeout=3600))
    out = json.load(open(ofile))
    if isinstance(out, dict):
        out = [out[str(i + 1)] for i in range(len(recs))]
    chk.trace_lines += len(recs)        # one recorded observable per line of the cases file: TLC computed the preimage the specification prescribes for each
    checked = 0
    for (c, o, d), exp in zip(objs, out):
        typ = c["type"]
        present = sorted(k for k in c["kw"] if k in (["flag", "val", "num", "ratio", "data"] if typ == "x-verif-obs" else spec(rng)[typ][1]))
        hk = list(d.get("hashes", {}))
        sig = [typ, present, hk, exp["kind"]]
        ids = {}
        problems = []
        for route in ("kwargs", "parse", "roundtrip"):
            try:
                x = o if route == "kwargs" else make(c, rng, route)
                ids[route] = x["id"]
            except Exception as e:  # noqa
                problems.append("route_%s_raised_%s" % (route, type(e).__name__))
        uid = o["id"].split("--", 1)[1]
        # with several hashes none of which is MD5 / SHA-1 / SHA-256 / SHA-512 the specification takes "the first": that depends on the order
        # of the dictionary, so identifiers are only compared with the preimage of this very serialization, not across re-orderings
        order_dependent = "hashes" in present and len(hk) > 1 and not any(h in hk for h in ("MD5", "SHA-1", "SHA-256", "SHA-512"))
        if exp["kind"] == "uuid5":
            want = typ + "--" + str(uuid.uuid5(NAMESPACE, from_units(exp["pre"])))
            if o["id"] != want:
                problems.append("id_is_not_uuid5_of_specified_preimage")
            if len(set(ids.values())) > 1 and not order_dependent:
                problems.append("id_differs_between_creation_routes")
            # a change to non-contributing properties must not move the id
            kw2 = copy.deepcopy(c["kw"])
            for p, gen in c["non"].items():
                if p in kw2 and rng.random() < 0.5 and not (typ == "network-traffic" and p == "is_active"):
                    kw2.pop(p)
                else:
                    kw2[p] = gen()
            if typ == "process" and not kw2:
                kw2["pid"] = 2
            try:
                if c["cls"](**kw2)["id"] != o["id"] and not order_dependent:
                    problems.append("id_moves_with_non_contributing_property")
            except Exception:  # noqa
                pass
        else:
            try:
                u = uuid.UUID(uid)
                if u.version != 4:
                    problems.append("no_contributing_property_but_not_uuid4")
                if make(c, rng, "kwargs")["id"] == o["id"]:
                    problems.append("uuid4_repeats")
            except ValueError:
                problems.append("malformed_uuid")
        checked += 1
        chk.case(sig, {"type": typ, "kwargs": {k: (v if not isinstance(v, dict) else sorted(v)) for k, v in c["kw"].items()}, "id": o["id"], "kind": exp["kind"],
                       "preimage": from_units(exp["pre"]) if exp["kind"] == "uuid5" else None} if checked in (3, 40) else None)
        for pr in problems:
            falsy = sorted(k for k in present if c["kw"][k] in (0, "", False) and c["kw"][k] is not None)
            chk.violation({"entry": "v21.%s" % (CLASSES.get(typ, "CustomObservable")), "clause": pr,
                           "case": "contributing=%s hashes=%s falsy=%s" % (",".join(present) or "-", ",".join(hk) or "-", ",".join(falsy) or "-")},
                          {"type": typ, "kwargs": c["kw"], "id": o["id"], "ids_by_route": ids, "spec_kind": exp["kind"],
                           "spec_preimage": from_units(exp["pre"]) if exp["kind"] == "uuid5" else None}, "S2")
    chk.traces += checked
    chk.stages["S2_spec_to_code"] = {"observables": checked, "routes_each": 3}
    # ---- S3: the identifier of given content does not depend on what the library was asked to do before (histories): other objects of the type are versioned,
    # revoked, copied, serialized and parsed permissively, then the same content is created again
    import stix2.versioning
    import datetime as dt
    seen_types = {}
    nhist = 0
    for (c, o, d), exp in zip(objs, out):
        typ = c["type"]
        if exp["kind"] != "uuid5" or seen_types.get(typ, 0) >= (3 if quick else 40):
            continue
        hk = list(d.get("hashes", {}))
        if "hashes" in c["kw"] and len(hk) > 1 and not any(h in hk for h in ("MD5", "SHA-1", "SHA-256", "SHA-512")):
            continue
        seen_types[typ] = seen_types.get(typ, 0) + 1
        ops = []
        try:
            t0 = dt.datetime(2020, 1, 1, tzinfo=dt.timezone.utc)
            other = c["cls"](allow_custom=True, created=t0, modified=t0, revoked=False, **copy.deepcopy(c["kw"]))     # (an observable carrying all three versioning properties may be versioned)
            for name, f in (("new_version", lambda: other.new_version(modified=t0 + dt.timedelta(seconds=1))), ("revoke", lambda: stix2.versioning.revoke(other)),
                            ("new_version(dict)", lambda: stix2.versioning.new_version(json.loads(other.serialize()), modified=t0 + dt.timedelta(seconds=2))),
                            ("deepcopy", lambda: copy.deepcopy(other)), ("serialize", lambda: other.serialize(pretty=True)),
                            ("permissive parse", lambda: stix2.parse(dict(json.loads(o.serialize()), x_extra=1), allow_custom=True, version="2.1"))):
                try:
                    f()
                    ops.append(name)
                except Exception as e:  # noqa  (what these operations may refuse is C05's business)
                    ops.append("%s:%s" % (name, type(e).__name__))
            again = c["cls"](**copy.deepcopy(c["kw"]))["id"]
        except Exception as e:  # noqa
            chk.notes["history_stage_skipped"] = chk.notes.get("history_stage_skipped", 0) + 1
            continue
        nhist += 1
        chk.case(["history", typ, again == o["id"]])
        if again != o["id"]:
            chk.violation({"entry": "v21.%s" % (CLASSES.get(typ, "CustomObservable")), "clause": "id_depends_on_earlier_operations", "case": "type=%s after=%s" % (typ, ",".join(x.split(":")[0] for x in ops))},
                          {"type": typ, "kwargs": c["kw"], "id": o["id"], "id_after": again, "operations_between": ops}, "S3")
    chk.stages["S3_histories"] = {"contents_recreated_after_other_operations": nhist}
    # ---- S3c: the caller goes on using the containers it handed over (a template filled in a loop): every object keeps the identifier of the content it holds --
    # serializing it, dropping the id and parsing gives the same id again -- and equal contents built from a fresh and from a re-used template get equal ids
    import stix2
    ED = "extension-definition--5e5c3a27-6b1f-4a2e-9f2a-1c2d3e4f5a6b"
    ntmpl = 0
    templates = [
        ("file/unregistered_extension", stix2.v21.File, lambda: {"name": "n", "extensions": {ED: {"extension_type": "property-extension", "a": 1, "l": [1, 2], "d": {"k": "v"}}}},
         [lambda kw: kw["extensions"][ED].__setitem__("a", 2), lambda kw: kw["extensions"][ED]["l"].append(3), lambda kw: kw["extensions"][ED]["d"].__setitem__("k", "w")]),
        ("file/registered_extension", stix2.v21.File, lambda: {"name": "n", "extensions": {"ntfs-ext": {"sid": "s", "alternate_data_streams": [{"name": "a", "hashes": {"MD5": HASHVALS["MD5"]}}]}}},
         [lambda kw: kw["extensions"]["ntfs-ext"].__setitem__("sid", "t"), lambda kw: kw["extensions"]["ntfs-ext"]["alternate_data_streams"][0].__setitem__("name", "b")]),
        ("file/hashes", stix2.v21.File, lambda: {"name": "n", "hashes": {"SHA-256": HASHVALS["SHA-256"]}}, [lambda kw: kw["hashes"].__setitem__("MD5", HASHVALS["MD5"])]),
        ("network-traffic/protocols+extension", stix2.v21.NetworkTraffic, lambda: {"protocols": ["tcp"], "src_ref": IP % 1, "extensions": {"http-request-ext": {"request_method": "get", "request_value": "/", "request_header": {"A": ["b"]}}}},
         [lambda kw: kw["protocols"].append("http"), lambda kw: kw["extensions"]["http-request-ext"]["request_header"]["A"].append("c"), lambda kw: kw["extensions"]["http-request-ext"].__setitem__("request_value", "/x")]),
        ("email-message/header_fields", stix2.v21.EmailMessage, lambda: {"is_multipart": False, "subject": "s", "from_ref": "email-addr--11111111-1111-5111-8111-111111111111"}, []),
        ("windows-registry-key/values", stix2.v21.WindowsRegistryKey, lambda: {"key": "HKLM\\x", "values": [{"name": "a", "data": "1"}]}, [lambda kw: kw["values"][0].__setitem__("data", "2"), lambda kw: kw["values"].append({"name": "b"})]),
    ]
    for tname, cls, mk, muts in templates:
        for mi, mut in enumerate(muts):
            ntmpl += 1
            chk.case(["template_reuse", tname, mi])
            try:
                kw = mk()
                first = cls(**kw)
                id1, text1 = first.id, first.serialize()
                mut(kw)                                   # the caller changes ITS container
                second = cls(**kw)                         # ... and builds the next object from it
                fresh = cls(**copy.deepcopy(kw))
                d1 = json.loads(first.serialize())
                d1.pop("id")
                reparsed = stix2.parse(d1, version="2.1", allow_custom=True)
            except Exception as e:  # noqa
                chk.notes["template_stage_skipped"] = chk.notes.get("template_stage_skipped", 0) + 1
                continue
            bad = []
            if first.id != id1 or first.serialize() != text1:
                bad.append("object_changed_with_the_callers_container")
            if reparsed.id != first.id:
                bad.append("id_not_that_of_the_content_the_object_holds")
            if second.id != fresh.id:
                bad.append("equal_contents_different_ids")
            for b in bad:
                chk.violation({"entry": "v21.%s" % cls.__name__, "clause": b, "case": "template=%s mutation=%d" % (tname, mi)},
                              {"template": tname, "mutation": mi, "id_first": id1, "id_first_now": first.id, "id_reparsed": reparsed.id, "id_second": second.id, "id_fresh": fresh.id}, "S3c")
    chk.stages["S3c_templates_reused_by_the_caller"] = {"cases": ntmpl}
    # ---- S3d: a contributing timestamp handed over in every form a caller has it in -- text, datetime, the timestamp VALUE of another object's property (which carries that
    # property's precision rules: millisecond/min of a 2.1 object, millisecond/exact of a 2.0 one, second of a 2.0 observed-data) -- is one instant: one identifier
    nforms = 0
    for frac in ("", ".5", ".12", ".123", ".1234", ".123456", ".000", ".120000"):
        text = "2020-03-04T05:06:07%sZ" % frac
        us = int((frac[1:] or "0").ljust(6, "0"))
        plain_dt = dt.datetime(2020, 3, 4, 5, 6, 7, us, tzinfo=dt.timezone.utc)
        forms = [("text", text), ("datetime", plain_dt)]
        for ftag, build in (("created_of_2.1_object", lambda: stix2.v21.Identity(name="d", created=text, modified="2021-01-01T00:00:00Z").created),
                           ("valid_from_of_2.1_indicator", lambda: stix2.v21.Indicator(pattern="[file:name = 'a']", pattern_type="stix", valid_from=text).valid_from),
                           ("first_seen_of_2.0_campaign", lambda: stix2.v20.Campaign(name="c", first_seen=text).first_seen),
                           ("parse_into_datetime_second", lambda: stix2.utils.parse_into_datetime(text, precision="second")),
                           ("parse_into_datetime_millisecond_min", lambda: stix2.utils.parse_into_datetime(text, precision="millisecond", precision_constraint="min"))):
            try:
                val = build()
            except Exception:  # noqa
                continue
            if O_rel(val) == O_rel(plain_dt):        # only donors that still denote the same instant (a truncating property gives another instant: another case)
                forms.append((ftag, val))
        for prop in ("start", "end"):
            ids = {}
            for ftag, val in forms:
                kw = {"protocols": ["tcp"], "src_ref": IP % 1, "is_active": False, "start": "2019-01-01T00:00:00Z"}
                kw[prop] = val
                if prop == "start":
                    kw.pop("is_active")
                try:
                    o = stix2.v21.NetworkTraffic(**kw)
                    d1 = json.loads(o.serialize())
                    d1.pop("id")
                    ids[ftag] = (o.id, stix2.parse(d1, version="2.1").id)
                except Exception as e:  # noqa
                    ids[ftag] = ("refused:" + type(e).__name__, "")
                nforms += 1
            chk.case(["timestamp_forms", prop, frac, len(forms)])
            ref_id = ids["text"][0]
            for ftag, (i1, i2) in sorted(ids.items()):
                if i1 != ref_id or (i2 and i2 != i1):
                    chk.violation({"entry": "v21.NetworkTraffic", "clause": "same_instant_in_another_form_gives_another_id" if i1 != ref_id else "id_not_that_of_the_content_the_object_holds",
                                   "case": "prop=%s form=%s digits=%d" % (prop, ftag, len(frac) - 1 if frac else 0)}, {"prop": prop, "text": text, "ids": ids}, "S3d")
    chk.stages["S3d_timestamp_forms"] = {"constructions": nforms}
    # across processes (hash randomisation varied)
    prog = ("import sys, json; sys.path.insert(0, %r); import stix2.v21 as v\n"
            "print(json.dumps([v.File(name='n', hashes={'SHA-256': %r, 'MD5': %r}).id, v.NetworkTraffic(protocols=['tcp'], src_ref=%r, extensions={'http-request-ext': {'request_method': 'get', 'request_value': '/', 'request_header': {'b': '1', 'a': '2'}}}).id, v.Software(name='n', vendor='v').id]))"
            % (common.REPO, HASHVALS["SHA-256"], HASHVALS["MD5"], IP % 1))
    outs = set()
    for seed in ("0", "1", "12345"):
        p = subprocess.run([sys.executable, "-c", prog], env=dict(os.environ, PYTHONHASHSEED=seed), stdout=subprocess.PIPE, stderr=subprocess.PIPE, universal_newlines=True)
        outs.add(p.stdout.strip())
    chk.evaluations += 3
    if len(outs) != 1 or not list(outs)[0]:
        chk.violation({"entry": "v21 observables", "clause": "id_differs_between_processes", "case": "PYTHONHASHSEED 0/1/12345"}, {"outputs": sorted(outs)}, "S2")
    # S4: the comparison must bite -- a preimage with one unit flipped must give another id
    (c, o, d), exp = next(((x, e) for x, e in zip(objs, out) if e["kind"] == "uuid5"))
    flipped = list(exp["pre"])
    flipped[-2] ^= 1
    ok4 = str(uuid.uuid5(NAMESPACE, from_units(flipped))) != o["id"].split("--", 1)[1]
    chk.notes["binding_selftest"] = {"corrupted_preimages": 1, "id_changed": ok4, "ok": ok4}
    if not ok4:
        chk.machinery("binding self-test failed")


def replay(path):
    d = json.load(open(path))["detail"]
    import stix2.v21
    custom_class()
    typ = d["type"]
    cls = custom_class() if typ == "x-verif-obs" else getattr(stix2.v21, CLASSES[typ])
    print(json.dumps({"recorded": d, "id_now": cls(**d["kwargs"])["id"]}, indent=1, default=str))
    return 0
