"""C05 -- versioning.  Spec: spec/Versioning.tla."""
import json
import os

from .. import common, tlc
from .. import impl_versioning as IV
from .. import objects as O

ROLE_NAMES = ["name", "description", "aliases"]
REPO_TESTS = None       # the whole suite: about 225 versioning calls, ten seconds


def ch_pairs(ch):
    return [[k, v] for k, v in sorted((ch or {}).items())]


def op_line(op):
    d = {"k": op["k"], "ch": ch_pairs(op.get("ch")), "now": op.get("now", 0), "m": op.get("m", 0)}
    return d


def observe(conc, o, op, typ, clock, user_form="datetime", via="method"):
    """apply op to the concrete object, return (trace line, result concrete or None)"""
    before = IV.snapshot(conc)
    ser_pre = IV.serialized_modified(conc, o["v"]) if o["kind"] not in ("unversionable", "dict_nocreated") else 0
    reads0 = clock.reads
    ok, exc, res = IV.apply(conc, op, o, typ, clock, user_form, via)
    after = IV.snapshot(conc)
    line = {"pre": o, "op": op_line(op), "ok": ok, "exc": exc, "orig_unchanged": before == after, "type": typ, "via": via,
            "clock_reads": clock.reads - reads0}
    if ok:
        post = IV.project(res, o, typ)
        line.update(post=post, same_id=IV.same_identity(conc, res), ser_pre=ser_pre, ser_post=IV.serialized_modified(res, o["v"]))
    else:
        line.update(post=o, same_id=True, ser_pre=ser_pre, ser_post=ser_pre)
    return line, res


def signature(line):
    o, op = line["pre"], line["op"]
    d = (op["now"] if op["k"] != "newmod" else op["m"]) - o["modified"]
    dcls = "earlier" if d < 0 else "equal" if d == 0 else "sub-precision" if d < (1000 if o["v"] == "2.0" else 1) or (o["v"] == "2.0" and d < 1000) else "later"
    return [o["v"], o["kind"], line["type"], op["k"], dcls, sorted(k for k, _ in op["ch"]), o["revoked"], o["modified"] % 1000 != 0, line["exc"], line["via"]]


def report(chk, line, clause, stage):
    o, op = line["pre"], line["op"]
    d = (op["now"] if op["k"] != "newmod" else op["m"]) - o["modified"]
    chk.violation({"entry": "new_version" if op["k"] != "revoke" else "revoke",
                   "case": "%s %s %s %s delta=%s ch=%s" % (clause, o["v"], o["kind"], op["k"], "neg" if d < 0 else "0" if d == 0 else "<1ms" if d < 1000 else ">=1ms",
                                                           ",".join(k for k, _ in op["ch"]))},
                  {"line": line, "clause": clause}, stage)


def run(chk):
    quick = chk.tier == "quick"
    rng = chk.rng
    chk.rule = ("a case is one call (object version, operation, clock reading / supplied modified, change set); distinct_nontrivial counts distinct "
                "(spec version, object kind, type, operation, clock-delta class, changed names, revoked, sub-ms old time, outcome class, entry)")
    chk.assumptions = ["the wall clock is read once per call through stix2.versioning.get_timestamp (substituted from outside; reads are counted)",
                       "times are microseconds relative to 2020-01-01T00:00:00Z; |t| < 2^31 us",
                       "serialized instant of a dictionary = modified of stix2.parse(dict).serialize()"]
    out = os.path.join(chk.scratch, "cases.json")
    res = chk.add_tlc("S1_timing", tlc.run("MC_Versioning", "MC_Versioning", workers=16, env={"OUT_FILE": out}, scratch=chk.scratch, coverage=False))
    if not res.completed:
        chk.spec_violation("S1_timing", res)
    res = chk.add_tlc("S1_changes", tlc.run("MC_Versioning", "MC_VersioningChanges", workers=16, scratch=chk.scratch, coverage=True))
    if not res.completed:
        chk.spec_violation("S1_changes", res)
    neg = tlc.run("Neg_Versioning", "Neg_Versioning", workers=4, scratch=chk.scratch)
    chk.stages["S1_negative_config"] = {"invariant_violated_as_required": bool(neg.invariant_violated)}
    if not neg.invariant_violated:
        chk.machinery("Neg_Versioning did not produce a counterexample")

    clock = IV.Clock()
    try:
        # ---- S2: every TLC-computed case replayed on real objects
        cases = json.load(open(out))["cases"]
        types = sorted(set(O.V20) & set(O.V21))
        n2 = 0
        lines2 = []
        devs = []
        for i, c in enumerate(cases):
            o, op, exp = c["o"], dict(c["op"]), c["res"]
            if op.get("ch") == []:
                op["ch"] = {}
            tlist = ["campaign"] + ([types[i % len(types)]] if (not quick or i % 3 == 0) else [])
            for typ in tlist:
                for via in (["method", "function"] if o["kind"] in ("obj", "sco5", "sco4") else ["function"]):
                    conc = IV.realize(o, typ)
                    line, _ = observe(conc, o, op, typ, clock, via=via)
                    n2 += 1
                    chk.case(signature(line))
                    lines2.append(line)
                    if exp["ok"] != line["ok"] or (exp["ok"] and exp["obj"] != line["post"]) or (not exp["ok"] and exp["err"] != line["exc"]):
                        devs.append(i)       # differs from the model's deterministic answer; the trace spec decides whether the property is broken
                    if line["ok"] and op["k"] != "newmod" and line["clock_reads"] != 1:
                        chk.notes.setdefault("clock_read_anomalies", 0)
                        chk.notes["clock_read_anomalies"] += 1
        chk.traces += 1
        chk.stages["S2_spec_to_code"] = {"tlc_cases": len(cases), "executions": n2, "answers_differing_from_model": len(devs)}
        chk.sample({"S2_case": cases[0]})

        # ---- S3: long random histories on every versionable type, validated by the trace spec
        lines = list(lines2)
        n_hist = 150 if quick else 4000
        for h in range(n_hist):
            v = rng.choice(["2.0", "2.1"])
            kind = rng.choice(["obj", "obj", "dict", "dict", "sco5", "sco4"] if v == "2.1" else ["obj", "obj", "dict", "dict"])
            typ = rng.choice(sorted(O.TABLES[v]))
            m0 = rng.choice([0, 5000, 5300, 123456, 999999])
            if v == "2.0" and kind == "obj":
                m0 = m0 // 1000 * 1000
            o = {"v": v, "kind": kind, "created": rng.choice([m0, m0 - 5000, 0]) if kind != "dict" or rng.random() < 0.7 else m0,
                 "modified": m0, "hasmod": True, "revoked": False,
                 "props": {"name": "a", "description": rng.choice(["absent", "a"]), "aliases": rng.choice(["absent", "a", "b"])}}
            if o["created"] > o["modified"]:
                o["created"] = o["modified"]
            if kind == "dict" and rng.random() < 0.2:
                o["hasmod"] = False
                o["modified"] = o["created"]
            try:
                conc = IV.realize(o, typ)
            except Exception as e:  # noqa  (a table entry that cannot be realised is a harness problem)
                chk.machinery("cannot realise %s %s %s: %r" % (v, kind, typ, e))
                continue
            o = IV.project(conc, o, typ)
            versions = [(conc, o)]
            for step in range(rng.randint(3, 12 if quick else 40)):
                conc, o = versions[-1] if rng.random() < 0.85 else rng.choice(versions)
                k = rng.random()
                delta = rng.choice([-1000000, -1000, -1, 0, 1, 499, 999, 1000, 1001, 5000, rng.randint(-2000, 3000), rng.randint(-2000000, 5000000)])
                if abs(o["modified"] + delta) > 2 * 10 ** 9:
                    break
                if k < 0.55:
                    names = rng.sample(ROLE_NAMES, rng.choice([0, 0, 1, 1, 2]))
                    ch = {n: rng.choice(["a", "b", "none"]) for n in names}
                    if rng.random() < 0.08:
                        ch[rng.choice(["created", "id", "type", "created_by_ref"])] = rng.choice(["x", "none"])
                    op = {"k": "new", "ch": ch, "now": o["modified"] + delta}
                elif k < 0.8:
                    op = {"k": "newmod", "ch": {}, "m": o["modified"] + delta}
                else:
                    op = {"k": "revoke", "now": o["modified"] + delta}
                via = rng.choice(["method", "function", "add_markings"]) if op["k"] == "new" and not op["ch"] and kind not in ("sco5", "sco4") else rng.choice(["method", "function"])
                line, res = observe(conc, o, op, typ, clock, user_form=rng.choice(["datetime", "text6", "text3"]), via=via)
                lines.append(line)
                chk.case(signature(line))
                if line["ok"]:
                    versions.append((res, line["post"]))
        rejected = set()
        for i in range(0, len(lines), 20000):
            part = lines[i:i + 20000]
            for r in common.validate_trace(chk, "Trace_Versioning", "Trace_Versioning", part, "S3_code_to_spec"):
                report(chk, part[r[0] - 1], r[2], "S2" if i + r[0] - 1 < len(lines2) else "S3")
                rejected.add(i + r[0] - 1)
        chk.sample({"trace_line": lines[-1]})
        # ---- S3b: the repository's own tests as drivers (calls recorded from outside by harness/record_plugin.py, projected onto the object record)
        rl, summ = common.repo_test_traces(chk, ["versioning"], select=REPO_TESTS)
        vl = rl["versioning"]
        for r in common.validate_trace(chk, "Trace_Versioning", "Trace_VersioningRepo", [{k: v for k, v in x.items() if k != "test"} for x in vl], "S3b_repo_tests") if vl else []:
            ln = vl[r[0] - 1]
            chk.violation({"entry": "new_version" if ln["op"]["k"] != "revoke" else "revoke", "case": "%s %s %s %s (repository test)" % (r[2], ln["pre"]["v"], ln["pre"]["kind"], ln["op"]["k"])},
                          {"line": ln, "clause": r[2], "recorded_from_repository_test": ln.get("test")}, "S3b")
        for ln in vl:
            chk.case(["repo", ln["pre"]["v"], ln["pre"]["kind"], ln["type"], ln["op"]["k"], len(ln["changed"]), ln["exc"]])
        chk.stages["S3b_repo_tests"] = dict(chk.stages.get("S3b_repo_tests", {}), recorded_calls=len(vl), tests_passed_under_recording=summ["tests_passed_under_recording"],
                                            recorder_errors=summ["recorder_errors"],
                                            calls_outside_model={k.split("outside_model:")[1]: v for k, v in summ["counts"].items() if "outside_model:" in k})
        if len(vl) < 50:
            chk.machinery("the recording run of the repository tests produced only %d versioning calls" % len(vl))
        # ---- S4
        good = [x for i, x in enumerate(lines) if x["ok"] and x["op"]["k"] == "new" and i not in rejected][:40]
        bad = [json.loads(json.dumps(x)) for x in good]
        bad[5]["post"]["modified"] = bad[5]["pre"]["modified"]
        bad[9]["post"]["props"]["name"] = "b" if bad[9]["post"]["props"]["name"] != "b" else "a"
        rej = common.validate_trace(chk, "Trace_Versioning", "Trace_Versioning", bad, "S4_selftest", count=False)
        ok4 = sorted(r[0] for r in rej) == [6, 10]
        chk.notes["binding_selftest"] = {"corrupted_lines": 2, "rejected_lines": len(rej), "ok": ok4}
        if not ok4:
            chk.machinery("binding self-test failed: %r" % (rej,))
    finally:
        clock.restore()


def replay(path):
    d = json.load(open(path))["detail"]["line"]
    clock = IV.Clock()
    try:
        op = {"k": d["op"]["k"], "ch": dict(d["op"]["ch"]), "now": d["op"]["now"], "m": d["op"]["m"]}
        conc = IV.realize(d["pre"], d["type"])
        line, res = observe(conc, d["pre"], op, d["type"], clock, via=d.get("via", "function"))
        print(json.dumps({"recorded": d, "now": line}, indent=1, default=str))
    finally:
        clock.restore()
    return 0
