"""C19 -- custom type registration.  Spec: spec/Registry.tla."""
import copy
import json
import os
import re

from .. import common, tlc

REAL = {"x_aaa_ext": "x-aaa-ext", "x_bbb_ext": "x-bbb-ext", "x_ccc": "x-ccc", "identity": "identity", "file": "file", "statement": "statement",
        "ntfs_ext": "ntfs-ext", "x_bad": "x_bad", "d9abc": "9abc", "ab": "ab"}
CATS = ["objects", "observables", "markings", "extensions"]
VERSIONS = ["2.0", "2.1"]
CHAR = {"lower": "a", "upper": "A", "digit": "7", "hyphen": "-", "underscore": "_", "other": ".", "newline": "\n"}


class RealRegistry(object):
    """snapshot/restore of the process-wide registries, tags for classes, and the four decorators"""

    def __init__(self):
        import stix2.registry
        self.maps = stix2.registry.STIX2_OBJ_MAPS
        self.snap = {v: {c: dict(self.maps[v][c]) for c in CATS} for v in VERSIONS}
        self.tags = {}
        self.next = 1

    def restore(self):
        for v in VERSIONS:
            for c in CATS:
                self.maps[v][c].clear()
                self.maps[v][c].update(self.snap[v][c])
        self.tags = {}
        self.next = 1

    def tag_of(self, cls):
        if cls is None:
            return -1
        if id(cls) in self.tags:
            return self.tags[id(cls)][0]
        return 0

    def view(self, names):
        """names: dict model name -> real name"""
        return {v: {c: {m: self.tag_of(self.maps[v][c][r]) for m, r in names.items() if r in self.maps[v][c]} for c in CATS} for v in VERSIONS}

    def register(self, cat, real, v, propname="prop1"):
        import stix2.v20
        import stix2.v21
        from stix2.exceptions import DuplicateRegistrationError
        from stix2.properties import StringProperty
        mod = stix2.v20 if v == "2.0" else stix2.v21
        props = [(propname, StringProperty())]

        class Body(object):
            pass
        try:
            if cat == "objects":
                cls = mod.CustomObject(real, props)(Body)
            elif cat == "observables":
                cls = mod.CustomObservable(real, props)(Body)
            elif cat == "markings":
                cls = mod.CustomMarking(real, props)(Body)
            else:
                cls = mod.CustomExtension(real, props)(Body)
        except DuplicateRegistrationError:
            return "Duplicate"
        except ValueError:
            return "InvalidName"
        except Exception as e:  # noqa
            return "exc:" + type(e).__name__
        self.tags[id(cls)] = (self.next, cls)     # keep the class alive so that id() stays unique
        self.next += 1
        return "ok"

    def lookup(self, cat, real, v):
        import stix2.registry
        return self.tag_of(stix2.registry.class_for_type(real, v, cat))

    def parse(self, real, v, explicit):
        """dispatch of content of type `real` shaped for version v; returns class tag, -1 if unknown"""
        import stix2
        uid = "11111111-1111-4111-8111-111111111111"
        as_object = real in self.maps[v]["objects"]
        as_observable = (not as_object) and real in self.maps[v]["observables"]
        ts = {"created": "2020-01-01T00:00:00.000Z", "modified": "2020-01-01T00:00:00.000Z"}
        if real == "identity":
            d = dict({"type": "identity", "id": "identity--" + uid, "name": "n", "identity_class": "individual"}, **ts)
        elif as_observable:
            d = {"type": real}
            d["name" if real == "file" else "prop1"] = "x"
            if v == "2.1":
                d["id"] = real + "--" + uid
        else:
            d = dict({"type": real, "id": real + "--" + uid, "prop1": "x"}, **ts)
        if v == "2.1":
            d["spec_version"] = "2.1"
        try:
            if "id" not in d:
                r = stix2.parse_observable(d, version=v if explicit else None)
            else:
                r = stix2.parse(d, version=v if explicit else None)
        except stix2.exceptions.ParseError:
            return -1
        except Exception as e:  # noqa
            return "exc:" + type(e).__name__
        return self.tag_of(type(r))


def info_of(real):
    def cls(ch):
        return "lower" if "a" <= ch <= "z" else "upper" if "A" <= ch <= "Z" else "digit" if "0" <= ch <= "9" else "hyphen" if ch == "-" \
            else "underscore" if ch == "_" else "newline" if ch == "\n" else "other"
    cs = [cls(ch) for ch in real]
    if len(cs) > 12:     # long names: first five, one filler class per distinct class in the middle, last five
        mid = sorted(set(cs[5:-5]))
        cs = cs[:5] + mid + cs[-5:]
    return {"cs": cs, "len": len(real), "dbl": "--" in real, "ext": real.endswith("-ext") or real.startswith("extension-definition--")}


def run_history(rr, tid, ops, names, lines, extension_parse=False):
    """ops: list of dicts (op, cat, name (model), v); executes on the real registry, appends trace lines"""
    rr.restore()
    for op in ops:
        note = ""
        real = names[op["name"]]
        pre = rr.view(names)
        nxt = rr.next
        if op["op"] == "register":
            res = rr.register(op["cat"], real, op["v"])
        elif op["op"] == "lookup":
            res = rr.lookup(op["cat"], real, op["v"])
        else:
            # explicit version always; for 2.1-shaped content (spec_version present) also with the version left to detection
            res = rr.parse(real, op["v"], explicit=True)
            if op["v"] == "2.1":
                res2 = rr.parse(real, op["v"], explicit=False)
                if res2 != res:
                    note, res = "explicit/detected differ: %s/%s" % (res, res2), -98
            if not isinstance(res, int):
                note, res = res, -99
        line = {"tid": tid, "op": op["op"], "cat": op.get("cat", "objects"), "name": op["name"], "v": op["v"], "info": info_of(real), "res": res,
                "pre": pre, "post": rr.view(names), "nxt": nxt, "note": note}
        lines.append(line)
    return lines


def ext_parse_check(rr, chk):
    """objects carrying a registered extension dispatch to the extension class of that version, also when the
    same name is registered in other categories (cross-kind collision)"""
    import stix2
    n = 0
    for v in VERSIONS:
        for others in ([], ["objects"], ["observables"], ["markings"], ["objects", "observables", "markings"]):
            for order in ("ext_first", "ext_last"):
                rr.restore()
                seq = (["extensions"] + others) if order == "ext_first" else (others + ["extensions"])
                for cat in seq:
                    rr.register(cat, "x-ddd-ext", v)
                ext_cls = rr.maps[v]["extensions"].get("x-ddd-ext")
                d = {"type": "file", "name": "f", "extensions": {"x-ddd-ext": {"prop1": "x"}}}
                if v == "2.1":
                    d.update(id="file--11111111-1111-4111-8111-111111111111", spec_version="2.1")
                n += 1
                chk.case(["extension-dispatch", v, others, order])
                try:
                    obj = stix2.parse_observable(d, version=v) if v == "2.0" else stix2.parse(d, version=v)
                    got = type(obj["extensions"]["x-ddd-ext"])
                    ok = got is ext_cls
                    detail = got.__name__
                except Exception as e:  # noqa
                    ok, detail = False, "%s: %s" % (type(e).__name__, str(e)[:120])
                if not ok:
                    chk.violation({"entry": "parse(object with registered extension)", "case": "extension_not_dispatched_to_registered_class v=%s also_registered_as=%s" % (v, ",".join(others))},
                                  {"v": v, "others": others, "order": order, "got": detail}, "S2")
    rr.restore()
    return n


def shared_definition_check(rr, chk):
    """one plain class used as the definition of a custom type for BOTH spec versions (with and without an extension of its own for 2.1, either order of registration, or a 2.0
    definition deriving from the 2.1 one): both registered types keep the guarantees of built-in types -- construct, round trip to the registered class, new version, bundle member"""
    import stix2
    from stix2.properties import StringProperty
    n = 0
    uid = "dddddddd-1111-4111-8111-%012x"
    k = 0
    for cat in ("objects", "observables"):
        for order in ("21_first", "20_first", "20_derives_from_21"):
            for with_ext in (True, False):
                rr.restore()
                k += 1
                name = "x-shared-def-%d" % k
                ext = ("extension-definition--" + uid % k) if with_ext else None

                class Body(object):
                    pass
                props = [("prop1", StringProperty(required=True))]
                built = {}
                try:
                    def reg(v, body):
                        mod = stix2.v20 if v == "2.0" else stix2.v21
                        if cat == "objects":
                            return mod.CustomObject(name, props, **({"extension_name": ext} if ext and v == "2.1" else {}))(body)
                        return mod.CustomObservable(name, props, **(dict(id_contrib_props=["prop1"], **({"extension_name": ext} if ext else {})) if v == "2.1" else {}))(body)
                    if order == "21_first":
                        built["2.1"] = reg("2.1", Body)
                        built["2.0"] = reg("2.0", Body)
                    elif order == "20_first":
                        built["2.0"] = reg("2.0", Body)
                        built["2.1"] = reg("2.1", Body)
                    else:
                        built["2.1"] = reg("2.1", Body)

                        class Body20(built["2.1"]):
                            pass
                        # (a definition class that derives from the registered 2.1 class: documented as "any class"; only the plain-attribute contract is used)
                        built["2.0"] = reg("2.0", type("Body20", (Body,), {}))
                except Exception as e:  # noqa
                    chk.violation({"entry": "Custom* decorator", "clause": "C19:registration_of_shared_definition_refused", "case": "cat=%s order=%s ext=%s exc=%s" % (cat, order, with_ext, type(e).__name__)},
                                  {"cat": cat, "order": order, "with_extension": with_ext, "exc": repr(e)}, "S2c")
                    continue
                for v, cls in sorted(built.items()):
                    n += 1
                    chk.case(["shared_definition", cat, order, with_ext, v])
                    what = "construct"
                    try:
                        o = cls(prop1="x")
                        what = "round_trip"
                        if cat == "objects" or v == "2.1":
                            back = stix2.parse(o.serialize(), version=v)
                        else:
                            back = stix2.parse_observable(o.serialize(), version=v)
                        if type(back) is not cls or back != o:
                            raise AssertionError("parsed to %s, equal=%s" % (type(back).__name__, back == o))
                        what = "bundle_member"
                        mod = stix2.v20 if v == "2.0" else stix2.v21
                        if cat == "objects" or v == "2.1":
                            b = stix2.parse(mod.Bundle(o).serialize(), version=v)
                            if type(b.objects[0]) is not cls:
                                raise AssertionError("bundle member parsed to %s" % type(b.objects[0]).__name__)
                        else:
                            od = mod.ObservedData(first_observed="2020-01-01T00:00:00Z", last_observed="2020-01-01T00:00:00Z", number_observed=1, objects={"0": o})
                            b = stix2.parse(od.serialize(), version=v)
                            if type(b.objects["0"]) is not cls:
                                raise AssertionError("container member parsed to %s" % type(b.objects["0"]).__name__)
                        if cat == "objects":
                            what = "new_version"
                            nv = o.new_version(prop1="y")
                            if type(nv) is not cls or nv.prop1 != "y" or nv.id != o.id:
                                raise AssertionError("new version is %s" % type(nv).__name__)
                    except Exception as e:  # noqa
                        chk.violation({"entry": what, "clause": "C19:registered_type_without_builtin_guarantees", "case": "cat=%s v=%s order=%s ext=%s exc=%s" % (cat, v, order, with_ext, type(e).__name__)},
                                      {"cat": cat, "v": v, "order": order, "with_extension": with_ext, "step": what, "exc": repr(e)[:300]}, "S2c")
    rr.restore()
    chk.stages["S2c_shared_definitions"] = {"types_exercised": n}
    return n


def caller_owned_tables_check(rr, chk):
    """the property table handed to a decorator as a dictionary the caller goes on using (extends it, registers the next type with it): a registered class says what it said
    when it was registered"""
    import collections
    import stix2
    from stix2.properties import StringProperty
    n = 0
    for cat, v in (("objects", "2.1"), ("observables", "2.1"), ("markings", "2.1"), ("extensions", "2.1"), ("objects", "2.0"), ("markings", "2.0"), ("extensions", "2.0"), ("observables", "2.0")):
        for table in (dict, collections.OrderedDict):
            rr.restore()
            mod = stix2.v20 if v == "2.0" else stix2.v21
            n += 1
            chk.case(["caller_owned_table", cat, v, table.__name__])
            props = table([("prop1", StringProperty())])
            names = ("x-owned-one", "x-owned-two") if cat != "extensions" else ("x-owned-one-ext", "x-owned-two-ext")

            def reg(name):
                body = type("Body", (object,), {})
                if cat == "objects":
                    return mod.CustomObject(name, props)(body)
                if cat == "observables":
                    return mod.CustomObservable(name, props)(body)
                if cat == "markings":
                    return mod.CustomMarking(name, props)(body)
                return mod.CustomExtension(name, props)(body)
            try:
                first = reg(names[0])
                before = sorted(first._properties)
                props["prop2"] = StringProperty()          # the caller extends ITS table
                props["7up"] = StringProperty()            # ... with a name no registration would admit
                try:
                    reg(names[1])
                except Exception:  # noqa  (the second registration may well be refused: the name is bad)
                    pass
                after = sorted(first._properties)
            except Exception as e:  # noqa
                chk.notes["caller_owned_table_skipped"] = chk.notes.get("caller_owned_table_skipped", 0) + 1
                continue
            if before != after:
                chk.violation({"entry": "Custom* decorator", "clause": "C19:registered_class_changed_by_later_use_of_the_callers_table", "case": "cat=%s v=%s table=%s" % (cat, v, table.__name__)},
                              {"cat": cat, "v": v, "properties_at_registration": before, "properties_later": after}, "S2d")
    rr.restore()
    chk.stages["S2d_caller_owned_tables"] = {"cases": n}


def name_patterns():
    """names enumerated from character classes: every class in first / middle / last position, boundary lengths"""
    out = []
    for pos in ("first", "middle", "last"):
        for cl in CHAR:
            body = ["lower", "hyphen", "lower", "lower", "lower"]
            i = {"first": 0, "middle": 2, "last": 4}[pos]
            body[i] = cl
            out.append("".join(CHAR[c] for c in body))
            out.append("".join(CHAR[c] for c in body) + "-ext")
    for n in (1, 2, 3, 4, 249, 250, 251, 300):
        out.append("x" * n)
        if n > 4:
            out.append("x" * (n - 4) + "-ext")
    out += ["x--a", "x-a-", "-xa", "x-a--ext", "extension-definition--11111111-1111-4111-8111-111111111111", "a1-", "1a-b"]
    return sorted(set(out))


def run(chk):
    quick = chk.tier == "quick"
    rng = chk.rng
    chk.rule = ("cases are operations in registration histories (register / lookup / parse x category x name x version) and single names against the "
                "naming rules; distinct_nontrivial counts distinct (operation, category, version, name class, outcome, registry occupancy of that name)")
    chk.assumptions = ["'already taken' is per category and spec version, as the registry is organised",
                       "type-name rules frozen in the spec: a-z 0-9 hyphen, 3..250 characters, 2.1 begins with a-z, 2.1 extensions end in -ext or are extension-definition ids; "
                       "double hyphens carry no obligation",
                       "registries are restored from a snapshot between histories (process-wide state)"]
    res = chk.add_tlc("S1_model_check", tlc.run("MC_Registry", "MC_Registry" if quick else "MC_RegistryThorough", workers=16, coverage=True, scratch=chk.scratch, timeout=7200))
    if not res.completed:
        chk.spec_violation("S1", res)
    neg = tlc.run("Neg_Registry", "Neg_Registry", workers=2, scratch=chk.scratch)
    chk.stages["S1_negative_config"] = {"property_violated_as_required": bool(neg.property_violated)}
    if not neg.property_violated:
        chk.machinery("Neg_Registry did not produce a counterexample")

    rr = RealRegistry()
    try:
        # ---- S2: TLC behaviours replayed, registry compared with TLC's after every step
        gen = tlc.run("MC_RegistryGen", "MC_RegistryGen", workers=1, scratch=chk.scratch)
        sim = tlc.run("MC_RegistryGen", "Sim_Registry", workers=1, simulate="num=%d" % (40 if quick else 600), depth=8, seed=chk.seed, scratch=chk.scratch)
        behs = [json.loads(t[1]) for t in gen.marked("BEH")]
        sims = [json.loads(t[1]) for t in sim.marked("BEH")]
        rng.shuffle(sims)
        behs += sims[:400 if quick else 20000]
        chk.stages["S2_generation"] = {"exhaustive_depth2_behaviours": len(gen.marked("BEH")), "simulated_depth6_behaviours_used": len(behs) - len(gen.marked("BEH"))}
        nsteps = 0
        for bi, beh in enumerate(behs):
            lines = run_history(rr, bi, [dict(s["step"], explicit=(bi + i) % 2 == 0) for i, s in enumerate(beh)], REAL, [])
            for i, (s, ln) in enumerate(zip(beh, lines)):
                nsteps += 1
                exp_reg = {v: {c: (s["reg"][v][c] if isinstance(s["reg"][v][c], dict) else {}) for c in CATS} for v in VERSIONS}
                chk.case([ln["op"], ln["cat"], ln["v"], ln["name"], str(ln["res"]), [ln["name"] in ln["pre"][v][c] for v in VERSIONS for c in CATS]])
                if str(ln["res"]) != str(s["step"]["res"]) or ln["post"] != exp_reg:
                    chk.violation({"entry": ln["op"], "case": "replay_differs cat=%s v=%s name=%s spec=%s impl=%s" % (ln["cat"], ln["v"], ln["name"], s["step"]["res"], ln["res"])},
                                  {"behaviour": [x["step"] for x in beh], "step": i, "impl_line": ln, "spec_registry": exp_reg}, "S2")
                    break
            chk.traces += 1
        chk.stages["S2_spec_to_code"] = {"behaviours_replayed": len(behs), "steps": nsteps}
        chk.sample({"S2_behaviour": [s["step"] for s in behs[-1]]})
        chk.evaluations += ext_parse_check(rr, chk)
        shared_definition_check(rr, chk)
        caller_owned_tables_check(rr, chk)

        # ---- S3: random histories with wider names + the naming sweep, validated by the trace spec
        lines = []
        pool = name_patterns()
        for tid in range(60 if quick else 1500):
            names = {"n%d" % i: nm for i, nm in enumerate(rng.sample(pool, 4) + ["x-aaa-ext", "identity", "file"])}
            ops = []
            for _ in range(rng.randint(4, 14)):
                k = rng.random()
                op = {"name": rng.choice(sorted(names)), "v": rng.choice(VERSIONS), "cat": rng.choice(CATS)}
                op["op"] = "register" if k < 0.55 else "lookup" if k < 0.8 else "parse"
                op["explicit"] = rng.random() < 0.5
                ops.append(op)
            run_history(rr, 100000 + tid, ops, names, lines)
        # naming sweep: each pattern registered alone in a restored registry, in every category and version
        tid = 200000
        for nm in pool:
            for v in VERSIONS:
                for cat in CATS:
                    tid += 1
                    run_history(rr, tid, [{"op": "register", "cat": cat, "name": "n0", "v": v}], {"n0": nm}, lines)
        # property names (2.1 rules)
        for nm in pool + ["abc_def", "x_foo", "a_1", "ab"]:
            pn = nm.replace("-ext", "_ext")
            for v in VERSIONS:
                tid += 1
                rr.restore()
                res = rr.register("objects", "x-propname-test", v, propname=pn)
                lines.append({"tid": tid, "op": "propname", "cat": "objects", "name": "p", "v": v, "info": info_of(pn), "res": res,
                              "pre": rr.view({}), "post": rr.view({}), "nxt": 1, "propname": pn})
        for ln in lines:
            chk.case([ln["op"], ln["cat"], ln["v"], ln["info"]["cs"][:12], ln["info"]["len"] in (2, 3, 250, 251), str(ln["res"])])
        rejected = set()
        for r in common.validate_trace(chk, "Trace_Registry", "Trace_Registry", lines, "S3_code_to_spec"):
            ln = lines[r[0] - 1]
            rejected.add(r[0] - 1)
            real = ln.get("propname") or "?"
            cls = "+".join(sorted(set(ln["info"]["cs"]) - {"lower"})) or "lower-only"
            lencls = "len<3" if ln["info"]["len"] < 3 else "len>250" if ln["info"]["len"] > 250 else "len-ok"
            chk.violation({"entry": {"register": "Custom* decorator", "propname": "Custom* decorator (property name)"}.get(ln["op"], ln["op"]),
                           "clause": r[2], "case": "cat=%s v=%s chars=%s %s" % (ln["cat"], ln["v"], cls, lencls)}, {"line": ln, "clause": r[2]}, "S3")
        chk.sample({"trace_line": lines[0]})
        # ---- S4
        good = [json.loads(json.dumps(x)) for i, x in enumerate(lines) if i not in rejected and x["op"] == "register" and x["res"] == "ok" and x["tid"] > 200000][:12]
        good[2]["res"] = "Duplicate"
        good[7]["post"] = good[7]["pre"]
        rej = common.validate_trace(chk, "Trace_Registry", "Trace_Registry", good, "S4_selftest", count=False)
        ok4 = sorted({r[0] for r in rej}) == [3, 8]
        chk.notes["binding_selftest"] = {"corrupted_lines": 2, "rejected_lines": len({r[0] for r in rej}), "ok": ok4}
        if not ok4:
            chk.machinery("binding self-test failed: %r" % (rej,))
    finally:
        rr.restore()


def replay(path):
    d = json.load(open(path))["detail"]
    print(json.dumps(d, indent=1)[:3000])
    return 0
