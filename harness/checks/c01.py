"""C01 -- serialize/parse round trip is lossless for every object and option set.  Specs: ObjectModel.tla (S1), Trace_ObjectModel.tla (+ frozen model for defaults and order)."""
import json

from .. import common
from . import om

PREFIX = "C01:"


def run(chk):
    quick = chk.tier == "quick"
    chk.rule = ("a case is (object, serialization option set): objects of every type of both versions generated from the frozen model (required only / everything / random subsets), with custom "
                "properties, bundles, a 2.0 container, crossed with the 16 option sets (pretty x sort_keys x include_optional_defaults x indent); distinct_nontrivial counts distinct "
                "(version, type, construction, option set, outcome flags)")
    chk.assumptions = ["equality is the library's own == plus json.loads comparison of the texts; byte-level JSON writing is simplejson's",
                       "which properties may be dropped / must be listed in which order comes from spec/frozen/model2x.json (defaults, specification order), judged by TLC"]
    om.s1(chk)
    lines = om.roundtrip_lines(chk, quick)
    for ln in lines:
        chk.case([ln["v"], ln["key"], ln["how"], sorted(ln["opts"].items()), ln["same_class"], ln["equal"], ln["same_text"], ln["options_equal"], ln["exc"]])

    def rep(ln, clause, extra):
        chk.violation({"entry": "serialize/parse", "clause": clause, "case": "%s %s %s opts=%s dropped=%s exc=%s" % (
            ln["v"], ln["key"], ln["how"], ",".join("%s=%s" % kv for kv in sorted(ln["opts"].items())), ",".join(ln["dropped"])[:60], ln["exc"])},
            {"line": ln, "clause": clause}, "S2")
    rejected = om.validate(chk, lines, PREFIX, rep)
    for i, ln in enumerate(lines):
        if ln["exc"] != "none" and i not in rejected:
            rep(ln, "C01:round_trip_raised_" + ln["exc"], "")
    chk.sample({"roundtrip_line": {k: v for k, v in lines[0].items() if k != "text_sample"}})
    good = [json.loads(json.dumps({k: x[k] for k in om.KEEP["roundtrip"]})) for i, x in enumerate(lines) if i not in rejected and x["v"] == "2.1" and x["exc"] == "none" and x["pretty"]][:8]
    good[2]["equal"] = False
    good[5]["pretty"] = list(reversed(good[5]["pretty"]))
    rej = common.validate_trace(chk, "Trace_ObjectModel", "Trace_ObjectModel", good, "S4_selftest", env={"MODEL_FILE": om.lex.model_file("2.1")}, count=False)
    hit = sorted({r[0] for r in rej})
    ok4 = hit == [3, 6]
    chk.notes["binding_selftest"] = {"corrupted_lines": 2, "rejected_lines": len(hit), "ok": ok4}
    if not ok4:
        chk.machinery("binding self-test failed: %r" % (rej,))


def replay(path):
    d = json.load(open(path))["detail"]["line"]
    print(json.dumps(d, indent=1)[:3000])
    return 0
