"""C17 -- bad input is reported only through the library's error family.  Specs: ObjectModel.tla (S1: NoInternalEscape), Trace_ObjectModel.tla."""
import json

from .. import common
from . import om

PREFIX = "C17:"


def run(chk):
    quick = chk.tier == "quick"
    chk.rule = ("a case is one input to parse / constructors: arbitrary JSON values as the whole document, valid objects of every type with one or several members replaced by a value of "
                "another JSON kind (top level, inside embedded objects, extensions, bundle and container members), the single-point corruptions of C02, deep nesting; plus failed "
                "constructions against registry / store snapshots; distinct_nontrivial counts distinct (version, type, replaced member, replacement kind, strictness, escaped class)")
    chk.assumptions = ["family = STIXError subclasses, ValueError, TypeError (isinstance); everything else counts as internal",
                       "JSON-decodable input only; nesting depth 150 (deeper is bounded by the interpreter's own JSON decoder)"]
    om.s1(chk)
    om.custom_types()
    before = om.deep_registry_snapshot()
    lines = om.emit_lines(chk, quick, junk=True)
    after = om.deep_registry_snapshot()
    # everything that was registered before the run of bad (and good) inputs says afterwards what it said before; types the run registers itself come on top
    changed = sorted(k for k in before if after.get(k) != before[k])
    lines.append({"kind": "state", "how": "whole_run_of_inputs:registered_classes_changed=%s" % ",".join(changed[:5]), "unchanged": not changed})
    lines += om.state_lines(chk)
    for ln in lines:
        chk.case([ln.get("v"), ln.get("key"), ln.get("ctx", ln.get("how", "")).split(":")[-2:], ln.get("strict"), ln.get("exc", "")])

    def rep(ln, clause, extra):
        ctx = ln.get("ctx", ln.get("how", ""))
        parts = ctx.split(":")
        member = parts[-2] if len(parts) >= 3 else parts[-1]
        chk.violation({"entry": ln.get("entry", "parse"), "clause": clause, "exc": ln.get("exc", ""),
                       "case": "member=%s kind=%s" % (member[:40], parts[-1][:20])},
                      {"line": {k: v for k, v in ln.items() if k != "doc"}, "clause": clause}, "S2")
    rejected = om.validate(chk, lines, PREFIX, rep)
    import collections
    chk.notes["escaped_classes"] = dict(collections.Counter(l.get("exc", "none") for l in lines if l["kind"] == "emit"))
    chk.sample({"junk_line": {k: v for k, v in next(l for l in lines if l.get("ctx", "").startswith("junk")).items() if k in ("ctx", "strict", "ok", "exc", "family", "input")}})
    good = [json.loads(json.dumps({k: x[k] for k in om.KEEP["emit"]})) for i, x in enumerate(lines) if i not in rejected and x["kind"] == "emit" and not x["ok"] and x["v"] == "2.1"][:6]
    good[1]["family"] = False
    good[1]["exc"] = "KeyError"
    rej = common.validate_trace(chk, "Trace_ObjectModel", "Trace_ObjectModel", good, "S4_selftest", env={"MODEL_FILE": om.lex.model_file("2.1")}, count=False)
    hit = sorted({r[0] for r in rej})
    ok4 = hit == [2]
    chk.notes["binding_selftest"] = {"corrupted_lines": 1, "rejected_lines": len(hit), "ok": ok4}
    if not ok4:
        chk.machinery("binding self-test failed: %r" % (rej,))


def replay(path):
    d = json.load(open(path))["detail"]["line"]
    if isinstance(d.get("input"), dict) and set(d["input"]) == {"generated"}:
        # a line of a systematic stage (objects built by the harness, sequences): re-run the stage and show the lines of the same name
        from .. import common

        class Quiet(object):
            tier, seed = "quick", 0
            import random as _r
            rng = _r.Random(0)
            notes, stages = {}, {}
            scratch = common.tlc.make_scratch("replay")

            def case(self, *a, **k):
                pass
        name = d.get("place") or d.get("ctx")
        lines = [ln for ln in om.emit_lines(Quiet(), True) if (ln.get("place") or ln.get("ctx")) == name]
        print(json.dumps({"recorded": {k: v for k, v in d.items() if k != "doc"}, "now": [{k: v for k, v in ln.items() if k not in ("doc", "output")} for ln in lines[:6]]}, indent=1, default=str)[:4000])
        return 0
    if d.get("kind") == "state":
        print(json.dumps(d))
        return 0
    ln = om.junk_one(d["ctx"], d["input"], d["v"], d["strict"]) if d["ctx"].startswith("junk") else om.emit_one(d["v"], d["key"], d["ctx"], d["input"], d["entry"])
    print(json.dumps({k: v for k, v in ln.items() if k != "doc"}, indent=1, default=str)[:3000])
    return 0
