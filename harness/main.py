import argparse
import importlib
import os
import sys
import traceback

from . import common, tlc


def main():
    ap = argparse.ArgumentParser()
    ap.add_argument("pid")
    ap.add_argument("--tier", default=os.environ.get("VERIF_TIER", "quick"), choices=["quick", "thorough"])
    ap.add_argument("--replay", default=None)
    ap.add_argument("--seed", type=int, default=int(os.environ.get("VERIF_SEED", "0") or 0))
    a = ap.parse_args()
    sys.path.insert(0, common.REPO)
    try:
        mod = importlib.import_module("harness.checks.%s" % a.pid.lower())
    except ImportError:
        traceback.print_exc()
        print("no such check %s" % a.pid, file=sys.stderr)
        return 2
    if a.replay:
        return mod.replay(a.replay)
    chk = common.Check(a.pid.upper(), a.tier, a.seed, getattr(mod, "LEVEL", "model_checking"))
    try:
        mod.run(chk)
    except tlc.TlcFailure as e:
        chk.machinery(str(e))
    except Exception:
        chk.machinery(traceback.format_exc())
    return chk.finish()


if __name__ == "__main__":
    sys.exit(main())
