import argparse
import importlib
import os
import sys
import traceback

from . import common, tlc


# which exhaustive configuration of the composition a check runs in the quick tier (the thorough tier runs the two-object and the two-marking configurations)
SYSTEM = {"C01": None, "C05": "MC_Stix2SystemOne", "C07": None, "C08": None, "C11": None, "C12": None, "C13": "MC_Stix2SystemOne21", "C18": "MC_Stix2SystemOne"}


def main():
    ap = argparse.ArgumentParser()
    ap.add_argument("pid")
    ap.add_argument("--tier", default=os.environ.get("VERIF_TIER", "quick"), choices=["quick", "thorough"])
    ap.add_argument("--replay", default=None)
    ap.add_argument("--seed", type=int, default=int(os.environ.get("VERIF_SEED", "0") or 0))
    a = ap.parse_args()
    sys.path.insert(0, common.REPO)
    try:
        mod = importlib.import_module("harness.checks.%s" % a.pid.lower())
    except ImportError:
        traceback.print_exc()
        print("no such check %s" % a.pid, file=sys.stderr)
        return 2
    if a.replay:
        import json
        d = json.load(open(a.replay))
        if d.get("stage") == "SYS_S2":
            from .checks import system
            return system.replay_file(d["detail"])
        return mod.replay(a.replay)
    chk = common.Check(a.pid.upper(), a.tier, a.seed, getattr(mod, "LEVEL", "model_checking"))
    try:
        mod.run(chk)
        if a.pid.upper() in SYSTEM:
            # the composition (spec/Stix2System.tla): deviations are attributed by clause prefix, the exhaustive configurations run in three of the checks
            from .checks import system
            system.stage(chk, a.pid.upper() + ":", exhaustive=SYSTEM[a.pid.upper()])
    except tlc.TlcFailure as e:
        chk.machinery(str(e))
    except Exception:
        chk.machinery(traceback.format_exc())
    return chk.finish()


if __name__ == "__main__":
    sys.exit(main())
