"""Applies the hand audit of the bootstrapped tables against the STIX 2.0 / 2.1 texts and writes the model the checks use
(spec/frozen/model20.json, model21.json).  Run once after bootstrap_frozen.py; output committed.  Every delta is listed in
spec/frozen/AUDIT.md.  Entries the audit is not certain about are marked lenient (they generate no obligation)."""
import json
import os
import sys

HERE = os.path.join(os.path.dirname(os.path.dirname(os.path.abspath(__file__))), "spec", "frozen")

SRO = ["relationship", "sighting"]
# inter-property constraints, structured (kinds: le a<=b, lt a<b on timestamps; mutex; at_least_one; requires (if a present then b present);
# if_true (if boolean a is true then b present); iff_present (a present <=> b present); definition_by_type (a marking definition's `definition` is the
# marking object its `definition_type` names, where the specification defines that type: statement, tlp))
C21 = {
    "objects:marking-definition": [{"k": "definition_by_type"}],
    "objects:indicator": [{"k": "lt", "a": "valid_from", "b": "valid_until"}],
    "objects:observed-data": [{"k": "le", "a": "first_observed", "b": "last_observed"}, {"k": "mutex", "of": ["objects", "object_refs"]}, {"k": "at_least_one", "of": ["objects", "object_refs"]}],
    "objects:sighting": [{"k": "le", "a": "first_seen", "b": "last_seen"}],
    "objects:campaign": [{"k": "le", "a": "first_seen", "b": "last_seen"}],
    "objects:intrusion-set": [{"k": "le", "a": "first_seen", "b": "last_seen"}],
    "objects:threat-actor": [{"k": "le", "a": "first_seen", "b": "last_seen"}],
    "objects:malware": [{"k": "le", "a": "first_seen", "b": "last_seen"}, {"k": "if_true", "a": "is_family", "b": "name"}],
    "objects:infrastructure": [{"k": "le", "a": "first_seen", "b": "last_seen"}],
    "objects:relationship": [{"k": "lt", "a": "start_time", "b": "stop_time"}],
    "objects:location": [{"k": "at_least_one", "of": ["region", "country", "latitude"]}, {"k": "iff_present", "a": "latitude", "b": "longitude"}, {"k": "requires", "a": "precision", "b": "latitude"}],
    "objects:malware-analysis": [{"k": "at_least_one", "of": ["result", "analysis_sco_refs"]}],
    "embedded:ExternalReference": [{"k": "at_least_one", "of": ["description", "url", "external_id"]}],
    "observables:file": [{"k": "at_least_one", "of": ["hashes", "name"]}],
    "observables:artifact": [{"k": "mutex", "of": ["payload_bin", "url"]}, {"k": "at_least_one", "of": ["payload_bin", "url"]}, {"k": "requires", "a": "url", "b": "hashes"}],
    "observables:network-traffic": [{"k": "at_least_one", "of": ["src_ref", "dst_ref"]}, {"k": "le", "a": "start", "b": "end"}, {"k": "if_true_forbids", "a": "is_active", "b": "end"}],
    "observables:email-message": [{"k": "if_true_forbids", "a": "is_multipart", "b": "body"}, {"k": "if_false_forbids", "a": "is_multipart", "b": "body_multipart"}],
    "observables:process": [{"k": "any_property", "except": ["type", "id", "spec_version", "defanged", "extensions"]}],
    "observables:x509-certificate": [{"k": "at_least_one", "of": ["is_self_signed", "hashes", "version", "serial_number", "signature_algorithm", "issuer", "validity_not_before",
                                                                  "validity_not_after", "subject", "subject_public_key_algorithm", "subject_public_key_modulus",
                                                                  "subject_public_key_exponent", "x509_v3_extensions"]}],
}
# STIX 2.0 states one timestamp-order rule only (modified >= created, part of the common properties); the rules for valid_from/valid_until,
# first_seen/last_seen and first_observed/last_observed arrived with 2.1 and create no obligation for 2.0 content.
C20 = {
    "objects:marking-definition": [{"k": "definition_by_type"}],
    "embedded:ExternalReference": [{"k": "at_least_one", "of": ["description", "url", "external_id"]}],
    "observables:artifact": [{"k": "mutex", "of": ["payload_bin", "url"]}, {"k": "at_least_one", "of": ["payload_bin", "url"]}, {"k": "requires", "a": "url", "b": "hashes"}],
    "observables:network-traffic": [{"k": "at_least_one", "of": ["src_ref", "dst_ref"]}],     # (is_active / end: a MUST of 2.1; not certain for the 2.0 text, so no obligation -- AUDIT.md)
    "observables:email-message": [{"k": "if_true_forbids", "a": "is_multipart", "b": "body"}, {"k": "if_false_forbids", "a": "is_multipart", "b": "body_multipart"}],
    "observables:file": [{"k": "at_least_one", "of": ["hashes", "name"]}, {"k": "requires", "a": "encryption_algorithm", "b": "is_encrypted"}, {"k": "requires", "a": "decryption_key", "b": "is_encrypted"},
                         {"k": "if_false_forbids", "a": "is_encrypted", "b": "encryption_algorithm"}, {"k": "if_false_forbids", "a": "is_encrypted", "b": "decryption_key"}],
    "observables:process": [{"k": "any_property", "except": ["type", "extensions"]}],
}
# properties whose value space the audit does not pin down (language tags, MIME types, CPE/SWID, patterns of other languages ...): no obligation
LENIENT_PROPS = {"lang", "mime_type", "cpe", "swid", "pattern", "pattern_version", "content_type", "languages", "path_enc", "name_enc", "definition", "contents", "schema"}


def audit(version):
    raw = json.load(open(os.path.join(HERE, "stix20.json" if version == "2.0" else "stix21.json")))
    cons = C20 if version == "2.0" else C21
    model = {"spec_version": version, "sro": SRO, "types": {}, "deltas": []}
    entries = list(raw["types"].items()) + [("embedded:" + k, v) for k, v in raw["embedded"].items()]
    for key, t in entries:
        cat = key.split(":")[0]
        props = []
        for p in t["properties"]:
            p = dict(p)
            name = p["name"]
            # A1: what the JSON must contain (the library fills fixed / generated values, so it lists them as not "required")
            p["jsonreq"] = bool(p["required"]) or name == "type" or (name == "id" and cat in ("objects", "observables") and not (version == "2.0" and cat == "observables")) \
                or (p.get("default") == "NOW" and cat == "objects") \
                or (name == "spec_version" and cat == "objects" and version == "2.1" and key != "objects:bundle")
            # A2: STIX 2.1 confidence is an integer 0..100
            if name == "confidence" and p["kind"] == "integer" and "max" not in p:
                p["min"], p["max"] = 0, 100
                model["deltas"].append("%s.confidence: range 0..100 added (library: unbounded)" % key)
            # A3: properties the library computes when absent count as defaults (it may add them to what it emits)
            if name == "pattern_version" and "default" not in p:
                p["default"] = "COMPUTED"
            # A4: STIX 2.0 timestamps of the common properties have exactly millisecond precision, also on marking definitions
            if version == "2.0" and key == "objects:marking-definition" and name == "created":
                p["precision"], p["constraint"] = "millisecond", "exact"
                model["deltas"].append("2.0 marking-definition.created: millisecond/exact (library: decided per input)")
            # A5: the TLP marking object: tlp is one of the four lower-case levels (the specifications fix the four instances; other instances must not be used)
            if key == "markings:tlp" and name == "tlp":
                p["kind"], p["allowed"] = "enum", ["white", "green", "amber", "red"]
                model["deltas"].append("%s.tlp: enumeration white/green/amber/red (library: any string, checked against the fixed instances by case-sensitive comparison)" % key)
            p["lenient"] = name in LENIENT_PROPS or (version == "2.0" and key == "objects:marking-definition" and name == "created")
            props.append(p)
        model["types"][key] = {"class": t["class"], "category": cat, "type": t.get("type") or "", "properties": props, "constraints": cons.get(key, []),
                               "id_contributing": t.get("id_contributing", [])}
    for key in cons:
        if key not in model["types"]:
            raise SystemExit("constraint for unknown type " + key)
    if "embedded:WindowsPEOptionalHeaderType" in model["types"]:
        model["types"]["embedded:WindowsPEOptionalHeaderType"]["constraints"].append({"k": "any_property", "except": []})
    for key, t in model["types"].items():       # every extension must carry at least one property
        if key.startswith("extensions:"):
            t["constraints"] = t["constraints"] + [{"k": "any_property", "except": ["extension_type"]}]
    return model


if __name__ == "__main__":
    for v, fn in (("2.0", "model20.json"), ("2.1", "model21.json")):
        m = audit(v)
        json.dump(m, open(os.path.join(HERE, fn), "w"), indent=1)
        print(fn, len(m["types"]), "types", len(m["deltas"]), "deltas")
