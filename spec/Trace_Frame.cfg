SPECIFICATION TraceSpec
INVARIANT Done
CHECK_DEADLOCK FALSE
