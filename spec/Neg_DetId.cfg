SPECIFICATION DSpec
CONSTANTS
  Values = {}
  Objects <- MCObjects
  Perms <- MCPerms
  NonContribEdits <- MCNon
  ContribEdits <- MCCon
INVARIANT BadSame
CHECK_DEADLOCK FALSE
