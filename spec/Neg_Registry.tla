---- MODULE Neg_Registry ----
\* Negative configuration: registration that overwrites on duplicate: Exclusive must fail.
EXTENDS MC_Registry
BadRegister(cat, name, v) ==
  /\ NameValid(cat, v, NameInfo[name])
  /\ reg' = [reg EXCEPT ![v][cat] = [n \in (DOMAIN @) \cup {name} |-> IF n = name THEN next ELSE @[n]]]
  /\ next' = next + 1 /\ last' = [op |-> "register", cat |-> cat, name |-> name, v |-> v, res |-> "ok"]
BadNext == \E name \in Names, v \in Versions, cat \in Cats : BadRegister(cat, name, v)
BadSpec == Init /\ [][BadNext]_vars
====
