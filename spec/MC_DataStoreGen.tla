---- MODULE MC_DataStoreGen ----
\* Behaviour generation for spec -> code replay: additions in every form and order, interleaved with reads whose
\* answers the specification computes from the plain list.
EXTENDS MC_DataStore, Json
VARIABLE hist
Ids == { o.id : o \in MCUniverse }
Keys(S) == { [id |-> o.id, ver |-> o.ver, name |-> o.name] : o \in S }
GenAdd(form, objs) ==
  /\ Add(form, objs)
  /\ hist' = Append(hist, [op |-> "add", form |-> form, objs |-> Keys(objs), fsres |-> last'.fsres])
Read(rec) == UNCHANGED vars /\ hist' = Append(hist, rec)
FSets == { FF \in SUBSET MCFilters : Cardinality(FF) <= 2 }
GenNext ==
  \/ \E form \in {"object", "dict", "list", "bundle_obj", "bundle_dict", "json"}, objs \in (SUBSET MCUniverse) \ {{}} :
        /\ Cardinality(objs) <= 3
        /\ (Cardinality(objs) = 1 \/ ~\E o \in objs : \E p \in fs : Key(p) = Key(o))
        /\ (form \in {"object", "dict", "json"} => Cardinality(objs) = 1)
        /\ GenAdd(form, objs)
  \/ \E id \in Ids : Read([op |-> "get", id |-> id, mem |-> Keys(Newest(mem, id)), fs |-> Keys(Newest(fs, id))])
  \/ \E id \in Ids : Read([op |-> "all_versions", id |-> id, mem |-> Keys(AllVersions(mem, id)), fs |-> Keys(AllVersions(fs, id))])
  \/ \E FF \in FSets : Read([op |-> "query", filters |-> FF, mem |-> Keys(Query(mem, FF)), fs |-> Keys(Query(fs, FF))])
  \/ Read([op |-> "saveload", mem |-> Keys(mem)])
GenInit == Init /\ hist = <<>>
GenSpec == GenInit /\ [][GenNext]_<<vars, hist>>
CONSTANT Depth
GenBound == Len(hist) <= Depth
Emit == Len(hist) = Depth => PrintT(<<"BEH", ToJson(hist)>>)
====
