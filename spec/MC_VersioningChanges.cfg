\* change-set-focused: every change set, few clock readings, up to 3 versions
SPECIFICATION Spec
CONSTANTS
  PropNames <- PN
  Required <- Req
  Locked <- Lck
  Roots <- MCRoots
  Deltas <- FewDeltas
  UserDeltas <- FewUser
  ChangeSets <- AllChanges
  MaxVersions = 3
INVARIANT ChainMonotone
INVARIANT RevokedTerminal
INVARIANT LastStepOK
PROPERTY Immutable
CHECK_DEADLOCK FALSE
