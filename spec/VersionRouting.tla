---------------------------- MODULE VersionRouting ----------------------------
(***************************************************************************)
(* C14 -- a requested spec version is honoured everywhere and never alters  *)
(* strictness (parsing.py, utils.detect_spec_version, datastore/memory.py,  *)
(* datastore/filesystem.py, properties._check_uuid).                        *)
(*                                                                         *)
(* A call is (entry, form, arg, shape, idc, ac):                            *)
(*   entry : public entry point with a version parameter                    *)
(*   form  : how the content is handed over (dict, json text, list, bundle) *)
(*   arg   : "none" | "2.0" | "2.1"  (the version the caller names)         *)
(*   shape : features of the content that version detection looks at        *)
(*   idc   : identifier class                                               *)
(*   ac    : the allow_custom setting in force at that entry point          *)
(* The one rule: the outcome equals that of a direct parse with the named   *)
(* version, or with the detected version when none is named.                *)
(***************************************************************************)
EXTENDS Integers, Sequences, FiniteSets, TLC

Versions == {"2.0", "2.1"}
Args == {"none"} \cup Versions

\* shape = [t, sv, hasid, inner]:  t \in {"sdo","sco","bundle","custom"}, sv = value of spec_version or "none",
\* inner = for bundles the greatest version detected over the members ("none" if empty)
MaxV(a, b) == IF a = "2.1" \/ b = "2.1" THEN "2.1" ELSE "2.0"

\* utils.detect_spec_version
Detect(s) ==
  IF s.sv # "none" THEN (IF s.t = "bundle" THEN "2.0" ELSE s.sv)
  ELSE IF ~s.hasid THEN "2.0"
  ELSE IF s.t = "bundle" THEN MaxV("2.1", s.inner)
  ELSE IF s.t = "sco" THEN "2.1"
  ELSE "2.0"

\* ("type_of_other_version": a reference whose type exists in the OTHER spec version only -- for the version in force that is a reference to a custom type, never accepted strictly)
IdClasses == {"uuid4", "uuid1", "uuid5", "nil", "badvariant", "garbage", "noid", "type_of_other_version"}
\* STIX 2.0: UUIDv4 only; STIX 2.1: any RFC 4122 variant UUID; nothing else, ever
IdAccept(v, idc) == idc \in {"uuid4", "noid"} \/ (v = "2.1" /\ idc \in {"uuid1", "uuid5"})

\* STIX 2.0 cyber observables have no identifier: an "id" member there is at most a custom property
IdApplies(v, s) == ~(s.t = "sco" /\ v = "2.0")

Effective(arg, s) == IF arg = "none" THEN Detect(s) ELSE arg

Family(v) == IF v = "2.0" THEN "v20" ELSE "v21"

\* Best-knowledge model of the direct strict/permissive parse (used for the design-level matrix; in conformance the
\* measured direct outcome is used and only the id / family clauses below are binding)
Compatible(v, s, ac) ==
  IF s.t = "custom" THEN s.reg = v \/ s.reg = "both"
  ELSE IF s.t = "bundle" THEN (v = "2.0") = (s.sv # "none") \/ ac
  ELSE IF s.t = "sco" THEN (v = "2.1" /\ s.hasid) \/ (v = "2.0" /\ ~s.hasid /\ s.sv = "none") \/ ac
  ELSE s.sv = "none" \/ s.sv = v \/ ac
DirectModel(v, s, idc, ac) ==
  IF s.t = "custom" /\ ~Compatible(v, s, ac) THEN (IF ac THEN "dict" ELSE "err")
  ELSE IF IdApplies(v, s) /\ ~IdAccept(v, idc) THEN "err"
  ELSE IF Compatible(v, s, ac) THEN Family(v) ELSE "err"

-----------------------------------------------------------------------------
CONSTANTS Entries, Forms, Shapes
VARIABLES call, outcome
vars == <<call, outcome>>
Init == call = [entry |-> "none"] /\ outcome = "none"
Call(e, f, a, s, idc, ac) ==
  /\ call' = [entry |-> e, form |-> f, arg |-> a, shape |-> s, idc |-> idc, ac |-> ac]
  /\ outcome' = DirectModel(Effective(a, s), s, idc, ac)
Next == call.entry = "none" /\ \E e \in Entries, f \in Forms, a \in Args, s \in Shapes, idc \in IdClasses, ac \in BOOLEAN : Call(e, f, a, s, idc, ac)
Spec == Init /\ [][Next]_vars

\* naming a version never relaxes identifier validation: whatever is accepted with a version named
\* carries an identifier that version accepts
NamingNeverRelaxes == call.entry # "none" /\ call.arg # "none" /\ outcome \in {"v20", "v21"} /\ IdApplies(call.arg, call.shape) => IdAccept(call.arg, call.idc)
\* a named version is honoured: the result, if an object, is of exactly that version
Honoured == call.entry # "none" /\ call.arg # "none" /\ outcome \in {"v20", "v21"} => outcome = Family(call.arg)
\* identifiers no version accepts are refused everywhere
JunkIdsRefused == call.entry # "none" /\ call.idc \in {"nil", "badvariant", "garbage"} /\ call.shape.t # "custom"
                    /\ IdApplies(Effective(call.arg, call.shape), call.shape) => outcome \notin {"v20", "v21"}

\* what the library writes for version V is detected as V (shapes the serializer produces)
Produced == [ sdo20 |-> [t |-> "sdo", sv |-> "none", hasid |-> TRUE, inner |-> "none"],
              sdo21 |-> [t |-> "sdo", sv |-> "2.1", hasid |-> TRUE, inner |-> "none"],
              sco20 |-> [t |-> "sco", sv |-> "none", hasid |-> FALSE, inner |-> "none"],
              sco21 |-> [t |-> "sco", sv |-> "2.1", hasid |-> TRUE, inner |-> "none"],
              bundle20 |-> [t |-> "bundle", sv |-> "2.0", hasid |-> TRUE, inner |-> "2.0"],
              bundle21 |-> [t |-> "bundle", sv |-> "none", hasid |-> TRUE, inner |-> "2.1"],
              bundle21empty |-> [t |-> "bundle", sv |-> "none", hasid |-> TRUE, inner |-> "none"] ]
ProducedFor == [ sdo20 |-> "2.0", sdo21 |-> "2.1", sco20 |-> "2.0", sco21 |-> "2.1", bundle20 |-> "2.0", bundle21 |-> "2.1", bundle21empty |-> "2.1" ]
ProducedRecognised == \A n \in DOMAIN Produced : Detect(Produced[n]) = ProducedFor[n]
=============================================================================
