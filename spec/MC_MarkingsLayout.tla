---- MODULE MC_MarkingsLayout ----
EXTENDS MarkingsLayout
ASSUME AbstractionLaws
ASSUME LayoutIndependence
VARIABLE x
Init == x = 0
Next == UNCHANGED x
====
