------------------------------ MODULE Versioning ------------------------------
(***************************************************************************)
(* C05 -- stix2/versioning.py: new_version, revoke (and everything that     *)
(* produces versions through them, e.g. the marking functions).             *)
(*                                                                         *)
(* Time is integer microseconds relative to a base instant.  The wall clock *)
(* is read exactly once per call, so its reading `now` is an argument that  *)
(* the environment chooses freely (earlier, equal, later).                  *)
(*                                                                         *)
(* An object version is a record                                            *)
(*   [v, kind, created, modified, hasmod, revoked, props]                   *)
(*   v    : "2.0" | "2.1"                                                   *)
(*   kind : "obj" (library object) | "dict" (plain dictionary)              *)
(*          | "dict_nocreated" (dictionary of a versionable type lacking    *)
(*            created) | "unversionable" (type without versioning props)    *)
(*          | "sco5" (2.1 observable carrying versioning properties and a   *)
(*            deterministic UUIDv5 id: its id-contributing props are locked)*)
(*          | "sco4" (the same observable type with an id that is NOT a     *)
(*            UUIDv5 -- given by its producer: nothing is locked; what the  *)
(*            library concluded about one object of a type says nothing     *)
(*            about the next)                                               *)
(*   modified : stored value; for a dict without `modified`, hasmod = FALSE *)
(*              and the effective old time is `created`                     *)
(*   props : PropNames -> "absent" | value token                            *)
(***************************************************************************)
EXTENDS Integers, Sequences, FiniteSets, TLC

CONSTANTS PropNames,      \* ordinary changeable properties tracked by the model
          Required,       \* subset of PropNames that the type requires (objects refuse their removal)
          Locked          \* subset of PropNames that contribute to a deterministic id (kind "sco5")

Unmodifiable == {"created", "created_by_ref", "id", "type"}

Trunc(m) == (m \div 1000) * 1000

\* the old time new_version compares against: parsed with millisecond precision,
\* "exact" for 2.0 (truncation) and "min" for 2.1 (all digits kept)
OldEff(o) == IF o.v = "2.0" THEN Trunc(o.modified) ELSE o.modified
UserEff(m, v) == IF v = "2.0" THEN Trunc(m) ELSE m

\* _fudge_modified
Fudge(old, now, v) ==
  IF v = "2.1" THEN (IF now <= old THEN old + 1 ELSE now)
  ELSE (IF now - old < 1000 THEN old + 1000 ELSE now)

\* what ends up stored: a 2.0 *object* cleans the value to millisecond precision;
\* dictionaries keep whatever was computed / supplied (named deviation DictKeepsMicros)
Store(m, o) == IF o.v = "2.0" /\ o.kind \in {"obj"} THEN Trunc(m) ELSE m

\* the instant that serialization at the spec version's precision denotes, in that precision's units
Ser(m, v) == IF v = "2.0" THEN m \div 1000 ELSE m
\* the same in microseconds (what a reader of the JSON text sees)
SerUs(m, v) == IF v = "2.0" THEN Trunc(m) ELSE m

Err(e) == [ok |-> FALSE, err |-> e]
Ok(o) == [ok |-> TRUE, obj |-> o]

NewProps(o, ch) == [p \in PropNames |->
                      IF p \in DOMAIN ch THEN (IF ch[p] = "none" THEN "absent" ELSE ch[p]) ELSE o.props[p]]

LockedFor(o) == IF o.kind = "sco5" THEN Locked ELSE {}

\* op: [k |-> "new", ch, now] | [k |-> "newmod", ch, m] | [k |-> "revoke", now]
Apply(o, op) ==
  LET ch == IF op.k = "revoke" THEN <<>> ELSE op.ch IN
  IF o.kind = "unversionable" THEN Err("TypeNotVersionableError")
  ELSE IF o.kind = "dict_nocreated" THEN Err("ObjectNotVersionableError")
  ELSE IF o.revoked THEN Err("RevokeError")
  ELSE IF (DOMAIN ch) \cap (Unmodifiable \cup LockedFor(o)) # {} THEN Err("UnmodifiablePropertyError")
  ELSE IF op.k = "newmod" /\ UserEff(op.m, o.v) <= OldEff(o) THEN Err("InvalidValueError")
  ELSE LET np == NewProps(o, ch) IN
       IF o.kind \in {"obj", "sco5", "sco4"} /\ \E p \in Required : np[p] = "absent" THEN Err("MissingPropertiesError")
       ELSE Ok([o EXCEPT !.modified = IF op.k = "newmod" THEN Store(op.m, o) ELSE Store(Fudge(OldEff(o), op.now, o.v), o),
                         !.hasmod = TRUE,
                         !.revoked = (op.k = "revoke"),
                         !.props = np])

-----------------------------------------------------------------------------
(* The property on one step (used on the model and on every observed call) *)
StrictlyNewerSerialized(o, n) == Ser(n.modified, n.v) > Ser(o.modified, o.v) /\ n.modified > o.modified
IdentityPreserved(o, n) == n.v = o.v /\ n.kind = o.kind /\ n.created = o.created
ExactChanges(o, n, ch) == n.props = NewProps(o, ch)

StepOK(o, op, r) ==
  /\ o.revoked => ~r.ok
  /\ r.ok => /\ StrictlyNewerSerialized(o, r.obj)
             /\ IdentityPreserved(o, r.obj)
             /\ ExactChanges(o, r.obj, IF op.k = "revoke" THEN <<>> ELSE op.ch)
             /\ r.obj.revoked = (op.k = "revoke")
  /\ (op.k # "revoke" /\ (DOMAIN op.ch) \cap (Unmodifiable \cup LockedFor(o)) # {}) => ~r.ok
  /\ (op.k = "newmod" /\ op.m <= o.modified) => ~r.ok

-----------------------------------------------------------------------------
(* State machine: a pool of versions grown from one root *)
CONSTANTS Roots, Deltas, ChangeSets, UserDeltas, MaxVersions
VARIABLES pool,      \* set of [id, parent, obj]
          last       \* [op, src, res] of the last call
vars == <<pool, last>>

NoCall == [src |-> 0, res |-> Err("none")]
Init == \E r \in Roots : pool = {[id |-> 1, parent |-> 0, obj |-> r]} /\ last = NoCall

Do(e, op) ==
  LET r == Apply(e.obj, op) IN
  /\ last' = [src |-> e.id, op |-> op, res |-> r]
  /\ IF r.ok THEN pool' = pool \cup {[id |-> Cardinality(pool) + 1, parent |-> e.id, obj |-> r.obj]}
     ELSE pool' = pool

Next == /\ Cardinality(pool) < MaxVersions
        /\ \E e \in pool :
             \/ \E d \in Deltas, ch \in ChangeSets : Do(e, [k |-> "new", ch |-> ch, now |-> e.obj.modified + d])
             \/ \E d \in UserDeltas, ch \in {<<>>} : Do(e, [k |-> "newmod", ch |-> ch, m |-> e.obj.modified + d])
             \/ \E d \in Deltas : Do(e, [k |-> "revoke", now |-> e.obj.modified + d])
Spec == Init /\ [][Next]_vars

Entry(i) == CHOOSE e \in pool : e.id = i
RECURSIVE Ancestors(_)
Ancestors(e) == IF e.parent = 0 THEN {} ELSE {Entry(e.parent)} \cup Ancestors(Entry(e.parent))

\* along any chain the serialized modified times strictly increase; identity never changes
ChainMonotone == \A e \in pool : \A a \in Ancestors(e) :
                    Ser(e.obj.modified, e.obj.v) > Ser(a.obj.modified, a.obj.v) /\ IdentityPreserved(a.obj, e.obj)
\* nothing descends from a revoked version
RevokedTerminal == \A e \in pool : \A a \in Ancestors(e) : ~a.obj.revoked
\* the last call satisfied the step property
LastStepOK == last.src # 0 => StepOK(Entry(last.src).obj, last.op, last.res)
\* existing versions are never changed or dropped
Immutable == [][pool \subseteq pool']_vars
=============================================================================
