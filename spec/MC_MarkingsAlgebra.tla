---- MODULE MC_MarkingsAlgebra ----
\* S1: the state machine plus the algebraic laws as theorems over all G, O and arguments of the configured universe
EXTENDS MC_Markings
ASSUME Algebra
====
