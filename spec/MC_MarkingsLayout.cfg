INIT Init
NEXT Next
CONSTANTS
  LSel = {"s1", "s2", "s3"}
  LMark = {"M1", "M2"}
  MaxEntries = 3
