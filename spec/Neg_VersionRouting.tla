---- MODULE Neg_VersionRouting ----
\* Negative configuration: a store entry that drops the named version (falls back to detection): Honoured must fail.
EXTENDS MC_VersionRouting
BadCall(e, f, a, s, idc, ac) ==
  /\ call' = [entry |-> e, form |-> f, arg |-> a, shape |-> s, idc |-> idc, ac |-> ac]
  /\ outcome' = DirectModel(IF e = "MemoryStore.add" THEN Detect(s) ELSE Effective(a, s), s, idc, ac)
BadNext == call.entry = "none" /\ \E e \in Entries, f \in Forms, a \in Args, s \in Shapes, idc \in IdClasses, ac \in BOOLEAN : BadCall(e, f, a, s, idc, ac)
BadSpec == Init /\ [][BadNext]_vars
====
