---- MODULE Neg_Versioning ----
\* Negative configuration: _fudge_modified with "<" for "<=" (2.1) and 999 for 1000 (2.0): ChainMonotone must fail.
EXTENDS MC_Versioning
BadFudge(old, now, v) == IF v = "2.1" THEN (IF now < old THEN old + 1 ELSE now) ELSE (IF now - old < 999 THEN old + 1000 ELSE now)
BadApply(o, op) == IF op.k = "new" /\ Apply(o, op).ok
                   THEN Ok([Apply(o, op).obj EXCEPT !.modified = Store(BadFudge(OldEff(o), op.now, o.v), o)]) ELSE Apply(o, op)
BadDo(e, op) == LET r == BadApply(e.obj, op) IN
  /\ last' = [src |-> e.id, op |-> op, res |-> r]
  /\ IF r.ok THEN pool' = pool \cup {[id |-> Cardinality(pool) + 1, parent |-> e.id, obj |-> r.obj]} ELSE pool' = pool
BadNext == Cardinality(pool) < MaxVersions /\ \E e \in pool : \E d \in Deltas : BadDo(e, [k |-> "new", ch |-> <<>>, now |-> e.obj.modified + d])
BadSpec == Init /\ [][BadNext]_vars
====
