------------------------------ MODULE PatternSem ------------------------------
(***************************************************************************)
(* C09 / C10 -- the STIX patterning semantics over a bounded universe of    *)
(* observation sequences, on an AST that mirrors stix2/patterns.py.         *)
(*                                                                         *)
(* AST                                                                      *)
(*   [k |-> "cmp", type, prop, op, neg, const]   const: integer or (for IN) *)
(*                                               a sequence of integers     *)
(*   [k |-> "and" | "or", args]                  comparison level           *)
(*   [k |-> "paren", e]                          explicit grouping          *)
(*   [k |-> "obs", e]                            [ comparison expression ]  *)
(*   [k |-> "oand" | "oor" | "fb", args]         observation level          *)
(*   [k |-> "qual", e, q]   q: [k |-> "repeats", n] | [k |-> "within", s]    *)
(*                             | [k |-> "startstop", t1, t2]                 *)
(* Universe: an observation is [t, o] with one object of type "a" with      *)
(* integer properties b, c; Sigmas = all time-ordered sequences of at most  *)
(* MaxLen observations.  An observation expression denotes, per sequence,   *)
(* a set of bindings (sets of positions); operators combine *disjoint*      *)
(* bindings (distinct observations).                                        *)
(***************************************************************************)
EXTENDS Integers, Sequences, FiniteSets, TLC

CONSTANTS Vals, Times, MaxLen
Objs == [b : Vals, c : Vals]
Obsn == [t : Times, o : Objs]
SeqsOfLen(n) == { s \in [1..n -> Obsn] : \A i \in 1..(n - 1) : s[i].t <= s[i + 1].t }
Sigmas == UNION { SeqsOfLen(n) : n \in 0..MaxLen }

ToSet(q) == { q[i] : i \in DOMAIN q }
Rel(op, x, v) == IF op = "=" THEN x = v ELSE IF op = "!=" THEN x # v ELSE IF op = "<" THEN x < v ELSE IF op = "<=" THEN x <= v
                 ELSE IF op = ">" THEN x > v ELSE IF op = ">=" THEN x >= v ELSE IF op = "IN" THEN x \in ToSet(v) ELSE FALSE

RECURSIVE Ev(_, _)
Ev(e, o) == IF e.k = "cmp" THEN (e.type = "a" /\ e.prop \in {"b", "c"} /\ (Rel(e.op, o[e.prop], e.const) # e.neg))
            ELSE IF e.k = "paren" THEN Ev(e.e, o)
            ELSE IF e.k = "and" THEN \A i \in DOMAIN e.args : Ev(e.args[i], o)
            ELSE \E i \in DOMAIN e.args : Ev(e.args[i], o)

MinT(s, x) == CHOOSE m \in { s[i].t : i \in x } : \A i \in x : m <= s[i].t
MaxT(s, x) == CHOOSE m \in { s[i].t : i \in x } : \A i \in x : m >= s[i].t
Disjoint(X, Y) == { x \cup y : x \in X, y \in { z \in Y : TRUE } } 
Comb(X, Y) == { x \cup y : <<x, y>> \in { p \in X \X Y : p[1] \cap p[2] = {} } }
CombFB(s, X, Y) == { p[1] \cup p[2] : p \in { q \in X \X Y : q[1] \cap q[2] = {} /\ MaxT(s, q[1]) <= MinT(s, q[2]) } }

RECURSIVE B(_, _), FoldAnd(_, _, _), FoldFB(_, _, _), Rep(_, _, _)
FoldAnd(args, i, s) == IF i = Len(args) THEN B(args[i], s) ELSE Comb(B(args[i], s), FoldAnd(args, i + 1, s))
\* FOLLOWEDBY chains: each operand's observations come no earlier than those of the operand before it
FoldFB(args, i, s) == IF i = 1 THEN B(args[1], s) ELSE CombFB(s, FoldFB(args, i - 1, s), B(args[i], s))
Rep(X, n, acc) == IF n = 0 THEN acc ELSE Rep(X, n - 1, Comb(acc, X))
B(p, s) ==
  IF p.k = "obs" THEN { {i} : i \in { j \in DOMAIN s : Ev(p.e, s[j].o) } }
  ELSE IF p.k = "paren" THEN B(p.e, s)
  ELSE IF p.k = "oand" THEN FoldAnd(p.args, 1, s)
  ELSE IF p.k = "oor" THEN UNION { B(p.args[i], s) : i \in DOMAIN p.args }
  ELSE IF p.k = "fb" THEN FoldFB(p.args, Len(p.args), s)
  ELSE \* qualified
    LET X == B(p.e, s) IN
    IF p.q.k = "repeats" THEN (IF p.q.n <= 0 THEN {} ELSE Rep(X, p.q.n - 1, X))
    ELSE IF p.q.k = "within" THEN { x \in X : MaxT(s, x) - MinT(s, x) <= p.q.s }
    ELSE { x \in X : \A i \in x : p.q.t1 <= s[i].t /\ s[i].t < p.q.t2 }
Matches(p, s) == B(p, s) # {}
Sem(p) == { s \in Sigmas : Matches(p, s) }
Same(p, q) == \A s \in Sigmas : Matches(p, s) = Matches(q, s)
=============================================================================
