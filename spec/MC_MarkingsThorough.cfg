SPECIFICATION Spec
CONSTANTS
  Sel <- MCSel
  Bad <- MCBad
  Refs <- SmallRefs
  Langs <- MCLangs
CONSTRAINT Bound
VIEW MView
INVARIANT TypeOK
INVARIANT OnlyValidSelectors
PROPERTY VersionDiscipline
CHECK_DEADLOCK FALSE
