SPECIFICATION Spec
CONSTANTS
  Types <- MCTypes
  Ids <- MCIds
  TypeOf <- MCTypeOf
  Alphabet <- MCAlphabet
INVARIANT Sound
INVARIANT Perm
CHECK_DEADLOCK FALSE
