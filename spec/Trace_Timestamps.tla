---- MODULE Trace_Timestamps ----
(* Trace validation for C15.  One line = one observed format_datetime(parse_into_datetime(x, prec, con)):
     form \in {"dt","date","str","prop"}, c (civil fields, for dt/date/prop), src (codes, for str),
     prec, con, ok, exc, out (codes), ok2, out2 (write-read-write), hasb, cb, outb (a later neighbour, order check).
   Total: a failing line prints REJECT with the clause name; checking goes on with the next line. *)
EXTENDS Timestamps, Json, IOUtils, TLCExt
TraceLog == ndJsonDeserialize(IOEnv.TRACE_FILE)
VARIABLE l
tvars == <<vars, l>>

Rej(e, clause) == PrintT(<<"REJECT", l, e.form, clause>>)

CheckLine(e) ==
  LET src == IF e.form = "str" THEN ParseText(e.src) ELSE [ok |-> TRUE, c |-> e.c] IN
  IF ~src.ok THEN PrintT(<<"NOOBLIGATION", l, "spelling_outside_model">>)
  ELSE IF ~InRange(Instant(src.c)) THEN PrintT(<<"NOOBLIGATION", l, "utc_image_out_of_range">>)
  ELSE IF ~e.ok THEN
     (IF e.form = "prop" THEN PrintT(<<"NOOBLIGATION", l, "object_level_refusal">>)
      ELSE IF e.form # "str" THEN Rej(e, "refused_in_range_datetime")
      ELSE IF CanonicalShape(e.src) THEN Rej(e, "refused_canonical_text") ELSE PrintT(<<"NOOBLIGATION", l, "refused_noncanonical_text">>))
  ELSE
     LET c == src.c
         cl == FailingClause(c, e.prec, e.con, e.out) IN
     /\ IF cl # "none" THEN Rej(e, cl) ELSE TRUE
     /\ IF cl = "none" /\ e.out # Format(c, e.prec, e.con) THEN PrintT(<<"DEVIATION", l, "acceptable_but_not_model_text">>) ELSE TRUE
     /\ IF ~e.ok2 THEN Rej(e, "own_output_not_readable") ELSE IF e.out2 # e.out THEN Rej(e, "fixed_point") ELSE TRUE
     /\ IF e.hasb /\ cl = "none" /\ InRange(Instant(e.cb)) /\ Leq(Instant(c), Instant(e.cb))
        THEN LET pa == ParseText(e.out) pb == ParseText(e.outb) IN
             IF pa.ok /\ pb.ok /\ Leq(Instant(pa.c), Instant(pb.c)) THEN TRUE ELSE Rej(e, "order_not_preserved")
        ELSE TRUE

TraceInit == l = 1 /\ phase = "in" /\ inp = <<>> /\ pc = <<>> /\ text = <<>> /\ back = Bad /\ text2 = <<>>
TraceNext ==
  /\ l <= Len(TraceLog)
  /\ LET e == TraceLog[l] IN
     /\ CheckLine(e)
     /\ phase' = "text2" /\ inp' = (IF e.form = "str" THEN e.src ELSE e.c) /\ pc' = <<e.prec, e.con>>
     /\ text' = e.out /\ back' = Bad /\ text2' = e.out2
  /\ l' = l + 1
TraceSpec == TraceInit /\ [][TraceNext]_tvars
Done == l = Len(TraceLog) + 1 => PrintT(<<"DONE", Len(TraceLog)>>)
====
