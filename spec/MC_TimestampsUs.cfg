SPECIFICATION Spec
CONSTANTS
  Inputs <- UsInputs
  PCs <- AllPCs
INVARIANT InvAcceptable
INVARIANT InvReadable
INVARIANT InvFixedPoint
CHECK_DEADLOCK FALSE
