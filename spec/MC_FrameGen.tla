---- MODULE MC_FrameGen ----
\* Behaviour generation for spec -> code replay: the sequence of operations (with the cells / objects they take and make).
EXTENDS Frame, Json
VARIABLE hist
GenInit == Init /\ hist = <<>>
GenNext == Next /\ hist' = Append(hist, last')
GenSpec == GenInit /\ [][GenNext]_<<vars, hist>>
CONSTANT Depth
GenBound == Len(hist) <= Depth
Emit == Len(hist) = Depth => PrintT(<<"BEH", ToJson(hist)>>)
====
