---- MODULE MC_TimestampsDays ----
\* thorough: every calendar day of years 1..9999 (calendar inverse, 4-digit year, carry across the date line with an offset)
EXTENDS Timestamps
OnePC == {<<"millisecond","min">>}
DayInputs == { LET cd == CivilDate(n) IN [y |-> cd.y, mo |-> cd.mo, d |-> cd.d, h |-> 23, mi |-> 30, s |-> 0, us |-> 1000, off |-> 0 - 60] : n \in 1..MaxOrdinal }
====
