---- MODULE MC_TimestampsDays ----
\* thorough: every calendar day of years 1..9999.  The day number is the only initial-state choice (cheap);
\* the work (calendar inverse, formatting across the date line, reading back) is done in the step, in parallel.
EXTENDS Timestamps
VARIABLES day, done
DInit == day \in 1..MaxOrdinal /\ done = FALSE /\ phase = "x" /\ inp = 0 /\ pc = 0 /\ text = <<>> /\ back = Bad /\ text2 = <<>>
InputOf(n) == LET cd == CivilDate(n) IN [y |-> cd.y, mo |-> cd.mo, d |-> cd.d, h |-> 23, mi |-> 30, s |-> 0, us |-> 1000, off |-> 0 - 60]
DayOK(n) ==
  LET c == InputOf(n)
      ok == InRange(Instant(c)) IN
  /\ ValidDate(c.y, c.mo, c.d) /\ Ordinal(c.y, c.mo, c.d) = n
  /\ ok => LET t == Format(c, "millisecond", "min") IN
           /\ Acceptable(c, "millisecond", "min", t)
           /\ Format(ParseText(t).c, "millisecond", "min") = t
           /\ Instant(ParseText(t).c)[1] = n + 1          \* 23:30 at -01:00 is 00:30 UTC of the next day
DNext == ~done /\ done' = TRUE /\ day' = day /\ UNCHANGED vars /\ Assert(DayOK(day), <<"day fails", day>>)
DSpec == DInit /\ [][DNext]_<<day, done, vars>>
====
