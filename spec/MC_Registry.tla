---- MODULE MC_Registry ----
EXTENDS Registry, Json, IOUtils
L == "lower"  H == "hyphen"  D == "digit"
Info(cs, ext) == [cs |-> cs, len |-> Len(cs), ext |-> ext, dbl |-> FALSE]
MCNameInfo == [ x_aaa_ext |-> Info(<<L, H, L, L, L, H, L, L, L>>, TRUE),       \* "x-aaa-ext"
                x_bbb_ext |-> Info(<<L, H, L, L, L, H, L, L, L>>, TRUE),       \* "x-bbb-ext"
                x_ccc |-> Info(<<L, H, L, L, L>>, FALSE),                      \* "x-ccc"  (not an extension name in 2.1)
                identity |-> Info(<<L, L, L, L, L, L, L, L>>, FALSE),          \* built-in object
                file |-> Info(<<L, L, L, L>>, FALSE),                          \* built-in observable
                statement |-> Info(<<L, L, L, L, L, L, L, L, L>>, FALSE),      \* built-in marking
                ntfs_ext |-> Info(<<L, L, L, L, H, L, L, L>>, TRUE),           \* built-in extension
                x_bad |-> Info(<<L, "underscore", L, L, L>>, FALSE),           \* "x_bad"
                d9abc |-> Info(<<D, L, L, L>>, FALSE),                         \* "9abc": fine in 2.0, not in 2.1
                ab |-> Info(<<L, L>>, FALSE) ]                                 \* too short
MCNames == DOMAIN MCNameInfo
MCBuiltins == [v \in Versions |-> [objects |-> {"identity"}, observables |-> {"file"}, markings |-> {"statement"}, extensions |-> {"ntfs_ext"}]]
SmallNames == {"x_aaa_ext", "identity", "x_bad", "x_ccc"}
Bound == next <= 4
RegView == <<reg, next>>
====
