SPECIFICATION BadSpec
CONSTANTS
  MinArg <- MinArgV
  MaxArg = 102
  JunkLabels = {"none"}
INVARIANT RoundTripInv
CHECK_DEADLOCK FALSE
