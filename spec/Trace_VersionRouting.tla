---- MODULE Trace_VersionRouting ----
(* Trace validation for C14.  One line = one observed call:
     entry, form, arg, shape (features), idc, ac,
     d20, d21 (w20, w21 for content wrapped in a bundle: either reference is accepted) : outcomes of the direct parse of the same content with version 2.0 / 2.1 and the same allow_custom
     outcome  : what the entry point did ("v20" | "v21" | "dict" | "err" | "absent")
   Clauses: routing (same as the direct parse with the named / detected version), named version honoured,
   identifier validation never relaxed. *)
EXTENDS VersionRouting, Json, IOUtils, TLCExt
TraceLog == ndJsonDeserialize(IOEnv.TRACE_FILE)
VARIABLE l
tvars == <<vars, l>>
Norm(o) == IF o = "absent" THEN "err" ELSE o
Obj(o) == o \in {"v20", "v21"}
TraceInit == l = 1 /\ call = [entry |-> "none"] /\ outcome = "none"
TraceNext ==
  /\ l <= Len(TraceLog)
  /\ LET e == TraceLog[l]
         eff == Effective(e.arg, e.shape)
         direct == IF eff = "2.0" THEN e.d20 ELSE e.d21 IN
     /\ IF e.form \in {"bundle_dict", "bundle_dict_other_style"} /\ Norm(e.outcome) = Norm(IF eff = "2.0" THEN e.w20 ELSE e.w21)
           /\ (e.arg = "none" \/ e.entry \in {"parse", "FileSystemSink.add", "FileSystemStore.add"})      \* (the memory entry points take the members one by one and pass the named version on)
        THEN TRUE    \* an entry point may take the bundle as a whole: then it answers as the direct parse of that same bundle with the effective version does
                     \* (otherwise it takes the members one by one and the rules below apply to the member)
        ELSE IF Obj(e.outcome) /\ ~IdAccept(eff, e.idc) /\ e.shape.t # "custom" /\ IdApplies(eff, e.shape)
        THEN PrintT(<<"REJECT", l, e.entry, IF e.arg = "none" THEN "invalid_identifier_accepted" ELSE "naming_version_relaxes_identifier_validation">>)
        ELSE IF e.arg # "none" /\ Obj(e.outcome) /\ e.outcome # Family(e.arg)
        THEN PrintT(<<"REJECT", l, e.entry, "named_version_not_honoured">>)
        ELSE IF Norm(e.outcome) # Norm(direct)
        THEN PrintT(<<"REJECT", l, e.entry, IF e.arg = "none" THEN "detected_version_not_routed_as_direct_parse" ELSE "not_routed_as_direct_parse">>)
        ELSE TRUE
     /\ IF Norm(direct) # DirectModel(eff, e.shape, e.idc, e.ac) THEN PrintT(<<"DEVIATION", l, e.entry, "direct_parse_differs_from_model", direct>>) ELSE TRUE
     /\ call' = [entry |-> e.entry, form |-> e.form, arg |-> e.arg, shape |-> e.shape, idc |-> e.idc, ac |-> e.ac]
     /\ outcome' = e.outcome
  /\ l' = l + 1
TraceSpec == TraceInit /\ [][TraceNext]_tvars
Done == l = Len(TraceLog) + 1 => PrintT(<<"DONE", Len(TraceLog)>>)
====
