SPECIFICATION BadSpec
CONSTANTS
  Names <- SmallNames
  NameInfo <- MCNameInfo
  Builtins <- MCBuiltins
CONSTRAINT Bound
PROPERTY Exclusive
CHECK_DEADLOCK FALSE
