SPECIFICATION Spec
CONSTANTS
  Inputs <- QuickInputs
  PCs <- AllPCs
INVARIANT InvAcceptable
INVARIANT InvReadable
INVARIANT InvFixedPoint
INVARIANT InvCalendar
CHECK_DEADLOCK FALSE
