\* timing-focused: every clock reading, chains/branches up to 4 versions
SPECIFICATION Spec
CONSTANTS
  PropNames <- PN
  Required <- Req
  Locked <- Lck
  Roots <- MCRoots
  Deltas <- MCDeltas
  UserDeltas <- MCUserDeltas
  ChangeSets <- TimingChanges
  MaxVersions = 4
INVARIANT ChainMonotone
INVARIANT RevokedTerminal
INVARIANT LastStepOK
PROPERTY Immutable
CHECK_DEADLOCK FALSE
