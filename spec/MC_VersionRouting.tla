---- MODULE MC_VersionRouting ----
EXTENDS VersionRouting, Json, IOUtils
MCEntries == {"parse", "parse_observable", "MemoryStore()", "MemorySource()", "MemorySink()", "MemoryStore.add", "MemorySink.add",
              "MemorySource.load_from_file", "MemoryStore.load_from_file", "FileSystemSource.get", "FileSystemSource.all_versions",
              "FileSystemSource.query", "FileSystemSink.add", "FileSystemStore.add", "FileSystemStore.get"}
MCForms == {"dict", "json", "list", "nested_list", "bundle_dict", "object"}
Sh(t, sv, hasid) == [t |-> t, sv |-> sv, hasid |-> hasid, inner |-> "none"]
MCShapes == { Sh("sdo", "none", TRUE), Sh("sdo", "2.1", TRUE), Sh("sco", "none", TRUE), Sh("sco", "2.1", TRUE), Sh("sco", "none", FALSE),
              [t |-> "bundle", sv |-> "2.0", hasid |-> TRUE, inner |-> "2.0"], [t |-> "bundle", sv |-> "none", hasid |-> TRUE, inner |-> "2.1"],
              \* bundles without members, as the library itself produces them (v20.Bundle() keeps spec_version, v21.Bundle() is type and id only)
              [t |-> "bundle", sv |-> "2.0", hasid |-> TRUE, inner |-> "none"], [t |-> "bundle", sv |-> "none", hasid |-> TRUE, inner |-> "none"],
              [t |-> "custom", sv |-> "none", hasid |-> TRUE, inner |-> "none", reg |-> "2.0"],
              [t |-> "custom", sv |-> "2.1", hasid |-> TRUE, inner |-> "none", reg |-> "2.1"] }
ASSUME ProducedRecognised
\* S2: the matrix of cells, with the effective version the rule prescribes
Cells == { [arg |-> a, shape |-> s, idc |-> idc, ac |-> ac, eff |-> Effective(a, s), model |-> DirectModel(Effective(a, s), s, idc, ac)] :
           a \in Args, s \in MCShapes, idc \in IdClasses, ac \in BOOLEAN }
ASSUME IF "OUT_FILE" \in DOMAIN IOEnv THEN JsonSerialize(IOEnv.OUT_FILE, [cells |-> Cells]) ELSE TRUE
====
