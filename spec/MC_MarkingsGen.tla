---- MODULE MC_MarkingsGen ----
\* Behaviour generation for spec -> code replay: mutators and queries with their full arguments and the state after each.
EXTENDS MC_Markings, Json
VARIABLE hist
Pairs(g) == g
Rec(op, ms, ss, ur, ul, inh, desc, res, g, o) ==
  [op |-> op, ms |-> ms, ss |-> ss, ur |-> ur, ul |-> ul, inh |-> inh, desc |-> desc, res |-> res, G |-> g, O |-> o]
Mut(op, ms, ss, ur, ul, r) ==
  /\ Apply(op, r)
  /\ hist' = Append(hist, Rec(op, ms, ss, ur, ul, FALSE, FALSE, IF r.k = "err" THEN [k |-> "err", e |-> r.e] ELSE [k |-> r.k],
                              IF r.k = "new" THEN r.G ELSE G, IF r.k = "new" THEN r.O ELSE O))
Qry(op, ms, ss, ur, ul, inh, desc, res) ==
  /\ UNCHANGED <<G, O, ver>> /\ last' = [op |-> op, res |-> "query"]
  /\ hist' = Append(hist, Rec(op, ms, ss, ur, ul, inh, desc, res, G, O))
QGet(ss, inh, desc, ur, ul) == IF ~Valid(ss) THEN [k |-> "err", e |-> "InvalidSelectorError"] ELSE [k |-> "set", v |-> Get(G, O, ss, inh, desc, ur, ul)]
QIs(m, ss, inh, desc) == IF ~Valid(ss) THEN [k |-> "err", e |-> "InvalidSelectorError"] ELSE [k |-> "bool", v |-> IsMarkedWith(G, O, m, ss, inh, desc)]
QAny(ss, inh, desc) == IF ~Valid(ss) THEN [k |-> "err", e |-> "InvalidSelectorError"] ELSE [k |-> "bool", v |-> IsMarkedAny(G, O, ss, inh, desc)]
RefSets == { s \in MarkSets : s \subseteq Refs }
GenNext ==
  \/ \E ms \in MarkSets, ss \in SelSets : Mut("add", ms, ss, TRUE, TRUE, AddG(G, O, ms, ss)) \/ Mut("remove", ms, ss, TRUE, TRUE, RemoveG(G, O, ms, ss))
  \/ \E ss \in SelSets, ur \in BOOLEAN, ul \in BOOLEAN : Mut("clear", {}, ss, ur, ul, ClearG(G, O, ss, ur, ul))
  \/ \E ms \in MarkSets, ss \in SelSets, ur \in BOOLEAN, ul \in BOOLEAN : Mut("set", ms, ss, ur, ul, SetG(G, O, ms, ss, ur, ul))
  \/ \E ms \in RefSets : Mut("addO", ms, {}, TRUE, TRUE, AddO(G, O, ms)) \/ Mut("removeO", ms, {}, TRUE, TRUE, RemoveO(G, O, ms)) \/ Mut("setO", ms, {}, TRUE, TRUE, SetO(G, O, ms))
  \/ Mut("clearO", {}, {}, TRUE, TRUE, ClearO(G, O))
  \/ \E ss \in SelSets, inh \in BOOLEAN, desc \in BOOLEAN, ur \in BOOLEAN, ul \in BOOLEAN : Qry("get", {}, ss, ur, ul, inh, desc, QGet(ss, inh, desc, ur, ul))
  \/ \E m \in Mark, ss \in SelSets, inh \in BOOLEAN, desc \in BOOLEAN : Qry("is_marked", {m}, ss, TRUE, TRUE, inh, desc, QIs(m, ss, inh, desc))
  \/ \E ss \in SelSets, inh \in BOOLEAN, desc \in BOOLEAN : Qry("is_marked_any", {}, ss, TRUE, TRUE, inh, desc, QAny(ss, inh, desc))
  \/ Qry("getO", {}, {}, TRUE, TRUE, FALSE, FALSE, [k |-> "set", v |-> O])
  \/ \E m \in Refs : Qry("is_markedO", {m}, {}, TRUE, TRUE, FALSE, FALSE, [k |-> "bool", v |-> m \in O])
GenInit == Init /\ hist = <<>>
GenSpec == GenInit /\ [][GenNext]_<<vars, hist>>
CONSTANT Depth
GenBound == Len(hist) <= Depth
Emit == Len(hist) = Depth => PrintT(<<"BEH", ToJson(hist)>>)
====
