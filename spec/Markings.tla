------------------------------- MODULE Markings -------------------------------
(***************************************************************************)
(* C07 -- data-marking operations as an algebra over (selector, marking)    *)
(* pairs (markings/__init__.py, granular_markings.py, object_markings.py,   *)
(* utils.py; results are produced through versioning.new_version).          *)
(*                                                                         *)
(* State of one marked object:                                              *)
(*   G \subseteq Sel \X Mark   granular pairs                               *)
(*   O \subseteq Refs          object-level marking references              *)
(* Sel is the set of selectors that address something in the object (C08);  *)
(* Bad is a set of selectors that address nothing.  Mark = Refs \cup Langs. *)
(***************************************************************************)
EXTENDS Integers, Sequences, FiniteSets, TLC

CONSTANTS Sel, Bad, Refs, Langs
Mark == Refs \cup Langs
Anc(s, t) == Len(s) < Len(t) /\ SubSeq(t, 1, Len(s)) = s

KindOK(m, useRef, useLang) == (m \in Refs /\ useRef) \/ (m \in Langs /\ useLang)

\* markings reported for a set of selectors
Get(G, O, sels, inh, desc, useRef, useLang) ==
  { m \in Mark : KindOK(m, useRef, useLang) /\ \E s \in sels, p \in G :
                   p[2] = m /\ (p[1] = s \/ (inh /\ Anc(p[1], s)) \/ (desc /\ Anc(s, p[1]))) }
  \cup (IF inh THEN O ELSE {})
IsMarkedWith(G, O, m, sels, inh, desc) == m \in Get(G, O, sels, inh, desc, TRUE, TRUE)
IsMarkedAny(G, O, sels, inh, desc) == Get(G, O, sels, inh, desc, TRUE, TRUE) # {}

\* results: [k |-> "new", G, O] (a new version) | [k |-> "same"] (object returned unchanged) | [k |-> "err", e]
New(g, o) == [k |-> "new", G |-> g, O |-> o]
Same == [k |-> "same"]
Err(e) == [k |-> "err", e |-> e]
ValidIn(S, sels) == sels # {} /\ sels \subseteq S
Valid(sels) == ValidIn(Sel, sels)

AddGS(S, G, O, ms, sels) == IF ~ValidIn(S, sels) THEN Err("InvalidSelectorError") ELSE New(G \cup (sels \X ms), O)
AddG(G, O, ms, sels) == AddGS(Sel, G, O, ms, sels)
RemoveGS(S, G, O, ms, sels) ==
  IF ~ValidIn(S, sels) THEN Err("InvalidSelectorError")
  ELSE IF G = {} THEN Same
  ELSE IF (sels \X ms) \cap G = {} THEN Err("MarkingNotFoundError")
  ELSE New(G \ (sels \X ms), O)
RemoveG(G, O, ms, sels) == RemoveGS(Sel, G, O, ms, sels)
ClearGS(S, G, O, sels, useRef, useLang) ==
  IF ~ValidIn(S, sels) THEN Err("InvalidSelectorError")
  ELSE IF G = {} THEN Same
  ELSE IF ~\E p \in G : p[1] \in sels THEN Err("MarkingNotFoundError")
  ELSE New({ p \in G : ~(p[1] \in sels /\ KindOK(p[2], useRef, useLang)) }, O)
ClearG(G, O, sels, useRef, useLang) == ClearGS(Sel, G, O, sels, useRef, useLang)
SetGS(S, G, O, ms, sels, useRef, useLang) ==
  LET c == ClearGS(S, G, O, sels, useRef, useLang) IN
  IF c.k = "err" THEN c ELSE AddGS(S, IF c.k = "same" THEN G ELSE c.G, O, ms, sels)
SetG(G, O, ms, sels, useRef, useLang) == SetGS(Sel, G, O, ms, sels, useRef, useLang)

AddO(G, O, ms) == New(G, O \cup ms)
RemoveO(G, O, ms) == IF O = {} THEN Same ELSE IF ~(ms \subseteq O) THEN Err("MarkingNotFoundError") ELSE New(G, O \ ms)
ClearO(G, O) == New(G, {})
SetO(G, O, ms) == New(G, ms)

-----------------------------------------------------------------------------
(* The algebra (theorems about the operators, checked by TLC over all G, O and arguments) *)
AllG == SUBSET (Sel \X Mark)
AllO == SUBSET Refs
SelSets == { s \in SUBSET (Sel \cup Bad) : s # {} /\ Cardinality(s) <= 2 }
MarkSets == { s \in SUBSET Mark : s # {} /\ Cardinality(s) <= 2 }
GoodSets == { s \in SelSets : s \subseteq Sel }

AddReported == \A G \in AllG, ms \in MarkSets, ss \in GoodSets :
   LET r == AddG(G, {}, ms, ss) IN \A s \in ss, m \in ms : IsMarkedWith(r.G, {}, m, {s}, FALSE, FALSE)
AddIdempotent == \A G \in AllG, ms \in MarkSets, ss \in GoodSets :
   LET r == AddG(G, {}, ms, ss) IN AddG(r.G, {}, ms, ss).G = r.G
AddCommutes == \A G \in AllG, m1 \in MarkSets, m2 \in MarkSets, s1 \in GoodSets, s2 \in GoodSets :
   AddG(AddG(G, {}, m1, s1).G, {}, m2, s2).G = AddG(AddG(G, {}, m2, s2).G, {}, m1, s1).G
RemoveRestores == \A G \in AllG, ms \in MarkSets, ss \in GoodSets :
   (ss \X ms) \cap G = {} => RemoveG(AddG(G, {}, ms, ss).G, {}, ms, ss).G = G
ClearLeavesOthers == \A G \in AllG, ss \in GoodSets :
   LET r == ClearG(G, {}, ss, TRUE, TRUE) IN
   r.k = "new" => ({ p \in r.G : p[1] \in ss } = {} /\ { p \in G : p[1] \notin ss } = { p \in r.G : p[1] \notin ss })
SetIsClearThenAdd == \A G \in AllG, ms \in MarkSets, ss \in GoodSets, ur \in BOOLEAN, ul \in BOOLEAN :
   LET c == ClearG(G, {}, ss, ur, ul)
       s == SetG(G, {}, ms, ss, ur, ul) IN
   c.k = "new" => s = AddG(c.G, {}, ms, ss)
QueriesAgree == \A G \in AllG, O \in AllO, m \in Mark, ss \in GoodSets, inh \in BOOLEAN, desc \in BOOLEAN :
   /\ IsMarkedWith(G, O, m, ss, inh, desc) <=> m \in Get(G, O, ss, inh, desc, TRUE, TRUE)
   /\ IsMarkedAny(G, O, ss, inh, desc) <=> Get(G, O, ss, inh, desc, TRUE, TRUE) # {}
\* inheritance follows the path tree: a marking on t is inherited by s only if t is an ancestor of s by steps
TreeNotPrefix == \A GG \in AllG, s \in Sel, m \in Mark :
   m \in Get(GG, {}, {s}, TRUE, FALSE, TRUE, TRUE) => \E t \in Sel : <<t, m>> \in GG /\ (t = s \/ Anc(t, s))
Algebra == AddReported /\ AddIdempotent /\ AddCommutes /\ RemoveRestores /\ ClearLeavesOthers /\ SetIsClearThenAdd /\ QueriesAgree /\ TreeNotPrefix

-----------------------------------------------------------------------------
(* State machine *)
VARIABLES G, O, ver, last
vars == <<G, O, ver, last>>
Init == G = {} /\ O = {} /\ ver = 0 /\ last = [op |-> "none"]

Apply(op, r) ==
  /\ last' = [op |-> op, res |-> r.k]
  /\ IF r.k = "new" THEN G' = r.G /\ O' = r.O /\ ver' = ver + 1 ELSE UNCHANGED <<G, O, ver>>

Next ==
  \/ \E ms \in MarkSets, ss \in SelSets : Apply("add", AddG(G, O, ms, ss)) \/ Apply("remove", RemoveG(G, O, ms, ss))
  \/ \E ss \in SelSets, ur \in BOOLEAN, ul \in BOOLEAN : Apply("clear", ClearG(G, O, ss, ur, ul))
  \/ \E ms \in MarkSets, ss \in SelSets, ur \in BOOLEAN, ul \in BOOLEAN : Apply("set", SetG(G, O, ms, ss, ur, ul))
  \/ \E ms \in { s \in MarkSets : s \subseteq Refs } : Apply("addO", AddO(G, O, ms)) \/ Apply("removeO", RemoveO(G, O, ms)) \/ Apply("setO", SetO(G, O, ms))
  \/ Apply("clearO", ClearO(G, O))
Spec == Init /\ [][Next]_vars

TypeOK == G \subseteq Sel \X Mark /\ O \subseteq Refs
\* every state change is a new version, every refusal leaves the state alone
VersionDiscipline == [][ (<<G, O>>' # <<G, O>> => ver' = ver + 1) /\ (last'.res # "new" => <<G, O, ver>>' = <<G, O, ver>>) ]_vars
\* nothing invalid ever gets in
OnlyValidSelectors == \A p \in G : p[1] \in Sel
=============================================================================
