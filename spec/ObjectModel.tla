------------------------------ MODULE ObjectModel ------------------------------
(***************************************************************************)
(* C01, C02, C03, C04, C17 -- the object lifecycle as a design model         *)
(* (base.py: _STIXBase.__init__; serialization.py; parsing.py).             *)
(*                                                                         *)
(* A synthetic schema with one slot of every behaviour that matters to the  *)
(* lifecycle.  An input assigns to each slot a value class; construction    *)
(* walks the steps of __init__ in order; serialization drops defaulted      *)
(* optional slots unless asked not to; parsing the text back re-defaults.   *)
(*                                                                         *)
(* Slot kinds:                                                               *)
(*   req    required, no default            (e.g. name)                      *)
(*   fixed  fixed value, filled if absent   (type)                           *)
(*   gen    generated when absent           (id, created)                    *)
(*   dflt   optional with a default value   (revoked = false)                *)
(*   opt    optional, no default            (description)                    *)
(*   emb    optional embedded object whose own slots repeat the scheme       *)
(* Value classes: absent | valid | dfltval (the slot's default) | falsy      *)
(* (a valid value that is false/0/"") | bad (fails cleaning) | wrongkind     *)
(* (a JSON kind the cleaner does not expect) | custom (only in place "x")    *)
(***************************************************************************)
EXTENDS Integers, Sequences, FiniteSets, TLC

Slots == {"type", "id", "name", "revoked", "desc", "emb", "x"}      \* "x" stands for a property the schema does not know
Kind == [type |-> "fixed", id |-> "gen", name |-> "req", revoked |-> "dflt", desc |-> "opt", emb |-> "emb", x |-> "unknown"]
Classes == {"absent", "valid", "dfltval", "falsy", "bad", "wrongkind", "custom"}
\* which classes an input may give to a slot
Legal(s, c) == CASE Kind[s] = "unknown" -> c \in {"absent", "custom"}
                 [] Kind[s] = "dflt" -> c \in {"absent", "valid", "dfltval", "bad", "wrongkind"}
                 [] Kind[s] = "emb" -> c \in {"absent", "valid", "bad", "wrongkind", "custom"}     \* custom: a custom property inside the embedded object
                 [] Kind[s] = "fixed" -> c \in {"absent", "dfltval", "bad", "wrongkind"}
                 [] OTHER -> c \in {"absent", "valid", "falsy", "bad", "wrongkind"}
Inputs == { i \in [Slots -> Classes] : \A s \in Slots : Legal(s, i[s]) }

\* ---- construction: the result is an object [vals, defaulted, has_custom] or an error class
CleanOK(c) == c \in {"valid", "dfltval", "falsy", "custom"}
Construct(i, allow) ==
  IF i["x"] = "custom" /\ ~allow THEN [k |-> "err", e |-> "ExtraPropertiesError"]
  ELSE IF \E s \in Slots : i[s] \in {"bad", "wrongkind"} THEN [k |-> "err", e |-> "InvalidValueError"]     \* the generic wrapper: wrong kinds never escape as internal errors
  ELSE IF i["emb"] = "custom" /\ ~allow THEN [k |-> "err", e |-> "InvalidValueError"]
  ELSE IF i["name"] = "absent" THEN [k |-> "err", e |-> "MissingPropertiesError"]
  ELSE [k |-> "obj",
        vals |-> [s \in Slots |-> IF i[s] # "absent" THEN i[s]
                                  ELSE IF Kind[s] \in {"fixed", "dflt"} THEN "dfltval" ELSE IF Kind[s] = "gen" THEN "valid" ELSE "absent"],
        defaulted |-> { s \in Slots : i[s] = "absent" /\ Kind[s] = "dflt" },
        has_custom |-> (i["x"] = "custom" \/ i["emb"] = "custom")]

\* ---- serialization: slot -> class written; defaulted optional slots are omitted unless include_defaults
Serialize(o, include) == [s \in { t \in Slots : o.vals[t] # "absent" /\ (include \/ t \notin o.defaulted) } |-> o.vals[s]]
\* ---- parsing text back: the text is an input with absent for what it omits
AsInput(text) == [s \in Slots |-> IF s \in DOMAIN text THEN text[s] ELSE "absent"]
Reparse(text, allow) == Construct(AsInput(text), allow)

-----------------------------------------------------------------------------
VARIABLES phase, input, allow, include, obj, text, back
vars == <<phase, input, allow, include, obj, text, back>>
None == [k |-> "none"]
Init == /\ phase = "input" /\ input \in Inputs /\ allow \in BOOLEAN /\ include \in BOOLEAN
        /\ obj = None /\ text = <<>> /\ back = None
DoConstruct == phase = "input" /\ obj' = Construct(input, allow) /\ phase' = (IF Construct(input, allow).k = "obj" THEN "object" ELSE "error") /\ UNCHANGED <<input, allow, include, text, back>>
DoSerialize == phase = "object" /\ text' = Serialize(obj, include) /\ phase' = "text" /\ UNCHANGED <<input, allow, include, obj, back>>
DoReparse == phase = "text" /\ back' = Reparse(text, TRUE) /\ phase' = "reparsed" /\ UNCHANGED <<input, allow, include, obj, text>>
Next == DoConstruct \/ DoSerialize \/ DoReparse
Spec == Init /\ [][Next]_vars

\* C01: dropping defaulted slots and re-defaulting at parse time is the identity; the two option settings denote the same value up to defaulted slots
RoundTripEqual == phase = "reparsed" => back.k = "obj" /\ back.vals = obj.vals /\ back.has_custom = obj.has_custom
OptionsSameValue == phase = "object" => \A s \in Slots : (s \in DOMAIN Serialize(obj, TRUE) /\ s \notin DOMAIN Serialize(obj, FALSE)) => (s \in obj.defaulted /\ obj.vals[s] = "dfltval")
\* C02: whatever is written in strict mode carries only cleaned classes, every required slot, nothing unknown
StrictOutputValid == phase = "text" /\ ~allow => /\ \A s \in DOMAIN text : CleanOK(text[s]) /\ text[s] # "custom"
                                                 /\ {"type", "id", "name"} \subseteq DOMAIN text /\ "x" \notin DOMAIN text
\* C03: an input that is valid in every slot is accepted and every given slot is written as given
ValidInput(i) == i["name"] \in {"valid", "falsy"} /\ \A s \in Slots : i[s] \in {"absent", "valid", "dfltval", "falsy"}
ValidAccepted == phase \in {"object", "error"} /\ ValidInput(input) => phase = "object" /\ \A s \in Slots : input[s] # "absent" => obj.vals[s] = input[s]
\* C04: strict mode refuses custom content anywhere; in permissive mode the flag is set exactly when a strict re-parse of the output is refused
HasInjection(i) == i["x"] = "custom" \/ i["emb"] = "custom"
StrictRefuses == phase \in {"object", "error"} /\ ~allow /\ HasInjection(input) => phase = "error"
FlagIffStrictRefusal == phase = "object" /\ allow => (obj.has_custom <=> Reparse(Serialize(obj, FALSE), FALSE).k = "err")
\* C17: every failure is a member of the documented error family
NoInternalEscape == phase = "error" => obj.e \in {"ExtraPropertiesError", "InvalidValueError", "MissingPropertiesError"}
=============================================================================
