SPECIFICATION Spec
CONSTANTS
  Values <- ThoroughValues
INVARIANT InvRefusal
INVARIANT InvParsesBack
INVARIANT InvFixedPoint
INVARIANT InvNoWhitespace
CHECK_DEADLOCK FALSE
