SPECIFICATION Spec
INVARIANT BadOptions
CHECK_DEADLOCK FALSE
