---- MODULE Neg_Frame ----
\* Negative configuration: a "new version" made from a shallow copy that is then updated in place: NoMutation must fail.
EXTENDS Frame
BadNewVersion(o, v) == o \in objs /\ heap' = [heap EXCEPT ![CHOOSE x \in o : TRUE] = v] /\ objs' = objs \cup {o} /\ UNCHANGED caller /\ last' = L("new_version", 0, Min(o), 0)
BadNext == Next \/ \E o \in objs, v \in Tokens : BadNewVersion(o, <<v>>)
BadSpec == Init /\ [][BadNext]_vars
====
