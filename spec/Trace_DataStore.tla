---- MODULE Trace_DataStore ----
(* Trace validation for C11, C12, C18.  One line = one read observed on a real store / source / composite / environment:
     op, S (the plain list of everything added to that store so far, as object records), members (for a composite: the lists of
     its members in attachment order), id, filters (all filters in force, whichever route they took: argument, attached, composite),
     nav : [rtype, src_only, tgt_only], ans (the answer as object records), plus flags computed by the harness on the concrete
     objects: same_content (what came out serializes as what went in), classes_ok.
   Clause prefixes name the property the clause belongs to. *)
EXTENDS DataStore, Json, IOUtils, TLCExt
TraceLog == ndJsonDeserialize(IOEnv.TRACE_FILE)
VARIABLE l
tvars == <<vars, l>>
Rec(r) == [id |-> r.id, type |-> r.type, ver |-> r.ver, name |-> r.name, num |-> r.num, labels |-> r.labels,
           refs |-> [i \in DOMAIN r.refs |-> [s |-> r.refs[i].s, v |-> r.refs[i].v]],
           src |-> r.src, tgt |-> r.tgt, rtype |-> r.rtype, creator |-> r.creator]
Recs(q) == { Rec(q[i]) : i \in DOMAIN q }
Flt(f) == [prop |-> f.prop, op |-> f.op, val |-> IF f.op \in {"in", "=seq", "!=seq"} THEN ToSet(f.val) ELSE f.val]
Flts(q) == { Flt(q[i]) : i \in DOMAIN q }
Rej(e, c) == PrintT(<<"REJECT", l, e.op, c>>)
\* the same, naming the types of the objects that are wrongly present or absent (to tell causes apart)
Wrong(A, X) == { o.type : o \in (A \ X) \cup (X \ A) }
RejW(e, c, A, X) == PrintT(<<"REJECT", l, e.op, c, Wrong(A, X)>>)
NoDup(q) == \A i, j \in DOMAIN q : i # j => <<q[i].id, q[i].ver>> # <<q[j].id, q[j].ver>>

TraceInit == l = 1 /\ added = <<>> /\ mem = {} /\ fs = {} /\ last = [op |-> "none"]
TraceNext ==
  /\ l <= Len(TraceLog)
  /\ LET e == TraceLog[l]
         S == Recs(e.S)
         F == Flts(e.filters)
         A == Recs(e.ans) IN
     /\ IF e.op = "get" THEN
           (IF A \notin GetAnswers(S, e.id, F) THEN Rej(e, IF F = {} THEN "C11:get_not_newest_version" ELSE "C12:get_with_filters") ELSE TRUE)
        ELSE IF e.op = "all_versions" THEN
           (IF A # Query(AllVersions(S, e.id), F) THEN RejW(e, IF F = {} THEN "C11:all_versions_not_every_version_added" ELSE "C12:all_versions_with_filters", A, Query(AllVersions(S, e.id), F)) ELSE TRUE)
        ELSE IF e.op = "query" THEN
           (IF A # Query(S, F) THEN RejW(e, IF A \subseteq Query(S, F) THEN "C12:query_misses_matching_objects" ELSE "C12:query_returns_non_matching_objects", A, Query(S, F)) ELSE TRUE)
        ELSE IF e.op = "cget" THEN
           (IF A \notin GetAnswers(S, e.id, F) THEN Rej(e, "C18:composite_get_not_newest_of_any_member") ELSE TRUE)
        ELSE IF e.op = "call_versions" THEN
           (IF A # Query(AllVersions(S, e.id), F) THEN RejW(e, "C18:composite_all_versions_not_union", A, Query(AllVersions(S, e.id), F)) ELSE TRUE)
        ELSE IF e.op = "cquery" THEN
           (IF A # Query(S, F) THEN RejW(e, "C18:composite_query_not_union", A, Query(S, F)) ELSE TRUE)
        ELSE IF e.op = "relationships" THEN
           (IF A # Rels(S, e.id, e.nav.rtype, e.nav.src_only, e.nav.tgt_only) THEN RejW(e, "C18:relationships_not_as_scan", A, Rels(S, e.id, e.nav.rtype, e.nav.src_only, e.nav.tgt_only)) ELSE TRUE)
        ELSE IF e.op = "related_to" THEN
           (IF A # RelatedTo(S, e.id, e.nav.rtype, e.nav.src_only, e.nav.tgt_only, F) THEN RejW(e, "C18:related_to_not_as_scan", A, RelatedTo(S, e.id, e.nav.rtype, e.nav.src_only, e.nav.tgt_only, F)) ELSE TRUE)
        ELSE IF e.op = "creator_of" THEN
           (IF A # CreatorOf(S, Rec(e.obj)) THEN Rej(e, "C18:creator_of_not_as_scan") ELSE TRUE)
        ELSE TRUE
     /\ IF e.op \in {"all_versions", "query", "call_versions", "cquery", "relationships", "related_to"} /\ ~NoDup(e.ans)
        THEN Rej(e, IF e.op \in {"all_versions", "query"} THEN "C11:version_returned_twice" ELSE "C18:version_not_deduplicated") ELSE TRUE
     /\ IF ~e.same_content THEN Rej(e, "C11:what_comes_out_differs_from_what_went_in") ELSE TRUE
     \* reading is not writing: the filter sets attached to the sources of the history (stores, members, composites, nested composites) are what they were before the call
     /\ IF "filters_kept" \in DOMAIN e /\ ~e.filters_kept
        THEN Rej(e, IF e.op \in {"cget", "call_versions", "cquery", "relationships", "related_to", "creator_of"} THEN "C18:read_changed_attached_filters" ELSE "C12:read_changed_attached_filters") ELSE TRUE
     /\ UNCHANGED vars
  /\ l' = l + 1
TraceSpec == TraceInit /\ [][TraceNext]_tvars
Done == l = Len(TraceLog) + 1 => PrintT(<<"DONE", Len(TraceLog)>>)
====
