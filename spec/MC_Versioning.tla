---- MODULE MC_Versioning ----
EXTENDS Versioning, Json, IOUtils
PN == {"name", "description", "aliases"}
Req == {"name"}
Lck == {"name"}
P0 == [name |-> "a", description |-> "absent", aliases |-> "a"]
Obj(v, kind, m, hm) == [v |-> v, kind |-> kind, created |-> 5000, modified |-> m, hasmod |-> hm, revoked |-> FALSE, props |-> P0]
MCRoots == { Obj("2.1", "obj", 5000, TRUE), Obj("2.0", "obj", 5000, TRUE), Obj("2.1", "dict", 5300, TRUE), Obj("2.0", "dict", 5300, TRUE),
             Obj("2.1", "dict", 5000, FALSE), Obj("2.0", "dict", 5000, FALSE), Obj("2.1", "sco5", 5300, TRUE), Obj("2.1", "sco4", 5300, TRUE),
             Obj("2.1", "unversionable", 5000, TRUE), Obj("2.0", "dict_nocreated", 5000, TRUE) }
M1000000 == 0 - 1000000
M1000 == 0 - 1000
M1 == 0 - 1
M300 == 0 - 300
MCDeltas == {M1000000, M1000, M300, M1, 0, 1, 499, 700, 999, 1000, 1001, 5000}
MCUserDeltas == {M1000, M1, 0, 1, 700, 999, 1000, 1700}
TimingChanges == {<<>>}
AllChanges == {<<>>, [name |-> "b"], [description |-> "b"], [description |-> "none"], [aliases |-> "none"], [name |-> "none"],
               [description |-> "a", aliases |-> "b"], [created |-> "x"], [id |-> "x"], [type |-> "x"], [created_by_ref |-> "x"],
               [description |-> "b", id |-> "x"], [created |-> "none"], [id |-> "none"], [type |-> "none"], [created_by_ref |-> "none"],
               [description |-> "b", created_by_ref |-> "none"]}
FewDeltas == {M1, 700, 5000}
FewUser == {0, 1700}

\* S2: the complete one-step case table over a space of representative objects
MSpace == {5000, 5300, 5999, 6000}
OSpace == { [v |-> v, kind |-> k, created |-> 5000, modified |-> m, hasmod |-> hm, revoked |-> rv, props |-> P0] :
            v \in {"2.0", "2.1"}, k \in {"obj", "dict", "sco5", "sco4", "unversionable", "dict_nocreated"}, m \in MSpace, hm \in BOOLEAN, rv \in BOOLEAN }
Legit(o) == /\ (o.kind \in {"sco5", "sco4"} => o.v = "2.1")
            /\ (~o.hasmod => o.kind \in {"dict"} /\ o.modified = o.created /\ ~o.revoked)
            /\ (o.kind = "obj" /\ o.v = "2.0" => o.modified % 1000 = 0)
            /\ (o.kind \in {"unversionable", "dict_nocreated"} => o.modified = 5000 /\ ~o.revoked)
Ops(o) == { [k |-> "new", ch |-> ch, now |-> o.modified + d] : ch \in TimingChanges, d \in MCDeltas }
          \cup { [k |-> "new", ch |-> ch, now |-> o.modified + d] : ch \in AllChanges, d \in FewDeltas }
          \cup { [k |-> "newmod", ch |-> <<>>, m |-> o.modified + d] : d \in MCUserDeltas }
          \cup { [k |-> "revoke", now |-> o.modified + d] : d \in FewDeltas }
Cases == UNION { { [o |-> o, op |-> op, res |-> Apply(o, op)] : op \in Ops(o) } : o \in {x \in OSpace : Legit(x)} }
ASSUME \A c \in Cases : StepOK(c.o, c.op, c.res)
ASSUME IF "OUT_FILE" \in DOMAIN IOEnv THEN JsonSerialize(IOEnv.OUT_FILE, [cases |-> Cases]) ELSE TRUE
====
