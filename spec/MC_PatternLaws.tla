---- MODULE MC_PatternLaws ----
(* S1 for C09: the rewrites the equivalence test documents are sound under the semantics, for every choice of operands from
   the atom set; and rewrites it must NOT make are indeed unsound.  One state per (law, operands): the choice is the initial
   state (cheap), the evaluation happens in the step so that all workers share it. *)
EXTENDS PatternSem
Cmp(p, op, c) == [k |-> "cmp", type |-> "a", prop |-> p, op |-> op, neg |-> FALSE, const |-> c]
Not(e) == [e EXCEPT !.neg = ~e.neg]
And(x, y) == [k |-> "and", args |-> <<x, y>>]   Or(x, y) == [k |-> "or", args |-> <<x, y>>]
O(e) == [k |-> "obs", e |-> e]
OAnd(x, y) == [k |-> "oand", args |-> <<x, y>>]  OOr(x, y) == [k |-> "oor", args |-> <<x, y>>]  FB(x, y) == [k |-> "fb", args |-> <<x, y>>]
OAnd3(x, y, z) == [k |-> "oand", args |-> <<x, y, z>>]  OOr3(x, y, z) == [k |-> "oor", args |-> <<x, y, z>>]  FB3(x, y, z) == [k |-> "fb", args |-> <<x, y, z>>]
Q(e, q) == [k |-> "qual", e |-> e, q |-> q]
CAtoms == { Cmp("b", "=", 1), Cmp("b", "!=", 1), Cmp("c", ">", 1), Cmp("c", "IN", <<1, 2>>) }
OAtoms == { O(Cmp("b", "=", 1)), O(Cmp("b", "=", 2)), O(Cmp("c", "<=", 1)), O(And(Cmp("b", "=", 1), Cmp("c", "=", 2))) }
Laws == { "c_and_comm", "c_or_comm", "c_and_assoc", "c_or_assoc", "c_and_idem", "c_or_idem", "c_absorb1", "c_absorb2", "c_dist", "c_neq",
          "c_set_perm", "o_and_comm", "o_or_comm", "o_and_assoc", "o_or_assoc", "o_fb_assoc", "o_or_idem", "o_absorb_and", "o_absorb_fb1", "o_absorb_fb2",
          "o_dist_and", "o_dist_fb_l", "o_dist_fb_r", "o_qual_or" }
NonLaws == { "o_and_idem", "o_fb_comm", "o_absorb_under_repeats" }
Sides(law, X, Y, Z, A, Bq, C) ==     \* X,Y,Z comparison atoms; A,Bq,C observation atoms
  CASE law = "c_and_comm" -> <<O(And(X, Y)), O(And(Y, X))>>
    [] law = "c_or_comm" -> <<O(Or(X, Y)), O(Or(Y, X))>>
    [] law = "c_and_assoc" -> <<O(And(And(X, Y), Z)), O(And(X, And(Y, Z)))>>
    [] law = "c_or_assoc" -> <<O(Or(Or(X, Y), Z)), O(Or(X, Or(Y, Z)))>>
    [] law = "c_and_idem" -> <<O(And(X, X)), O(X)>>
    [] law = "c_or_idem" -> <<O(Or(X, X)), O(X)>>
    [] law = "c_absorb1" -> <<O(Or(X, And(X, Y))), O(X)>>
    [] law = "c_absorb2" -> <<O(And(X, Or(X, Y))), O(X)>>
    [] law = "c_dist" -> <<O(And(X, Or(Y, Z))), O(Or(And(X, Y), And(X, Z)))>>
    [] law = "c_neq" -> <<O(Cmp("b", "!=", 1)), O(Not(Cmp("b", "=", 1)))>>
    [] law = "c_set_perm" -> <<O(Cmp("c", "IN", <<1, 2>>)), O(Cmp("c", "IN", <<2, 1>>))>>
    [] law = "o_and_comm" -> <<OAnd(A, Bq), OAnd(Bq, A)>>
    [] law = "o_or_comm" -> <<OOr(A, Bq), OOr(Bq, A)>>
    [] law = "o_and_assoc" -> <<OAnd(OAnd(A, Bq), C), OAnd3(A, Bq, C)>>
    [] law = "o_or_assoc" -> <<OOr(A, OOr(Bq, C)), OOr3(A, Bq, C)>>
    [] law = "o_fb_assoc" -> <<FB(FB(A, Bq), C), FB3(A, Bq, C)>>
    [] law = "o_or_idem" -> <<OOr(A, A), A>>
    [] law = "o_absorb_and" -> <<OOr(A, OAnd(A, Bq)), A>>
    [] law = "o_absorb_fb1" -> <<OOr(A, FB(A, Bq)), A>>
    [] law = "o_absorb_fb2" -> <<OOr(A, FB(Bq, A)), A>>
    [] law = "o_dist_and" -> <<OAnd(A, OOr(Bq, C)), OOr(OAnd(A, Bq), OAnd(A, C))>>
    [] law = "o_dist_fb_l" -> <<FB(OOr(A, Bq), C), OOr(FB(A, C), FB(Bq, C))>>
    [] law = "o_dist_fb_r" -> <<FB(A, OOr(Bq, C)), OOr(FB(A, Bq), FB(A, C))>>
    [] law = "o_qual_or" -> <<Q(OOr(A, Bq), [k |-> "within", s |-> 0]), OOr(Q(A, [k |-> "within", s |-> 0]), Q(Bq, [k |-> "within", s |-> 0]))>>
    [] law = "o_and_idem" -> <<OAnd(A, A), A>>
    [] law = "o_fb_comm" -> <<FB(A, Bq), FB(Bq, A)>>
    [] law = "o_absorb_under_repeats" -> <<Q(OOr(A, OAnd(A, Bq)), [k |-> "repeats", n |-> 2]), OOr(Q(A, [k |-> "repeats", n |-> 2]), OAnd(A, Bq))>>
VARIABLES law, ops, verdict
Init == law \in Laws \cup NonLaws /\ ops \in CAtoms \X CAtoms \X CAtoms \X OAtoms \X OAtoms \X OAtoms /\ verdict = "todo"
        /\ (law \in {"c_neq", "c_set_perm"} => ops = CHOOSE x \in CAtoms \X CAtoms \X CAtoms \X OAtoms \X OAtoms \X OAtoms : TRUE)
        /\ (law \in {"c_and_comm", "c_or_comm", "c_and_assoc", "c_or_assoc", "c_and_idem", "c_or_idem", "c_absorb1", "c_absorb2", "c_dist"}
              => <<ops[4], ops[5], ops[6]>> = CHOOSE x \in OAtoms \X OAtoms \X OAtoms : TRUE)
        /\ (law \notin {"c_and_comm", "c_or_comm", "c_and_assoc", "c_or_assoc", "c_and_idem", "c_or_idem", "c_absorb1", "c_absorb2", "c_dist", "c_neq", "c_set_perm"}
              => <<ops[1], ops[2], ops[3]>> = CHOOSE x \in CAtoms \X CAtoms \X CAtoms : TRUE)
Next == verdict = "todo" /\ UNCHANGED <<law, ops>>
        /\ LET sd == Sides(law, ops[1], ops[2], ops[3], ops[4], ops[5], ops[6]) IN verdict' = IF Same(sd[1], sd[2]) THEN "same" ELSE "differ"
Spec == Init /\ [][Next]_<<law, ops, verdict>>
\* every documented rewrite is sound for every operand choice
LawsSound == law \in Laws /\ verdict # "todo" => verdict = "same"
\* and the semantics does tell apart what must not be rewritten: some operand choice differs (checked as a reachable-state property below)
NonLawWitness == ~(law \in NonLaws /\ verdict = "differ")     \* a violation of THIS shows the witness exists (negative config)
====
