INIT Init
NEXT Next
CONSTANTS
  Vals = {1, 2}
  Times = {0, 1}
  MaxLen = 3
