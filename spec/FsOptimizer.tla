----------------------------- MODULE FsOptimizer -----------------------------
(***************************************************************************)
(* C12 -- the search shortcuts the filesystem source derives from type and  *)
(* id filters (filesystem.py: _find_search_optimizations, AuthSet,          *)
(* _update_allow, _get_matching_dir_entries) never change a query's result. *)
(*                                                                         *)
(* Types and ids are small integers (order-preserving stand-ins for the     *)
(* strings); TypeOf[id] is the type an id names.  A filter is               *)
(* [prop \in {"type","id"}, op, val] with val an integer or (for "in") a    *)
(* set of integers.  Filters are processed in sequence, as the code does.   *)
(***************************************************************************)
EXTENDS Integers, Sequences, FiniteSets, TLC

CONSTANTS Types, Ids, TypeOf
None == [has |-> FALSE, vals |-> {}]     \* "no whitelist yet"
Some(vs) == [has |-> TRUE, vals |-> vs]

\* _update_allow: first whitelist value(s) start the set, later ones intersect it
UpdateAllow(allow, vals) == IF ~allow.has THEN Some(vals) ELSE Some(allow.vals \cap vals)

\* one step of the loop in _find_search_optimizations over state [at, ai, pt, pi]
Step(st, f) ==
  IF f.prop = "type" THEN
     IF f.op = "=" THEN [st EXCEPT !.at = UpdateAllow(@, {f.val})]
     ELSE IF f.op = "in" THEN [st EXCEPT !.at = UpdateAllow(@, f.val)]
     ELSE IF f.op = "!=" THEN [st EXCEPT !.pt = @ \cup {f.val}]
     ELSE st
  ELSE IF f.prop = "id" THEN
     IF f.op = "=" THEN [st EXCEPT !.ai = UpdateAllow(@, {f.val}), !.at = UpdateAllow(@, {TypeOf[f.val]})]
     ELSE IF f.op = "!=" THEN [st EXCEPT !.pi = @ \cup {f.val}]
     ELSE IF f.op = "in" THEN [st EXCEPT !.ai = UpdateAllow(@, f.val), !.at = UpdateAllow(@, { TypeOf[i] : i \in f.val })]
     ELSE st
  ELSE st
RECURSIVE Fold(_, _)
Fold(st, fs) == IF fs = <<>> THEN st ELSE Fold(Step(st, Head(fs)), Tail(fs))
Start == [at |-> None, ai |-> None, pt |-> {}, pi |-> {}]

\* AuthSet(allowed, prohibited): a whitelist (allowed minus prohibited) or, with no whitelist, a blacklist
Auth(allowed, prohibited) == IF ~allowed.has THEN [white |-> FALSE, vals |-> prohibited] ELSE [white |-> TRUE, vals |-> allowed.vals \ prohibited]
Opt(fs) ==
  LET st == Fold(Start, fs)
      t == Auth(st.at, st.pt)
      i == Auth(st.ai, st.pi) IN
  IF t.white /\ i.white
  THEN LET tv == t.vals \cap { TypeOf[x] : x \in i.vals } IN
       [types |-> [white |-> TRUE, vals |-> tv], ids |-> [white |-> TRUE, vals |-> { x \in i.vals : TypeOf[x] \in tv }]]
  ELSE [types |-> t, ids |-> i]

Admits(auth, x) == IF auth.white THEN x \in auth.vals ELSE x \notin auth.vals
\* the directory walk opens the file of (type, id) only if both sets admit it
Visited(opt, type, id) == Admits(opt.types, type) /\ Admits(opt.ids, id)

\* filter semantics on the two properties the optimizer looks at (as in DataStore!Holds)
Cmp(op, x, v) == IF op = "=" THEN x = v ELSE IF op = "!=" THEN x # v ELSE IF op = "in" THEN x \in v
                 ELSE IF op = "<" THEN x < v ELSE IF op = "<=" THEN x <= v ELSE IF op = ">" THEN x > v
                 ELSE IF op = ">=" THEN x >= v ELSE x = v
HoldsTI(f, type, id) == Cmp(f.op, IF f.prop = "type" THEN type ELSE id, f.val)
SatSeq(fs, type, id) == \A k \in DOMAIN fs : HoldsTI(fs[k], type, id)

\* the shortcut never hides an object that satisfies every filter
PruningSound(fs) == \A id \in Ids : SatSeq(fs, TypeOf[id], id) => Visited(Opt(fs), TypeOf[id], id)
\* and it does not depend on the order in which the filters are listed
OrderIndependent(fs, gs) == Opt(fs) = Opt(gs)

-----------------------------------------------------------------------------
CONSTANT Alphabet
VARIABLES fseq
Init == fseq = <<>>
Next == Len(fseq) < 3 /\ \E f \in Alphabet : fseq' = Append(fseq, f)
Spec == Init /\ [][Next]_fseq
Sound == PruningSound(fseq)
Perm == Len(fseq) = 2 => \A id \in Ids : Visited(Opt(fseq), TypeOf[id], id) = Visited(Opt(<<fseq[2], fseq[1]>>), TypeOf[id], id)
=============================================================================
