SPECIFICATION Spec
CONSTANTS
  Inputs <- DayInputs
  PCs <- OnePC
INVARIANT InvAcceptable
INVARIANT InvReadable
INVARIANT InvFixedPoint
INVARIANT InvCalendar
CHECK_DEADLOCK FALSE
