SPECIFICATION DSpec
CONSTANTS
  Inputs = {}
  PCs = {}
CHECK_DEADLOCK FALSE
