SPECIFICATION TraceSpec
CONSTANTS
  PropNames = {"name", "description", "aliases"}
  Required = {"name"}
  Locked = {"name"}
  Roots = {}
  Deltas = {}
  ChangeSets = {}
  UserDeltas = {}
  MaxVersions = 0
INVARIANT Done
CHECK_DEADLOCK FALSE
