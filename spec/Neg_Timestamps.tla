---- MODULE Neg_Timestamps ----
\* Negative configuration: a formatter that rounds to the nearest millisecond instead of truncating,
\* and one that does not pad the year.  InvAcceptable must fail for each.
EXTENDS Timestamps
RoundUs(us) == IF us % 1000 >= 500 /\ us < 999500 THEN (us \div 1000 + 1) * 1000 ELSE (us \div 1000) * 1000
BadFormat(c, prec, con) == LET i == Instant(c) IN
   IF prec = "millisecond" /\ con = "exact" THEN TextOf(i, SubSeq(Six(RoundUs(c.us)), 1, 3)) ELSE Format(c, prec, con)
BadDoFormat == phase = "in" /\ phase' = "text" /\ text' = BadFormat(inp, pc[1], pc[2]) /\ UNCHANGED <<inp, pc, back, text2>>
BadSpec == Init /\ [][BadDoFormat \/ DoParse \/ DoReformat]_vars
NegInputs == { [y |-> 2017, mo |-> 1, d |-> 1, h |-> 0, mi |-> 0, s |-> 0, us |-> u, off |-> 0] : u \in {0, 1499, 1500} }
NegPCs == {<<"millisecond", "exact">>}
====
