---- MODULE MC_CanonJson ----
EXTENDS CanonJson, Json, IOUtils
Null == [k |-> "null"]
S(u) == [k |-> "str", u |-> u]
Num(neg, ds, n) == [k |-> "num", neg |-> neg, digits |-> ds, n |-> n]
\* keys chosen so that UTF-16 code-unit order and code-point order disagree (U+1F600 = D83D DE00 sorts before U+FB33, U+FFFF)
Keys == { <<97>>, <<98>>, <<97, 98>>, <<128>>, <<8364>>, <<65535>>, <<55357, 56832>>, <<64307>>, <<13>>, <<49>>, <<>>, <<34>>, <<65, 97>> }
Strs == { <<>>, <<34, 92, 8, 12, 10, 13, 9>>, <<0, 31, 127, 47, 32>>, <<55357, 56832, 233, 8232, 8233>>, <<97, 32, 98>> }
DigitStrs == { <<1>>, <<1, 2>>, <<1, 2, 3>>, <<9, 9, 9>>, <<5>>, <<1, 0, 1>> }
Exps == (0 - 10)..25
Nums == { Num(ng, ds, n) : ng \in BOOLEAN, ds \in DigitStrs, n \in Exps }
Atoms == { Null, [k |-> "bool", v |-> TRUE], [k |-> "bool", v |-> FALSE], [k |-> "zero"] } \cup { S(u) : u \in Strs } \cup Nums
NonFinite == { [k |-> "nan"], [k |-> "inf"] }
FewAtoms == { Null, [k |-> "bool", v |-> FALSE], [k |-> "zero"], S(<<34, 10>>), Num(TRUE, <<1, 2>>, 1), Num(FALSE, <<1>>, 22) }
KeySeqs(n) == { ks \in [1..n -> Keys] : \A i, j \in 1..n : i # j => ks[i] # ks[j] }
ValFor(ks) == [i \in DOMAIN ks |-> IF i = 1 THEN Num(FALSE, <<1>>, 1) ELSE IF i = 2 THEN S(<<97>>) ELSE Null]
Objs(n) == { [k |-> "obj", keys |-> ks, vals |-> ValFor(ks)] : ks \in KeySeqs(n) }
Flat == Atoms \cup Objs(0) \cup Objs(1) \cup Objs(2) \cup Objs(3)
Lists == { [k |-> "list", items |-> <<>>] } \cup { [k |-> "list", items |-> <<a, b>>] : a \in FewAtoms, b \in FewAtoms \cup Objs(1) }
NestLists == { [k |-> "list", items |-> <<>>] } \cup { [k |-> "list", items |-> <<a, b>>] : a \in {Null, Num(TRUE, <<1, 2>>, 1)}, b \in {S(<<34, 10>>)} \cup { o \in Objs(1) : o.keys[1] \in {<<97>>, <<13>>} } }
NestObjs == { o \in Objs(2) : o.keys[1] \in {<<98>>, <<55357, 56832>>} }
Nested == { [k |-> "obj", keys |-> <<<<98>>, <<97>>>>, vals |-> <<a, b>>] : a \in NestLists, b \in NestObjs }
Bad == { [k |-> "list", items |-> <<Null, x>>] : x \in NonFinite } \cup NonFinite
         \cup { [k |-> "obj", keys |-> <<<<97>>>>, vals |-> <<[k |-> "list", items |-> <<x>>]>>] : x \in NonFinite }
QuickValues == Flat \cup Lists \cup Nested \cup Bad
ThoroughValues == Flat \cup Lists \cup Nested \cup Bad \cup Objs(4)
ASSUME OrderIndependent(Objs(2) \cup Objs(3) \cup Nested)
TableValues == QuickValues
ASSUME IF "OUT_FILE" \in DOMAIN IOEnv THEN JsonSerialize(IOEnv.OUT_FILE, [rows |-> { [v |-> v, text |-> Canon(v)] : v \in TableValues }]) ELSE TRUE
====
