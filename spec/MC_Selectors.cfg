INIT Init
NEXT Next
