------------------------------ MODULE Timestamps ------------------------------
(***************************************************************************)
(* C15 -- STIX timestamp text (stix2/utils.py: format_datetime,            *)
(* parse_into_datetime, STIXdatetime; properties.py: TimestampProperty).   *)
(*                                                                         *)
(* Pure integer arithmetic on civil fields; text is a sequence of          *)
(* character codes.  An input is a record                                  *)
(*   [y, mo, d, h, mi, s, us, off(, offs)]  off = UTC offset in minutes (+ offs seconds) *)
(* (a naive datetime is read as UTC, i.e. off = 0, as the library          *)
(* documents).  Instants are triples <<day, second-of-day, microsecond>>   *)
(* so that everything stays inside TLC's 32-bit integers.                  *)
(***************************************************************************)
EXTENDS Integers, Sequences, TLC

Precisions == {"any", "second", "millisecond"}
Constraints == {"exact", "min"}

-----------------------------------------------------------------------------
(* Proleptic Gregorian calendar *)
IsLeap(y) == (y % 4 = 0 /\ y % 100 # 0) \/ y % 400 = 0
DaysInMonth(y, m) == IF m \in {1, 3, 5, 7, 8, 10, 12} THEN 31
                     ELSE IF m \in {4, 6, 9, 11} THEN 30
                     ELSE IF IsLeap(y) THEN 29 ELSE 28
DaysBeforeYear(y) == LET p == y - 1 IN 365 * p + p \div 4 - p \div 100 + p \div 400
Cum == <<0, 31, 59, 90, 120, 151, 181, 212, 243, 273, 304, 334>>
DaysBeforeMonth(y, m) == Cum[m] + (IF m > 2 /\ IsLeap(y) THEN 1 ELSE 0)
Ordinal(y, m, d) == DaysBeforeYear(y) + DaysBeforeMonth(y, m) + d      \* 0001-01-01 is day 1
MaxOrdinal == Ordinal(9999, 12, 31)

ValidDate(y, m, d) == y \in 1..9999 /\ m \in 1..12 /\ d >= 1 /\ d <= DaysInMonth(y, m)

\* inverse of Ordinal, by search in the narrow window the bounds 365 <= year length <= 366 leave
YearOf(n) == LET lo == (n - 1) \div 366 + 1
             IN CHOOSE y \in lo..(lo + 28) : DaysBeforeYear(y) < n /\ n <= DaysBeforeYear(y + 1)
CivilDate(n) == LET y == YearOf(n)
                    r == n - DaysBeforeYear(y)
                    m == CHOOSE k \in 1..12 : DaysBeforeMonth(y, k) < r /\ r <= DaysBeforeMonth(y, k) + DaysInMonth(y, k)
                IN [y |-> y, mo |-> m, d |-> r - DaysBeforeMonth(y, m)]

-----------------------------------------------------------------------------
(* Instants *)
\* UTC instant of an input with offset
\* (offs, when present, is the seconds part of the UTC offset: the offset is off minutes + offs seconds; historical local mean times have one)
OffSeconds(c) == c.off * 60 + (IF "offs" \in DOMAIN c THEN c.offs ELSE 0)
Instant(c) == LET total == c.h * 3600 + c.mi * 60 + c.s - OffSeconds(c)
              IN <<Ordinal(c.y, c.mo, c.d) + (total \div 86400), total % 86400, c.us>>
InRange(i) == i[1] >= 1 /\ i[1] <= MaxOrdinal
Leq(a, b) == \/ a[1] < b[1]
             \/ a[1] = b[1] /\ a[2] < b[2]
             \/ a[1] = b[1] /\ a[2] = b[2] /\ a[3] <= b[3]

\* size in microseconds of one unit of the precision
Unit(prec) == IF prec = "second" THEN 1000000 ELSE IF prec = "millisecond" THEN 1000 ELSE 1

\* what the library keeps in the object: truncated only for "exact"
TruncUs(us, prec, con) == IF con = "exact" /\ prec # "any" THEN (us \div Unit(prec)) * Unit(prec) ELSE us

-----------------------------------------------------------------------------
(* Text *)
D(n) == 48 + n
Pad2(n) == <<D(n \div 10), D(n % 10)>>
Pad4(n) == <<D(n \div 1000), D((n \div 100) % 10), D((n \div 10) % 10), D(n % 10)>>
Six(us) == <<D(us \div 100000), D((us \div 10000) % 10), D((us \div 1000) % 10),
             D((us \div 100) % 10), D((us \div 10) % 10), D(us % 10)>>
RECURSIVE Strip(_)
Strip(s) == IF s # <<>> /\ s[Len(s)] = 48 THEN Strip(SubSeq(s, 1, Len(s) - 1)) ELSE s

\* fractional digits the library writes (format_datetime's case analysis)
Frac(us, prec, con) ==
  IF prec = "any" \/ (prec = "second" /\ con = "min") THEN Strip(Six(us))
  ELSE IF prec = "second" THEN <<>>
  ELSE IF con = "exact" THEN SubSeq(Six(us), 1, 3)
  ELSE LET s == Strip(Six(us)) IN IF Len(s) < 3 THEN SubSeq(Six(us), 1, 3) ELSE s

TextOf(i, frac) ==
  LET cd == CivilDate(i[1]) IN
  Pad4(cd.y) \o <<45>> \o Pad2(cd.mo) \o <<45>> \o Pad2(cd.d) \o <<84>>
  \o Pad2(i[2] \div 3600) \o <<58>> \o Pad2((i[2] \div 60) % 60) \o <<58>> \o Pad2(i[2] % 60)
  \o (IF frac = <<>> THEN <<>> ELSE <<46>> \o frac) \o <<90>>

\* The library's composite format_datetime(parse_into_datetime(x, prec, con))
Format(c, prec, con) == LET i == Instant(c) IN TextOf(i, Frac(TruncUs(c.us, prec, con), prec, con))

-----------------------------------------------------------------------------
(* Reading text.  Accepted spellings (as the library's strptime formats admit them): 4-digit year,
   1-2 digit month/day/hour/minute/second, "T"/"t", optional "." + 1..6 digits, "Z"/"z". *)
IsDigit(ch) == ch >= 48 /\ ch <= 57
RECURSIVE DigitRun(_, _)
DigitRun(t, i) == IF i <= Len(t) /\ IsDigit(t[i]) THEN 1 + DigitRun(t, i + 1) ELSE 0
RECURSIVE NatOf(_, _, _)
NatOf(t, i, n) == IF n = 0 THEN 0 ELSE NatOf(t, i, n - 1) * 10 + (t[i + n - 1] - 48)
Pow10(k) == IF k = 0 THEN 1 ELSE IF k = 1 THEN 10 ELSE IF k = 2 THEN 100 ELSE IF k = 3 THEN 1000
            ELSE IF k = 4 THEN 10000 ELSE IF k = 5 THEN 100000 ELSE 1000000

Bad == [ok |-> FALSE]
\* field readers: position i, width bounds; result [ok, v, next]
Field(t, i, lo, hi) == LET n == DigitRun(t, i) IN
  IF n < lo THEN Bad ELSE LET w == IF n > hi THEN hi ELSE n IN [ok |-> TRUE, v |-> NatOf(t, i, w), next |-> i + w]
Lit(t, i, set) == i <= Len(t) /\ t[i] \in set

ParseText(t) ==
  LET Y == Field(t, 1, 4, 4) IN IF ~Y.ok \/ ~Lit(t, Y.next, {45}) THEN Bad ELSE
  LET Mo == Field(t, Y.next + 1, 1, 2) IN IF ~Mo.ok \/ ~Lit(t, Mo.next, {45}) THEN Bad ELSE
  LET Dd == Field(t, Mo.next + 1, 1, 2) IN IF ~Dd.ok \/ ~Lit(t, Dd.next, {84, 116}) THEN Bad ELSE
  LET H == Field(t, Dd.next + 1, 1, 2) IN IF ~H.ok \/ ~Lit(t, H.next, {58}) THEN Bad ELSE
  LET Mi == Field(t, H.next + 1, 1, 2) IN IF ~Mi.ok \/ ~Lit(t, Mi.next, {58}) THEN Bad ELSE
  LET S == Field(t, Mi.next + 1, 1, 2) IN IF ~S.ok THEN Bad ELSE
  LET hasF == Lit(t, S.next, {46})
      nf == IF hasF THEN DigitRun(t, S.next + 1) ELSE 0
      zpos == IF hasF THEN S.next + 1 + nf ELSE S.next
  IN IF (hasF /\ (nf < 1 \/ nf > 6)) \/ ~Lit(t, zpos, {90, 122}) \/ zpos # Len(t) THEN Bad
     ELSE IF ~ValidDate(Y.v, Mo.v, Dd.v) \/ H.v > 23 \/ Mi.v > 59 \/ S.v > 59 THEN Bad
     ELSE [ok |-> TRUE, nfrac |-> nf,
           c |-> [y |-> Y.v, mo |-> Mo.v, d |-> Dd.v, h |-> H.v, mi |-> Mi.v, s |-> S.v,
                  us |-> (IF hasF THEN NatOf(t, S.next + 1, nf) * Pow10(6 - nf) ELSE 0), off |-> 0]]

-----------------------------------------------------------------------------
(* The property, as predicates on an (input, precision, constraint, output text) observation *)

\* YYYY-MM-DDTHH:MM:SS[.fraction]Z, four-digit year, two-digit fields
CanonicalShape(t) ==
  /\ Len(t) = 20 \/ Len(t) >= 22
  /\ \A i \in {1, 2, 3, 4, 6, 7, 9, 10, 12, 13, 15, 16, 18, 19} : IsDigit(t[i])
  /\ t[5] = 45 /\ t[8] = 45 /\ t[11] = 84 /\ t[14] = 58 /\ t[17] = 58 /\ t[Len(t)] = 90
  /\ Len(t) > 20 => (t[20] = 46 /\ \A i \in 21..(Len(t) - 1) : IsDigit(t[i]))

NFrac(t) == IF Len(t) = 20 THEN 0 ELSE Len(t) - 21

\* exactly / at least the digits the precision requires
DigitCount(t, prec, con) ==
  LET need == IF prec = "millisecond" THEN 3 ELSE 0 IN
  IF prec = "any" THEN TRUE ELSE IF con = "exact" THEN NFrac(t) = need ELSE NFrac(t) >= need

\* same instant, truncated toward the past by less than one unit of the precision, never rounded up
SameInstantTruncated(c, prec, t) ==
  LET p == ParseText(t) IN
  /\ p.ok
  /\ LET a == Instant(c)
         b == Instant(p.c)
     IN a[1] = b[1] /\ a[2] = b[2] /\ b[3] <= a[3] /\ a[3] - b[3] < Unit(prec)

Acceptable(c, prec, con, t) == CanonicalShape(t) /\ DigitCount(t, prec, con) /\ SameInstantTruncated(c, prec, t)

\* which clause fails first (for trace verdicts)
FailingClause(c, prec, con, t) ==
  IF ~CanonicalShape(t) THEN "canonical_shape"
  ELSE IF ~DigitCount(t, prec, con) THEN "digit_count"
  ELSE IF ~SameInstantTruncated(c, prec, t) THEN "same_instant_truncated" ELSE "none"

-----------------------------------------------------------------------------
(* State machine: Format, then Parse the text, then Format again *)
CONSTANTS Inputs, PCs        \* set of input records; set of <<prec, con>>
VARIABLES phase, inp, pc, text, back, text2
vars == <<phase, inp, pc, text, back, text2>>

Init == /\ phase = "in" /\ inp \in Inputs /\ InRange(Instant(inp)) /\ pc \in PCs
        /\ text = <<>> /\ back = Bad /\ text2 = <<>>
DoFormat == phase = "in" /\ phase' = "text" /\ text' = Format(inp, pc[1], pc[2]) /\ UNCHANGED <<inp, pc, back, text2>>
DoParse == phase = "text" /\ phase' = "parsed" /\ back' = ParseText(text) /\ UNCHANGED <<inp, pc, text, text2>>
DoReformat == phase = "parsed" /\ back.ok /\ phase' = "text2" /\ text2' = Format(back.c, pc[1], pc[2])
              /\ UNCHANGED <<inp, pc, text, back>>
Next == DoFormat \/ DoParse \/ DoReformat
Spec == Init /\ [][Next]_vars

InvAcceptable == phase # "in" => Acceptable(inp, pc[1], pc[2], text)
InvReadable == phase \in {"parsed", "text2"} => back.ok
InvFixedPoint == phase = "text2" => text2 = text
\* the calendar inverse is an inverse
InvCalendar == LET i == Instant(inp) cd == CivilDate(i[1]) IN ValidDate(cd.y, cd.mo, cd.d) /\ Ordinal(cd.y, cd.mo, cd.d) = i[1]

\* order preservation, pairwise over the model's inputs (checked as an ASSUME over small sets in MC modules)
Monotone(S, P) == \A a \in S, b \in S, q \in P :
   (InRange(Instant(a)) /\ InRange(Instant(b)) /\ Leq(Instant(a), Instant(b))) =>
      Leq(Instant(ParseText(Format(a, q[1], q[2])).c), Instant(ParseText(Format(b, q[1], q[2])).c))
=============================================================================
