---- MODULE Neg_ObjectModel ----
\* Negative configuration: a serializer that also drops a slot which was given explicitly at its default value
\* (bookkeeping by value instead of by "was defaulted"): with include_defaults the option sets differ by a non-defaulted slot.
EXTENDS ObjectModel
BadSerialize(o, inc) == [s \in { t \in Slots : o.vals[t] # "absent" /\ (inc \/ ~(Kind[t] = "dflt" /\ o.vals[t] = "dfltval")) } |-> o.vals[s]]
BadOptions == phase = "object" => \A s \in Slots : (s \in DOMAIN BadSerialize(obj, TRUE) /\ s \notin DOMAIN BadSerialize(obj, FALSE)) => s \in obj.defaulted
====
