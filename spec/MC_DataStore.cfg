SPECIFICATION Spec
CONSTANTS
  Universe <- MCUniverse
  Forms <- MCForms
  FilterAlphabet <- MCFilters
CONSTRAINT Bound
INVARIANT MemIsList
INVARIANT FsIsListMinusRefused
INVARIANT ReadsAgree
PROPERTY NothingLost
CHECK_DEADLOCK FALSE
