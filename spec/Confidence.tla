------------------------------ MODULE Confidence ------------------------------
(***************************************************************************)
(* C20 -- confidence-scale conversions (stix2/confidence/scales.py).        *)
(*                                                                         *)
(* The five tables of STIX 2.1 (Part 1, Appendix A "Confidence Scales") as  *)
(* constants: per scale the labels in order of increasing confidence, the   *)
(* range of values each label covers and the value each label stands for.  *)
(* NoValue marks a label that the specification leaves "Not Specified"      *)
(* (Admiralty "6 - Truth cannot be judged"); such a label covers no range.  *)
(*                                                                         *)
(* State machine: one call per step.  The abstract state is the last call   *)
(* and its result -- the library keeps no state of its own here.            *)
(***************************************************************************)
EXTENDS Integers, Sequences, FiniteSets, TLC

NoValue == -1

Row(l, lo, hi, v) == [label |-> l, lo |-> lo, hi |-> hi, val |-> v]

Tables == [
  nlmh |-> << Row("None", 0, 0, 0), Row("Low", 1, 29, 15), Row("Med", 30, 69, 50), Row("High", 70, 100, 85) >>,
  zero_ten |-> << Row("0", 0, 4, 0), Row("1", 5, 14, 10), Row("2", 15, 24, 20), Row("3", 25, 34, 30),
                  Row("4", 35, 44, 40), Row("5", 45, 54, 50), Row("6", 55, 64, 60), Row("7", 65, 74, 70),
                  Row("8", 75, 84, 80), Row("9", 85, 94, 90), Row("10", 95, 100, 100) >>,
  admiralty |-> << Row("5 - Improbable", 0, 19, 10), Row("4 - Doubtful", 20, 39, 30),
                   Row("3 - Possibly True", 40, 59, 50), Row("2 - Probably True", 60, 79, 70),
                   Row("1 - Confirmed by other sources", 80, 100, 90) >>,
  wep |-> << Row("Impossible", 0, 0, 0), Row("Highly Unlikely/Almost Certainly Not", 1, 19, 10),
             Row("Unlikely/Probably Not", 20, 39, 30), Row("Even Chance", 40, 59, 50),
             Row("Likely/Probable", 60, 79, 70), Row("Highly likely/Almost Certain", 80, 99, 90),
             Row("Certain", 100, 100, 100) >>,
  dni |-> << Row("Almost No Chance / Remote", 0, 9, 5), Row("Very Unlikely / Highly Improbable", 10, 19, 15),
             Row("Unlikely / Improbable", 20, 39, 30), Row("Roughly Even Chance / Roughly Even Odds", 40, 59, 50),
             Row("Likely / Probable", 60, 79, 70), Row("Very Likely / Highly Probable", 80, 89, 85),
             Row("Almost Certain / Nearly Certain", 90, 100, 95) >> ]

\* labels that exist on a scale but have no confidence value
Unvalued == [ nlmh |-> {}, zero_ten |-> {}, admiralty |-> {"6 - Truth cannot be judged"}, wep |-> {}, dni |-> {} ]

Scales == DOMAIN Tables

\* the public function names, bound to scales (names as in the library's API)
ToLabelFn == [ value_to_none_low_medium_high |-> "nlmh", value_to_zero_ten |-> "zero_ten",
               value_to_admiralty_credibility |-> "admiralty", value_to_wep |-> "wep", value_to_dni |-> "dni" ]
ToValueFn == [ none_low_med_high_to_value |-> "nlmh", zero_ten_to_value |-> "zero_ten",
               admiralty_credibility_to_value |-> "admiralty", wep_to_value |-> "wep", dni_to_value |-> "dni" ]

Rows(s) == { Tables[s][i] : i \in DOMAIN Tables[s] }
Labels(s) == { r.label : r \in Rows(s) }

Refused == [ok |-> FALSE]
Label(l) == [ok |-> TRUE, k |-> "label", label |-> l]
Value(v) == [ok |-> TRUE, k |-> "value", value |-> v]

(* the two conversions *)
ToLabel(s, n) ==
  IF \E r \in Rows(s) : r.lo <= n /\ n <= r.hi
  THEN Label((CHOOSE r \in Rows(s) : r.lo <= n /\ n <= r.hi).label)
  ELSE Refused

ToValue(s, l) ==
  IF l \in Labels(s) THEN Value((CHOOSE r \in Rows(s) : r.label = l).val) ELSE Refused

-----------------------------------------------------------------------------
(* State machine *)
CONSTANTS MinArg, MaxArg, JunkLabels
VARIABLES fn, arg, res
vars == <<fn, arg, res>>

Init == fn = "none" /\ arg = 0 /\ res = Refused

CallToLabel(f, n) == fn' = f /\ arg' = n /\ res' = ToLabel(ToLabelFn[f], n)
CallToValue(f, l) == fn' = f /\ arg' = l /\ res' = ToValue(ToValueFn[f], l)

AllLabels == UNION { Labels(s) \cup Unvalued[s] : s \in Scales } \cup JunkLabels

Next == \/ \E f \in DOMAIN ToLabelFn, n \in MinArg..MaxArg : CallToLabel(f, n)
        \/ \E f \in DOMAIN ToValueFn, l \in AllLabels : CallToValue(f, l)

Spec == Init /\ [][Next]_vars

-----------------------------------------------------------------------------
(* Properties of the tables (the design) *)

\* ranges partition 0..100: contiguous, start at 0, end at 100, in table order
Partition == \A s \in Scales :
   LET t == Tables[s] IN
   /\ t[1].lo = 0 /\ t[Len(t)].hi = 100
   /\ \A i \in 1..Len(t) : t[i].lo <= t[i].hi
   /\ \A i \in 1..Len(t)-1 : t[i+1].lo = t[i].hi + 1

Index(s, l) == CHOOSE i \in DOMAIN Tables[s] : Tables[s][i].label = l

\* total on 0..100, refused elsewhere
Total == \A s \in Scales, n \in MinArg..MaxArg : ToLabel(s, n).ok <=> (0 <= n /\ n <= 100)

\* one direction only as the value grows
Monotone == \A s \in Scales, m \in 0..100, n \in 0..100 :
   m <= n => Index(s, ToLabel(s, m).label) <= Index(s, ToLabel(s, n).label)

\* the representative value lies in the label's own range, so it converts back
RoundTrip == \A s \in Scales : \A l \in Labels(s) :
   /\ ToValue(s, l).ok
   /\ ToLabel(s, ToValue(s, l).value) = Label(l)

UnknownRefused == \A s \in Scales : \A l \in AllLabels \ Labels(s) : ~ToValue(s, l).ok

\* labels are distinct inside a scale (ToValue is a function)
DistinctLabels == \A s \in Scales : Cardinality(Labels(s)) = Len(Tables[s])

TablesOK == Partition /\ Total /\ Monotone /\ RoundTrip /\ UnknownRefused /\ DistinctLabels

\* the same facts, phrased on the state machine (checked in every reachable state)
TypeOK == res.ok \in BOOLEAN
CallInv ==
  /\ fn \in DOMAIN ToLabelFn => (res.ok <=> (0 <= arg /\ arg <= 100))
  /\ fn \in DOMAIN ToLabelFn /\ res.ok => ToValue(ToLabelFn[fn], res.label).ok
  /\ fn \in DOMAIN ToValueFn => (res.ok <=> arg \in Labels(ToValueFn[fn]))
  /\ fn \in DOMAIN ToValueFn /\ res.ok => ToLabel(ToValueFn[fn], res.value) = Label(arg)
=============================================================================
