SPECIFICATION TraceSpec
CONSTANTS
  Vals = {1, 2}
  Times = {0, 1}
  MaxLen = 3
INVARIANT Done
CHECK_DEADLOCK FALSE
