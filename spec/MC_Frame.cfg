SPECIFICATION Spec
CONSTANTS
  MaxCells = 6
  Tokens = {"a", "b"}
INVARIANT NoSharing
PROPERTY NoMutation
PROPERTY ObjectsStable
CHECK_DEADLOCK FALSE
