---- MODULE Trace_ObjectModel ----
(* Trace validation for C01, C02, C03, C04, C17 against the frozen specification model (SpecValid.tla).  Lines:
   kind = "emit"     : ctx, strict, ok, family (the escaped exception belongs to the documented family), exc, doc (lexed output when ok)
   kind = "accept"   : doc (lexed input), ok, exc, preserved (every input property is in the output with the same value; timestamps same instant),
                       extra (names the output adds), key
   kind = "roundtrip": key, same_class, equal, same_text, options_equal, dropped (names a compact option set omitted), pretty (top-level key order of pretty output)
   kind = "custom"   : mode ("strict" | "permissive"), refused, has_custom, strict_reparse_refused
   kind = "state"    : unchanged (registries and stores as before a failed construction) *)
EXTENDS SpecValid, TLCExt
TraceLog == ndJsonDeserialize(IOEnv.TRACE_FILE)
VARIABLE l
Rej(e, c) == PrintT(<<"REJECT", l, e.kind, c>>)
RejF(e, c, fs) == PrintT(<<"REJECT", l, e.kind, c, fs>>)
Family == {"none", "ValueError", "TypeError", "STIXError"}

\* optional properties the library may add / drop because they sit at their default value
Defaultable(key, n) == Known(key, n) /\ LET d == Desc(key, n) IN ("default" \in DOMAIN d \/ "fixed" \in DOMAIN d)
\* top-level order of pretty output: the properties the specification lists, in its order, then anything else
RECURSIVE IsSubseq(_, _)
IsSubseq(a, b) == IF a = <<>> THEN TRUE ELSE IF b = <<>> THEN FALSE ELSE IF a[1] = b[1] THEN IsSubseq(Tail(a), Tail(b)) ELSE IsSubseq(a, Tail(b))
SpecOrder(key) == [i \in DOMAIN Types[key].properties |-> Types[key].properties[i].name]
PrettyOK(key, ks) == LET known == SelectSeq(ks, LAMBDA n : Known(key, n))
                         firstUnknown == IF \E i \in DOMAIN ks : ~Known(key, ks[i]) THEN CHOOSE i \in DOMAIN ks : ~Known(key, ks[i]) /\ \A j \in 1..(i - 1) : Known(key, ks[j]) ELSE Len(ks) + 1
                     IN IsSubseq(known, SpecOrder(key)) /\ \A i \in firstUnknown..Len(ks) : ~Known(key, ks[i])

TraceInit == l = 1
TraceNext ==
  /\ l <= Len(TraceLog)
  /\ LET e == TraceLog[l] IN
     IF e.kind = "emit" THEN
        /\ IF ~e.ok /\ ~e.family THEN Rej(e, "C17:internal_error_escaped") ELSE TRUE
        /\ IF e.ok /\ e.strict /\ ~Valid(e.doc) THEN RejF(e, "C02:strict_output_not_valid_stix", Faults(e.doc)) ELSE TRUE
     ELSE IF e.kind = "accept" THEN
        IF ~Valid(e.doc) THEN PrintT(<<"NOOBLIGATION", l, Faults(e.doc)>>)
        ELSE /\ IF ~e.ok THEN Rej(e, "C03:specification_valid_object_refused") ELSE TRUE
             /\ IF e.ok /\ ~e.preserved THEN Rej(e, "C03:content_not_preserved") ELSE TRUE
             /\ IF e.ok /\ \E i \in DOMAIN e.extra : ~Defaultable(e.key, e.extra[i]) THEN Rej(e, "C03:property_added_that_is_not_an_optional_default") ELSE TRUE
     ELSE IF e.kind = "roundtrip" THEN
        /\ IF ~e.same_class THEN Rej(e, "C01:reparsed_object_of_another_class") ELSE TRUE
        /\ IF ~e.equal THEN Rej(e, "C01:reparsed_object_not_equal") ELSE TRUE
        /\ IF ~e.same_text THEN Rej(e, "C01:second_serialization_differs") ELSE TRUE
        /\ IF ~e.options_equal THEN Rej(e, "C01:serialization_options_denote_different_values") ELSE TRUE
        /\ IF e.key \in DOMAIN Types /\ \E i \in DOMAIN e.dropped : Known(e.key, e.dropped[i]) /\ ~Defaultable(e.key, e.dropped[i]) THEN Rej(e, "C01:dropped_property_is_not_an_optional_default") ELSE TRUE
        /\ IF e.key \in DOMAIN Types /\ ~PrettyOK(e.key, e.pretty) THEN Rej(e, "C01:pretty_output_not_in_specification_order") ELSE TRUE
     ELSE IF e.kind = "custom" THEN
        /\ IF e.mode = "strict" /\ ~e.refused THEN Rej(e, "C04:custom_content_admitted_in_strict_mode") ELSE TRUE
        /\ IF e.mode = "permissive" /\ ~e.refused /\ e.has_custom # e.strict_reparse_refused
           THEN Rej(e, IF e.has_custom THEN "C04:flag_set_but_strict_parse_accepts" ELSE "C04:flag_clear_but_strict_parse_refuses") ELSE TRUE
     ELSE IF e.kind = "state" THEN
        (IF ~e.unchanged THEN Rej(e, "C17:failed_construction_changed_registry_or_store") ELSE TRUE)
     ELSE TRUE
  /\ l' = l + 1
TraceSpec == TraceInit /\ [][TraceNext]_l
Done == l = Len(TraceLog) + 1 => PrintT(<<"DONE", Len(TraceLog)>>)
====
