---- MODULE Trace_Confidence ----
(* Trace validation for C20: every line is one recorded call of the real library:
   [fn, k \in {"int","big","str"}, n | neg | s, ok, rk \in {"label","value","none"}, label, value, exc].
   The spec is total: a line whose logged result is not the one the specification computes is
   reported with the name of the failing clause and the state is resynchronised on what was
   logged, so the remainder of the trace is still checked. *)
EXTENDS Confidence, Json, IOUtils, TLCExt
TraceLog == ndJsonDeserialize(IOEnv.TRACE_FILE)
VARIABLE l
tvars == <<vars, l>>

IsToLabel(e) == e.fn \in DOMAIN ToLabelFn
Expected(e) ==
  IF IsToLabel(e) THEN (IF e.k = "int" THEN ToLabel(ToLabelFn[e.fn], e.n) ELSE Refused)
  ELSE IF e.k = "str" THEN ToValue(ToValueFn[e.fn], e.s) ELSE Refused
Observed(e) == IF ~e.ok THEN Refused ELSE IF e.rk = "label" THEN Label(e.label) ELSE Value(e.value)
ArgOf(e) == IF e.k = "int" THEN e.n ELSE IF e.k = "big" THEN (IF e.neg THEN -2147483647 ELSE 2147483647) ELSE e.s

Clause(e) == IF ~e.ok /\ Expected(e).ok THEN "refused_but_defined"
             ELSE IF e.ok /\ ~Expected(e).ok THEN "accepted_but_must_refuse"
             ELSE IF IsToLabel(e) THEN "wrong_label" ELSE "wrong_value"
ErrorFamily == {"ValueError", "TypeError"}

TraceInit == Init /\ l = 1
TraceNext ==
  /\ l <= Len(TraceLog)
  /\ LET e == TraceLog[l] IN
     /\ e.fn \in DOMAIN ToLabelFn \cup DOMAIN ToValueFn
     /\ IF Expected(e) = Observed(e) THEN TRUE ELSE PrintT(<<"REJECT", l, e.fn, Clause(e)>>)
     /\ IF e.ok \/ e.exc \in ErrorFamily THEN TRUE ELSE PrintT(<<"REJECT", l, e.fn, "error_family">>)
     /\ fn' = e.fn /\ arg' = ArgOf(e) /\ res' = Observed(e)     \* resynchronise on the logged result
  /\ l' = l + 1
TraceSpec == TraceInit /\ [][TraceNext]_tvars
Done == l = Len(TraceLog) + 1 => PrintT(<<"DONE", Len(TraceLog)>>)
====
