SPECIFICATION Spec
INVARIANT RoundTripEqual
INVARIANT OptionsSameValue
INVARIANT StrictOutputValid
INVARIANT ValidAccepted
INVARIANT StrictRefuses
INVARIANT FlagIffStrictRefusal
INVARIANT NoInternalEscape
CHECK_DEADLOCK FALSE
