SPECIFICATION BadSpec
CONSTANTS
  Entries <- MCEntries
  Forms <- MCForms
  Shapes <- MCShapes
INVARIANT NamingNeverRelaxes
INVARIANT Honoured
INVARIANT JunkIdsRefused
CHECK_DEADLOCK FALSE
