---- MODULE Neg_Markings ----
\* Negative configuration: ancestry by string prefix of the dotted selector (so "pattern" is an ancestor of "pattern_type"):
\* TreeNotPrefix must fail.
EXTENDS MC_Markings
IsPrefixSibling(t, s) == (t = P1 /\ s = P2)
BadGet(GG, s, m) == \E t \in Sel : <<t, m>> \in GG /\ (t = s \/ Anc(t, s) \/ IsPrefixSibling(t, s))
ASSUME \A GG \in SUBSET (Sel \X Mark), s \in Sel, m \in Mark : BadGet(GG, s, m) => \E t \in Sel : <<t, m>> \in GG /\ (t = s \/ Anc(t, s))
====
