---- MODULE MC_ObjectModel ----
EXTENDS ObjectModel
====
