SPECIFICATION GenSpec
CONSTANTS
  Sel <- MCSel
  Bad <- MCBad
  Refs <- MCRefs
  Langs <- MCLangs
  Depth = 10
CONSTRAINT GenBound
INVARIANT Emit
CHECK_DEADLOCK FALSE
