---- MODULE MC_TimestampsUs ----
\* thorough: every microsecond value x all six precision/constraint pairs
EXTENDS Timestamps
AllPCs == {<<"any","exact">>, <<"any","min">>, <<"second","exact">>, <<"second","min">>,
           <<"millisecond","exact">>, <<"millisecond","min">>}
UsInputs == { [y |-> 2017, mo |-> 12, d |-> 31, h |-> 23, mi |-> 59, s |-> 59, us |-> u, off |-> 0] : u \in 0..999999 }
====
