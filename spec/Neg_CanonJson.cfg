SPECIFICATION BadSpec
CONSTANTS
  Values <- NegValues
INVARIANT InvRfc
CHECK_DEADLOCK FALSE
