---------------------------- MODULE MarkingsLayout ----------------------------
(***************************************************************************)
(* C07, the representation side.  Markings.tla treats the granular markings *)
(* of an object as a set G of (selector, marking) pairs.  The document      *)
(* holds a *list* of entries [sels, m] -- several selectors per entry, the  *)
(* same marking possibly in several entries with overlapping selectors,     *)
(* entries possibly repeated (content that arrives from elsewhere is not in *)
(* the compressed form the library writes).  This module defines the        *)
(* abstraction Abs(list) = G and the two list transformations the library   *)
(* uses around every mutator (expand: one entry per pair; compress: one     *)
(* entry per marking), and states what makes the set view legitimate:       *)
(*   - expand and compress do not change Abs;                               *)
(*   - a mutator computed on the expanded list (drop the matching entries / *)
(*     append the new ones) has, for EVERY layout of the same G, the same   *)
(*     Abs as the set operation of Markings.tla (LayoutIndependence).       *)
(* The harness realises this with `relayout` (checks/c07.py): between any   *)
(* two steps of a history the concrete list is replaced by another layout   *)
(* of the same set, and the trace specification must still accept.          *)
(***************************************************************************)
EXTENDS Integers, Sequences, FiniteSets, TLC

CONSTANTS LSel, LMark, MaxEntries
Entry == [sels : (SUBSET LSel) \ {{}}, m : LMark]
Layouts == UNION { [1..n -> Entry] : n \in 0..MaxEntries }

Abs(L) == { <<s, L[i].m>> : i \in DOMAIN L, s \in LSel } \cap { p \in LSel \X LMark : \E i \in DOMAIN L : p[1] \in L[i].sels /\ p[2] = L[i].m }

\* a sequence enumerating a finite set (any order: the laws below may not depend on it)
RECURSIVE SeqOf(_)
SeqOf(S) == IF S = {} THEN <<>> ELSE LET x == CHOOSE y \in S : TRUE IN <<x>> \o SeqOf(S \ {x})

\* utils.expand_markings: one entry per (selector, marking) occurrence, duplicates kept
RECURSIVE Expand(_)
Expand(L) == IF L = <<>> THEN <<>>
             ELSE [i \in 1..Cardinality(Head(L).sels) |-> [sels |-> {SeqOf(Head(L).sels)[i]}, m |-> Head(L).m]] \o Expand(Tail(L))
\* utils.compress_markings: one entry per marking, with all its selectors
Compress(L) == LET ms == { L[i].m : i \in DOMAIN L } IN
               [k \in 1..Cardinality(ms) |-> LET mk == SeqOf(ms)[k] IN [sels |-> UNION { L[i].sels : i \in { j \in DOMAIN L : L[j].m = mk } }, m |-> mk]]

\* mutators as the library computes them, on the expanded list
Keep(L, pred(_)) == SelectSeq(L, pred)
RemoveL(L, ms, sels) == Compress(SelectSeq(Expand(L), LAMBDA e : ~(e.m \in ms /\ e.sels \subseteq sels)))
AddL(L, ms, sels) == Compress(Expand(L) \o SeqOf({ [sels |-> {s}, m |-> mk] : s \in sels, mk \in ms }))
ClearL(L, sels) == Compress(SelectSeq(Expand(L), LAMBDA e : ~(e.sels \subseteq sels)))

AbstractionLaws ==
  \A L \in Layouts :
     /\ Abs(Expand(L)) = Abs(L)
     /\ Abs(Compress(L)) = Abs(L)
     /\ \A i, j \in DOMAIN Compress(L) : i # j => Compress(L)[i].m # Compress(L)[j].m          \* compressed form: one entry per marking
LayoutIndependence ==
  \A L \in Layouts, ms \in (SUBSET LMark) \ {{}}, sels \in (SUBSET LSel) \ {{}} :
     /\ Abs(RemoveL(L, ms, sels)) = Abs(L) \ (sels \X ms)
     /\ Abs(AddL(L, ms, sels)) = Abs(L) \cup (sels \X ms)
     /\ Abs(ClearL(L, sels)) = { p \in Abs(L) : p[1] \notin sels }
\* the mistake of seeded change C07C: dropping only the FIRST matching expanded entry
RECURSIVE DropFirst(_, _)
DropFirst(L, e) == IF L = <<>> THEN <<>> ELSE IF Head(L) = e THEN Tail(L) ELSE <<Head(L)>> \o DropFirst(Tail(L), e)
RECURSIVE DropEach(_, _)
DropEach(L, es) == IF es = <<>> THEN L ELSE DropEach(DropFirst(L, Head(es)), Tail(es))
BadRemoveL(L, ms, sels) == Compress(DropEach(Expand(L), SeqOf({ [sels |-> {s}, m |-> mk] : s \in sels, mk \in ms })))
BadLayoutIndependence == \A L \in Layouts, ms \in (SUBSET LMark) \ {{}}, sels \in (SUBSET LSel) \ {{}} : Abs(BadRemoveL(L, ms, sels)) = Abs(L) \ (sels \X ms)
=============================================================================
