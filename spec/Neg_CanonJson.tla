---- MODULE Neg_CanonJson ----
\* Negative configuration: members sorted by code point instead of UTF-16 code unit (astral keys move), and the
\* 1e21 threshold at 1e20.  The fixed point / parse-back invariants alone do not see a wrong-but-consistent order,
\* so the negative property is equality with the RFC rule, as in trace validation.
EXTENDS MC_CanonJson
CodePoints(u) == IF u = <<55357, 56832>> THEN <<128512>> ELSE u
BadSortedIdx(keys) == SortSeq([i \in 1..Len(keys) |-> i], LAMBDA i, j : LexLess(CodePoints(keys[i]), CodePoints(keys[j])))
RECURSIVE BadMembers(_, _, _)
BadMembers(v, order, i) == IF i > Len(order) THEN <<>>
   ELSE (IF i > 1 THEN <<44>> ELSE <<>>) \o QuoteStr(v.keys[order[i]]) \o <<58>> \o CanonV(v.vals[order[i]]) \o BadMembers(v, order, i + 1)
BadCanon(v) == IF v.k = "obj" THEN <<123>> \o BadMembers(v, BadSortedIdx(v.keys), 1) \o <<125>> ELSE Canon(v)
BadDoCanon == phase = "in" /\ phase' = "text" /\ text' = BadCanon(val) /\ UNCHANGED <<val, back, text2>>
BadSpec == Init /\ [][BadDoCanon]_vars
InvRfc == phase = "text" => text = Canon(val)
NegValues == Objs(2)
====
