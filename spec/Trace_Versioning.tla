---- MODULE Trace_Versioning ----
(* Trace validation for C05.  One line = one observed call of new_version / revoke / a marking function:
     pre, post : object records (post = pre when the call failed)
     op : [k, ch (sequence of <<name, value>> pairs), now | m]
     ok, exc, same_id (type/id/creator preserved), orig_unchanged, ser_pre, ser_post (serialized modified, us rel. base)
   Total: failing lines print REJECT + clause and the walk continues. *)
EXTENDS Versioning, Json, IOUtils, TLCExt
TraceLog == ndJsonDeserialize(IOEnv.TRACE_FILE)
VARIABLE l
tvars == <<vars, l>>

ChOf(seq) == [p \in {seq[i][1] : i \in DOMAIN seq} |-> seq[CHOOSE i \in DOMAIN seq : seq[i][1] = p][2]]
PropsOf(r) == [p \in PropNames |-> r[p]]
ObjOf(r) == [v |-> r.v, kind |-> r.kind, created |-> r.created, modified |-> r.modified, hasmod |-> r.hasmod,
             revoked |-> r.revoked, props |-> PropsOf(r.props)]
OpOf(r) == IF r.k = "revoke" THEN [k |-> "revoke", now |-> r.now]
           ELSE IF r.k = "newmod" THEN [k |-> "newmod", ch |-> ChOf(r.ch), m |-> r.m]
           ELSE [k |-> "new", ch |-> ChOf(r.ch), now |-> r.now]

\* lines recorded from the repository's own tests carry arbitrary property values: whether a refusal was legal (an invalid value, say) is outside the model
LenientRefusal(e) == "lenient_refusal" \in DOMAIN e /\ e.lenient_refusal
Clause(o, op, e, n) ==
  LET ch == IF op.k = "revoke" THEN <<>> ELSE op.ch IN
  IF o.revoked /\ e.ok THEN "revoked_object_versioned"
  ELSE IF e.ok /\ ~StrictlyNewerSerialized(o, n) THEN "not_strictly_newer"
  ELSE IF e.ok /\ e.ser_post <= e.ser_pre THEN "serialized_not_strictly_newer"
  ELSE IF e.ok /\ (~IdentityPreserved(o, n) \/ ~e.same_id) THEN "identity_changed"
  ELSE IF e.ok /\ (DOMAIN ch) \cap (Unmodifiable \cup LockedFor(o)) # {} THEN "unmodifiable_changed"
  ELSE IF e.ok /\ ~ExactChanges(o, n, ch) THEN "changes_not_exact"
  ELSE IF e.ok /\ n.revoked # (op.k = "revoke") THEN "revoked_flag_wrong"
  ELSE IF e.ok /\ op.k = "newmod" /\ op.m <= o.modified THEN "user_modified_not_later"
  ELSE IF ~e.orig_unchanged THEN "original_modified"
  ELSE IF ~e.ok /\ Apply(o, op).ok /\ ~LenientRefusal(e) THEN "refused_legal_operation"
  ELSE "none"

TraceInit == l = 1 /\ pool = {} /\ last = NoCall
TraceNext ==
  /\ l <= Len(TraceLog)
  /\ LET e == TraceLog[l]
         o == ObjOf(e.pre)
         n == ObjOf(e.post)
         op == OpOf(e.op)
         cl == Clause(o, op, e, n)
         x == Apply(o, op) IN
     /\ IF cl # "none" THEN PrintT(<<"REJECT", l, e.op.k, cl>>) ELSE TRUE
     /\ IF cl = "none" /\ (x.ok # e.ok \/ (x.ok /\ x.obj # n) \/ (~x.ok /\ x.err # e.exc))
        THEN PrintT(<<"DEVIATION", l, e.op.k, IF x.ok THEN "ok" ELSE x.err, e.exc>>) ELSE TRUE
     /\ pool' = {} /\ last' = [src |-> l, res |-> IF e.ok THEN Ok(n) ELSE Err(e.exc)]
  /\ l' = l + 1
TraceSpec == TraceInit /\ [][TraceNext]_tvars
Done == l = Len(TraceLog) + 1 => PrintT(<<"DONE", Len(TraceLog)>>)
====
