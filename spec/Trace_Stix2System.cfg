SPECIFICATION TraceSpec
CONSTANTS
  Ids <- TraceIds
  SpecVersion <- TraceSpecVersion
  Marks <- MCTraceMarks
  Vals <- MCTraceVals
  Deltas <- MCTraceDeltas
  MaxHandles = 0
  MaxClock = 0
  FilterSets <- MCTraceFilterSets
  WithReads = FALSE
INVARIANT Done
CHECK_DEADLOCK FALSE
