---- MODULE MC_Stix2System ----
\* Exhaustive configuration of the composition: two objects (one of each spec version), one marking (two in the thorough tier), clock steps that stay
\* inside a millisecond, reach its boundary and pass it.  Read results live in `last` only; MCView hides it (reads do not change the state).
EXTENDS Stix2System
MCIds == {"i20", "i21"}
MCOneId == {"i20"}
MCOneId21 == {"i21"}
MCSpecVersion == [i \in MCIds |-> IF i = "i20" THEN "2.0" ELSE "2.1"]
MCMarks1 == {"m1"}
MCMarks2 == {"m1", "m2"}
MCVals1 == {"a"}
MCVals == {"a", "b"}
MCDeltas == {400, 1000}
MCSimDeltas == {0, 1, 400, 999, 1000, 2500}
MCFilterSets == {{}, {[f |-> "revoked", v |-> TRUE]}, {[f |-> "om", v |-> "m1"]}, {[f |-> "gmref", v |-> "m1"], [f |-> "revoked", v |-> FALSE]}, {[f |-> "gmsel", v |-> "description"]},
                 {[f |-> "desc", v |-> "a"], [f |-> "id", v |-> "i20"]}}
MCView == <<heap, kind, par, store, clock>>
====
