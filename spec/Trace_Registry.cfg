SPECIFICATION TraceSpec
CONSTANTS
  Names = {}
  NameInfo = {}
  Builtins = {}
INVARIANT Done
CHECK_DEADLOCK FALSE
