---- MODULE Neg_Confidence_TTrace_1790397917 ----
EXTENDS Sequences, TLCExt, Neg_Confidence, Toolbox, Naturals, TLC

_expression ==
    LET Neg_Confidence_TEExpression == INSTANCE Neg_Confidence_TEExpression
    IN Neg_Confidence_TEExpression!expression
----

_trace ==
    LET Neg_Confidence_TETrace == INSTANCE Neg_Confidence_TETrace
    IN Neg_Confidence_TETrace!trace
----

_inv ==
    ~(
        TLCGet("level") = Len(_TETrace)
        /\
        res = ([ok |-> TRUE, value |-> 85, k |-> "value"])
        /\
        arg = ("High")
        /\
        fn = ("none_low_med_high_to_value")
    )
----

_init ==
    /\ res = _TETrace[1].res
    /\ fn = _TETrace[1].fn
    /\ arg = _TETrace[1].arg
----

_next ==
    /\ \E i,j \in DOMAIN _TETrace:
        /\ \/ /\ j = i + 1
              /\ i = TLCGet("level")
        /\ res  = _TETrace[i].res
        /\ res' = _TETrace[j].res
        /\ fn  = _TETrace[i].fn
        /\ fn' = _TETrace[j].fn
        /\ arg  = _TETrace[i].arg
        /\ arg' = _TETrace[j].arg

\* Uncomment the ASSUME below to write the states of the error trace
\* to the given file in Json format. Note that you can pass any tuple
\* to `JsonSerialize`. For example, a sub-sequence of _TETrace.
    \* ASSUME
    \*     LET J == INSTANCE Json
    \*         IN J!JsonSerialize("Neg_Confidence_TTrace_1790397917.json", _TETrace)

=============================================================================

 Note that you can extract this module `Neg_Confidence_TEExpression`
  to a dedicated file to reuse `expression` (the module in the 
  dedicated `Neg_Confidence_TEExpression.tla` file takes precedence 
  over the module `Neg_Confidence_TEExpression` below).

---- MODULE Neg_Confidence_TEExpression ----
EXTENDS Sequences, TLCExt, Neg_Confidence, Toolbox, Naturals, TLC

expression == 
    [
        \* To hide variables of the `Neg_Confidence` spec from the error trace,
        \* remove the variables below.  The trace will be written in the order
        \* of the fields of this record.
        res |-> res
        ,fn |-> fn
        ,arg |-> arg
        
        \* Put additional constant-, state-, and action-level expressions here:
        \* ,_stateNumber |-> _TEPosition
        \* ,_resUnchanged |-> res = res'
        
        \* Format the `res` variable as Json value.
        \* ,_resJson |->
        \*     LET J == INSTANCE Json
        \*     IN J!ToJson(res)
        
        \* Lastly, you may build expressions over arbitrary sets of states by
        \* leveraging the _TETrace operator.  For example, this is how to
        \* count the number of times a spec variable changed up to the current
        \* state in the trace.
        \* ,_resModCount |->
        \*     LET F[s \in DOMAIN _TETrace] ==
        \*         IF s = 1 THEN 0
        \*         ELSE IF _TETrace[s].res # _TETrace[s-1].res
        \*             THEN 1 + F[s-1] ELSE F[s-1]
        \*     IN F[_TEPosition - 1]
    ]

=============================================================================



Parsing and semantic processing can take forever if the trace below is long.
 In this case, it is advised to uncomment the module below to deserialize the
 trace from a generated binary file.

\*
\*---- MODULE Neg_Confidence_TETrace ----
\*EXTENDS IOUtils, Neg_Confidence, TLC
\*
\*trace == IODeserialize("Neg_Confidence_TTrace_1790397917.bin", TRUE)
\*
\*=============================================================================
\*

---- MODULE Neg_Confidence_TETrace ----
EXTENDS Neg_Confidence, TLC

trace == 
    <<
    ([res |-> [ok |-> FALSE],arg |-> 0,fn |-> "none"]),
    ([res |-> [ok |-> FALSE],arg |-> -2,fn |-> "value_to_admiralty_credibility"]),
    ([res |-> [ok |-> TRUE, value |-> 85, k |-> "value"],arg |-> "High",fn |-> "none_low_med_high_to_value"])
    >>
----


=============================================================================

---- CONFIG Neg_Confidence_TTrace_1790397917 ----
CONSTANTS
    MinArg <- MinArgV
    MaxArg = 102
    JunkLabels = { "none" }

INVARIANT
    _inv

CHECK_DEADLOCK
    \* CHECK_DEADLOCK off because of PROPERTY or INVARIANT above.
    FALSE

INIT
    _init

NEXT
    _next

CONSTANT
    _TETrace <- _trace

ALIAS
    _expression
=============================================================================
\* Generated on Sat Sep 26 04:45:18 UTC 2026