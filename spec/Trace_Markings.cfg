SPECIFICATION TraceSpec
CONSTANTS
  Sel = {}
  Bad = {}
  Refs = {"M1", "M2", "M3"}
  Langs = {"L1", "L2"}
INVARIANT Done
CHECK_DEADLOCK FALSE
