SPECIFICATION BadSpec
CONSTANTS
  Inputs <- NegInputs
  PCs <- NegPCs
INVARIANT InvAcceptable
CHECK_DEADLOCK FALSE
