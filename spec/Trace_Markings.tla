---- MODULE Trace_Markings ----
(* Trace validation for C07 and C08.  One line = one observed call of a marking function / method:
     tree : the marked object as a JSON tree (Selectors.tla), op, ms, ss (selectors as step sequences), ur, ul, inh, desc,
     pre, post : [G (pairs <<selector, marking>>), O], res : [k \in {"new","same","err","set","bool"}, e | v],
     newer (modified strictly later), content_same (everything but markings and modified unchanged)
   Clauses C08:* decide the selector verdict, C07:* the algebra. *)
EXTENDS Markings, Json, IOUtils, TLCExt
S == INSTANCE Selectors
TraceLog == ndJsonDeserialize(IOEnv.TRACE_FILE)
VARIABLE l
tvars == <<vars, l>>
ToSet(q) == { q[i] : i \in DOMAIN q }
PairSet(q) == { <<q[i][1], q[i][2]>> : i \in DOMAIN q }
Rej(e, c) == PrintT(<<"REJECT", l, e.op, c>>)
Granular(op) == op \in {"add", "remove", "clear", "set", "get", "is_marked", "is_marked_any", "construct", "parse"}

Expected(e, valid, g, o, ms, ss) ==
  IF e.op = "add" THEN AddGS(valid, g, o, ms, ss)
  ELSE IF e.op = "remove" THEN RemoveGS(valid, g, o, ms, ss)
  ELSE IF e.op = "clear" THEN ClearGS(valid, g, o, ss, e.ur, e.ul)
  ELSE IF e.op = "set" THEN SetGS(valid, g, o, ms, ss, e.ur, e.ul)
  ELSE IF e.op = "addO" THEN AddO(g, o, ms)
  ELSE IF e.op = "removeO" THEN RemoveO(g, o, ms)
  ELSE IF e.op = "setO" THEN SetO(g, o, ms)
  ELSE IF e.op = "clearO" THEN ClearO(g, o)
  ELSE Same

TraceInit == l = 1 /\ G = {} /\ O = {} /\ ver = 0 /\ last = [op |-> "none"]
TraceNext ==
  /\ l <= Len(TraceLog)
  /\ LET e == TraceLog[l]
         valid == S!Paths(e.tree)
         g == PairSet(e.pre.G)  o == ToSet(e.pre.O)
         g2 == PairSet(e.post.G)  o2 == ToSet(e.post.O)
         ms == ToSet(e.ms)  ss == ToSet(e.ss)
         ok == ValidIn(valid, ss)
         refused == e.res.k = "err" /\ e.res.e = "InvalidSelectorError"
         x == Expected(e, valid, g, o, ms, ss)
         xg == IF x.k = "new" THEN x.G ELSE g
         xo == IF x.k = "new" THEN x.O ELSE o IN
     /\ IF Granular(e.op) /\ ~e.lenient /\ ok /\ refused THEN Rej(e, "C08:selector_addressing_something_rejected")
        ELSE IF Granular(e.op) /\ ~e.lenient /\ ~ok /\ ~refused THEN Rej(e, "C08:selector_addressing_nothing_accepted")
        ELSE IF Granular(e.op) /\ ok # ~refused THEN TRUE     \* lenient selector syntax: no further obligation on this line
        ELSE /\ IF <<g2, o2>> # <<xg, xo>> THEN Rej(e, "C07:post_state_not_as_set_algebra") ELSE TRUE
             /\ IF <<g2, o2>> # <<g, o>> /\ ~(e.newer /\ e.content_same) THEN Rej(e, "C07:result_not_a_proper_new_version") ELSE TRUE
             /\ IF e.op = "get" /\ ~refused /\ (e.res.k # "set" \/ ToSet(e.res.v) # Get(g, o, ss, e.inh, e.desc, e.ur, e.ul)) THEN Rej(e, "C07:get_markings_answer") ELSE TRUE
             /\ IF e.op = "is_marked" /\ ~refused /\ (e.res.k # "bool" \/ e.res.v # IsMarkedWith(g, o, CHOOSE m \in ms : TRUE, ss, e.inh, e.desc)) THEN Rej(e, "C07:is_marked_disagrees_with_get_markings") ELSE TRUE
             /\ IF e.op = "is_marked_any" /\ ~refused /\ (e.res.k # "bool" \/ e.res.v # IsMarkedAny(g, o, ss, e.inh, e.desc)) THEN Rej(e, "C07:is_marked_any_disagrees_with_get_markings") ELSE TRUE
             /\ IF e.op = "getO" /\ (e.res.k # "set" \/ ToSet(e.res.v) # o) THEN Rej(e, "C07:object_markings_answer") ELSE TRUE
             /\ IF e.op = "is_markedO" /\ (e.res.k # "bool" \/ e.res.v # ((CHOOSE m \in ms : TRUE) \in o)) THEN Rej(e, "C07:object_is_marked_answer") ELSE TRUE
     /\ G' = g2 /\ O' = o2 /\ ver' = ver /\ last' = [op |-> e.op]
  /\ l' = l + 1
TraceSpec == TraceInit /\ [][TraceNext]_tvars
Done == l = Len(TraceLog) + 1 => PrintT(<<"DONE", Len(TraceLog)>>)
====
