---- MODULE Neg_FsOptimizer ----
\* Negative configuration: every type filter that is not "=" / "in" is treated like "!=" (its value goes on the blacklist):
\* Sound must fail (e.g. type >= 1 hides type 1).
EXTENDS MC_FsOptimizer
BadStepF(st, f) == IF f.prop = "type" /\ f.op \notin {"=", "in"} THEN [st EXCEPT !.pt = @ \cup {f.val}] ELSE Step(st, f)
RECURSIVE BadFold(_, _)
BadFold(st, fs) == IF fs = <<>> THEN st ELSE BadFold(BadStepF(st, Head(fs)), Tail(fs))
BadOpt(fs) == LET st == BadFold(Start, fs) IN [types |-> Auth(st.at, st.pt), ids |-> Auth(st.ai, st.pi)]
BadSound == \A id \in Ids : SatSeq(fseq, TypeOf[id], id) => Visited(BadOpt(fseq), TypeOf[id], id)
====
