---- MODULE Neg_DetId ----
\* Negative configuration: the hash that contributes is simply the first one listed (dictionary order decides):
\* SameIdWhenSameContributors must fail on a re-ordered hash dictionary.
EXTENDS MC_DetId
BadChoose(h) == IF h.keys = <<>> THEN h ELSE [k |-> "obj", keys |-> <<h.keys[1]>>, vals |-> <<h.vals[1]>>]
BadView(o) ==
  LET want == { o.names[n] : n \in (Contrib[o.type] \cap DOMAIN o.names) }
      idx == SelectSeq([i \in DOMAIN o.props.keys |-> i], LAMBDA i : o.props.keys[i] \in want)
  IN [k |-> "obj", keys |-> [j \in DOMAIN idx |-> o.props.keys[idx[j]]],
      vals |-> [j \in DOMAIN idx |-> IF o.props.keys[idx[j]] = kHashes THEN BadChoose(o.props.vals[idx[j]]) ELSE o.props.vals[idx[j]]]]
BadSame == step \in {"permute", "noncontrib"} => Canon(BadView(cur)) = Canon(BadView(orig))
====
