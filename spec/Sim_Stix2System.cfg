SPECIFICATION GenSpec
CONSTANTS
  Ids <- MCIds
  SpecVersion <- MCSpecVersion
  Marks <- MCMarks2
  Vals <- MCVals
  Deltas <- MCSimDeltas
  MaxHandles = 7
  MaxClock = 100000
  FilterSets <- MCFilterSets
  WithReads = TRUE
  Depth = 14
CONSTRAINT GenBound
INVARIANT Emit
INVARIANT TypeOK
INVARIANT ChainMonotone
INVARIANT RevokedTerminal
INVARIANT NoDangling
INVARIANT CopiesEqual
INVARIANT StoredWereAdded
INVARIANT KeysUnique
INVARIANT LookupNeverStale
INVARIANT FederationNewest
INVARIANT MarkingsOnlyByMarkingOps
CHECK_DEADLOCK FALSE
