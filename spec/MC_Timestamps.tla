---- MODULE MC_Timestamps ----
EXTENDS Timestamps, Json, IOUtils, FiniteSets
US == {0, 1, 9, 10, 99, 100, 500, 999, 1000, 1001, 1500, 9999, 10000, 99999, 100000, 120000, 123000, 123400,
       123450, 123456, 499999, 500000, 999000, 999499, 999500, 999900, 999990, 999999}
Dates == {<<1,1,1>>, <<1,1,2>>, <<9,9,9>>, <<10,10,10>>, <<99,12,31>>, <<100,3,1>>, <<999,12,31>>, <<1000,1,1>>,
          <<1600,2,29>>, <<1900,2,28>>, <<1900,3,1>>, <<2000,2,29>>, <<2000,3,1>>, <<2016,12,31>>, <<2017,1,1>>,
          <<2024,2,29>>, <<9999,12,30>>, <<9999,12,31>>}
Times == {<<0,0,0>>, <<23,59,59>>, <<12,30,45>>, <<0,0,59>>, <<5,29,0>>}
MinusOne == -1
Offs == {0, 840, 0 - 840, 330, MinusOne, 1, 345, 0 - 720}
AllPCs == {<<"any","exact">>, <<"any","min">>, <<"second","exact">>, <<"second","min">>,
           <<"millisecond","exact">>, <<"millisecond","min">>}
MkInputs(ds, ts, us, os) == { [y |-> dd[1], mo |-> dd[2], d |-> dd[3], h |-> tt[1], mi |-> tt[2], s |-> tt[3], us |-> u, off |-> o] :
                              dd \in ds, tt \in ts, u \in us, o \in os }
\* offsets with a seconds part (local mean times): +00:19:32, -00:00:30, +14:00:59
WithOffs == { [y |-> 2017, mo |-> 1, d |-> 1, h |-> tt[1], mi |-> tt[2], s |-> tt[3], us |-> u, off |-> o[1], offs |-> o[2]] :
              tt \in {<<0,0,0>>, <<23,59,59>>, <<0,19,31>>}, u \in {0, 999999, 123456}, o \in {<<19, 32>>, <<0, 0 - 30>>, <<840, 59>>, <<0 - 1, 0 - 59>>} }
QuickInputs == WithOffs \cup MkInputs(Dates, Times, US, {0, 840, 0 - 840}) \cup MkInputs({<<2017,1,1>>, <<1,1,1>>, <<9999,12,31>>}, {<<0,0,0>>, <<23,59,59>>}, {0, 999999, 123000}, Offs)
SmallInputs == MkInputs({<<999,12,31>>, <<2017,1,1>>, <<2016,12,31>>}, {<<0,0,0>>, <<23,59,59>>}, {0, 999, 1000, 123456, 999999}, {0, 1, MinusOne})
ASSUME Monotone(SmallInputs, AllPCs)
\* S2: table of expectations for the replayer
Table == { [c |-> c, prec |-> q[1], con |-> q[2], text |-> Format(c, q[1], q[2])] :
           c \in {x \in MkInputs(Dates, {<<0,0,0>>, <<23,59,59>>}, {0, 1, 1000, 120000, 123456, 999999}, {0, 840, 0 - 840, 330}) : InRange(Instant(x))}, q \in AllPCs }
ASSUME IF "OUT_FILE" \in DOMAIN IOEnv THEN JsonSerialize(IOEnv.OUT_FILE, [rows |-> Table]) ELSE TRUE
====
