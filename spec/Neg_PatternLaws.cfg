SPECIFICATION Spec
CONSTANTS
  Vals = {1, 2}
  Times = {0, 1}
  MaxLen = 3
INVARIANT NonLawWitness
CHECK_DEADLOCK FALSE
