---- MODULE MC_Stix2SystemGen ----
\* Behaviour generation for spec -> code replay of the composition: every call with its arguments, what it answered, the handle it produced (if any)
\* and the clock.  One line per step; the replayer keeps the same handles in the real library and compares after every step.
EXTENDS MC_Stix2System, Json
VARIABLE hist
Step == [call |-> last, clock |-> clock, n |-> Len(heap), top |-> IF Len(heap) > 0 THEN heap[Len(heap)] ELSE [id |-> "none"],
         mem |-> store["mem"], fs |-> store["fs"]]
GenInit == Init /\ hist = <<>>
\* random simulation picks uniformly among the successors, most of which are reads and clock ticks: no two of either in a row
GenNext == /\ Next /\ ~(last.op.k = "read" /\ last'.op.k = "read") /\ ~(last.op.k = "tick" /\ last'.op.k = "tick")
           /\ hist' = Append(hist, Step')
GenSpec == GenInit /\ [][GenNext]_<<vars, hist>>
CONSTANT Depth
GenBound == Len(hist) <= Depth
Emit == Len(hist) = Depth => PrintT(<<"BEH", ToJson(hist)>>)
\* the invariants of the composition are evaluated on every generated behaviour as well (simulation reaches six handles and two markings)
====
