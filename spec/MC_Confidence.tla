---- MODULE MC_Confidence ----
EXTENDS Confidence, Json, IOUtils
MinArgV == -50
Junk == {"none", "low", "HIGH", " Med", "Med ", "11", "-1", "01", "", "Truth cannot be judged", "certain", "Likely / Probable ", "Likely/ Probable"}
ASSUME TablesOK
\* S2: the complete expected table, written out for the replayer
ExpectedTable ==
  [ tolabel |-> [ f \in DOMAIN ToLabelFn |-> [ n \in MinArg..MaxArg |-> ToLabel(ToLabelFn[f], n) ] ],
    tovalue |-> [ f \in DOMAIN ToValueFn |-> [ l \in AllLabels |-> ToValue(ToValueFn[f], l) ] ],
    offset |-> MinArg ]
ASSUME IF "OUT_FILE" \in DOMAIN IOEnv THEN JsonSerialize(IOEnv.OUT_FILE, ExpectedTable) ELSE TRUE
====
