------------------------------ MODULE DataStore ------------------------------
(***************************************************************************)
(* C11, C12, C18 -- stores, filters, federation, relationship navigation    *)
(* (datastore/memory.py, filesystem.py, filters.py, __init__.py,            *)
(* environment.py, utils.deduplicate).                                      *)
(*                                                                         *)
(* An object version is a record                                            *)
(*   [id, type, ver, name, num, labels, refs, src, tgt, rtype, creator]     *)
(* id, type, name, rtype, label and reference values are small integers     *)
(* that stand for strings in an order-preserving way (the harness maps      *)
(* them), ver is the modified instant (0 = the type has no modified),       *)
(* num is an integer property (-1 = absent), labels a sequence, refs a      *)
(* sequence of embedded records [s, v], src/tgt/creator ids (0 = absent).   *)
(* The reference meaning of every read is a comprehension over the plain    *)
(* set of everything added -- "a scan of the data".                         *)
(***************************************************************************)
EXTENDS Integers, Sequences, FiniteSets, TLC

Absent == -1
ToSet(s) == { s[i] : i \in DOMAIN s }

-----------------------------------------------------------------------------
(* Filters:  [prop, op, val]   val is an integer or, for "in", a set of integers *)
Ops == {"=", "!=", "in", "<", "<=", ">", ">=", "contains"}
\* the values a (possibly dotted) property path reaches, descending existentially through lists; {} when absent
Vals(o, prop) ==
  IF prop = "type" THEN {o.type}
  ELSE IF prop = "id" THEN {o.id}
  ELSE IF prop = "modified" THEN (IF o.ver = 0 THEN {} ELSE {o.ver})
  ELSE IF prop = "name" THEN (IF o.name = Absent THEN {} ELSE {o.name})
  ELSE IF prop = "num" THEN (IF o.num = Absent THEN {} ELSE {o.num})
  ELSE IF prop = "labels" THEN ToSet(o.labels)
  ELSE IF prop = "refs.s" THEN { o.refs[i].s : i \in DOMAIN o.refs }
  ELSE IF prop = "refs.v" THEN { o.refs[i].v : i \in DOMAIN o.refs }
  ELSE IF prop = "source_ref" THEN (IF o.src = 0 THEN {} ELSE {o.src})
  ELSE IF prop = "target_ref" THEN (IF o.tgt = 0 THEN {} ELSE {o.tgt})
  ELSE IF prop = "relationship_type" THEN (IF o.rtype = 0 THEN {} ELSE {o.rtype})
  ELSE IF prop = "created_by_ref" THEN (IF o.creator = 0 THEN {} ELSE {o.creator})
  ELSE {}          \* a property no object has
\* ("=seq" / "!=seq": the operators = and != given a whole list as value, on a scalar property: a scalar is never equal to a list -- only "in" looks inside the list)
Cmp(op, x, v) == IF op = "=seq" THEN FALSE ELSE IF op = "!=seq" THEN TRUE
                 ELSE IF op = "=" THEN x = v ELSE IF op = "!=" THEN x # v ELSE IF op = "in" THEN x \in v
                 ELSE IF op = "<" THEN x < v ELSE IF op = "<=" THEN x <= v ELSE IF op = ">" THEN x > v
                 ELSE IF op = ">=" THEN x >= v ELSE x = v      \* "contains" on the model's values: element / whole-string equality
Holds(f, o) == \E x \in Vals(o, f.prop) : Cmp(f.op, x, f.val)
Sat(F, o) == \A f \in F : Holds(f, o)
Query(S, F) == { o \in S : Sat(F, o) }

\* laws a query obeys by construction; stated so that a change of Holds/Query that breaks them is caught by TLC
Shrinks(S, Fs) == \A F \in { G \in SUBSET Fs : Cardinality(G) <= 3 }, f \in Fs : Query(S, F \cup {f}) \subseteq Query(S, F)
Small(Fs) == { F \in SUBSET Fs : Cardinality(F) <= 2 }
Conjunction(S, Fs) == \A F1 \in Small(Fs), F2 \in Small(Fs) : Query(S, F1 \cup F2) = Query(S, F1) \cap Query(S, F2)

-----------------------------------------------------------------------------
(* Reads of one store holding the set S *)
Key(o) == <<o.id, o.ver>>
Newest(S, id) == IF \E o \in S : o.id = id THEN {CHOOSE o \in S : o.id = id /\ \A p \in S : p.id = id => p.ver <= o.ver} ELSE {}
AllVersions(S, id) == { o \in S : o.id = id }
\* with attached filters a lookup may answer nothing when the newest version fails them; it must answer the newest when that passes
GetAnswers(S, id, F) == LET n == Newest(S, id) IN
  IF n = {} THEN {{}} ELSE IF Sat(F, CHOOSE o \in n : TRUE) THEN {n} ELSE {{}} \cup { {o} : o \in Query(AllVersions(S, id), F) }

-----------------------------------------------------------------------------
(* Federation: members is a sequence of sets of versions *)
Union(members) == UNION { members[i] : i \in DOMAIN members }
CAllVersions(members, id, F) == Query(AllVersions(Union(members), id), F)
CQuery(members, F) == Query(Union(members), F)
CGetAnswers(members, id, F) == GetAnswers(Union(members), id, F)
\* answers are sets keyed by (id, version): the same version held by several members appears once
Dedup(S) == \A a, b \in S : Key(a) = Key(b) => a = b

(* Relationship navigation over the stored relationship objects *)
Rels(S, id, rtype, srcOnly, tgtOnly) ==
  { r \in S : r.src # 0 /\ (rtype = 0 \/ r.rtype = rtype)
              /\ ((~tgtOnly /\ r.src = id) \/ (~srcOnly /\ r.tgt = id)) }
RelatedTo(S, id, rtype, srcOnly, tgtOnly, F) ==
  LET ids == (UNION { {r.src, r.tgt} : r \in Rels(S, id, rtype, srcOnly, tgtOnly) }) \ {id}
  IN { o \in S : o.id \in ids /\ Sat(F, o) }
CreatorOf(S, o) == IF o.creator = 0 THEN {} ELSE Newest(S, o.creator)

-----------------------------------------------------------------------------
(* State machine: additions in any order and form to both stores; reads *)
CONSTANTS Universe,      \* set of object versions that may be added
          Forms,         \* input forms (object, dict, list, bundle, json text ...): no effect on the outcome
          FilterAlphabet
VARIABLES added, mem, fs, last
vars == <<added, mem, fs, last>>
Init == added = <<>> /\ mem = {} /\ fs = {} /\ last = [op |-> "none"]

\* the filesystem sink refuses to write a version it already holds (DataSourceError); the memory sink keeps one copy
Add(form, objs) ==
  /\ added' = Append(added, objs)
  /\ mem' = mem \cup objs
  /\ IF \E o \in objs : \E p \in fs : Key(p) = Key(o)
     THEN fs' = fs /\ last' = [op |-> "add", form |-> form, fsres |-> "DataSourceError"]
     ELSE fs' = fs \cup objs /\ last' = [op |-> "add", form |-> form, fsres |-> "ok"]
Next == \E form \in Forms, objs \in (SUBSET Universe) \ {{}} :
           /\ Cardinality(objs) <= 2 /\ (\A a, b \in objs : Key(a) = Key(b) => a = b)
           \* named restriction: something the filesystem store already holds is re-added only on its own (a list is written
           \* element by element, so a refusal in the middle leaves the rest of that list unwritten -- loudly, with an error)
           /\ (Cardinality(objs) = 1 \/ ~\E o \in objs : \E p \in fs : Key(p) = Key(o))
           /\ Add(form, objs)
Spec == Init /\ [][Next]_vars

Everything == UNION { added[i] : i \in DOMAIN added }
\* the memory store holds exactly what was added; the filesystem store everything but refused re-additions
MemIsList == mem = Everything
FsIsListMinusRefused == fs \subseteq Everything /\ \A o \in Everything : \E p \in fs : Key(p) = Key(o)
\* nothing is ever lost or replaced
NothingLost == [][mem \subseteq mem' /\ fs \subseteq fs']_vars
\* reads do not depend on the order of additions: they are functions of the set
ReadsAgree == \A id \in { o.id : o \in Universe } :
                 /\ Newest(mem, id) = Newest(Everything, id)
                 /\ (\A a, b \in Everything : Key(a) = Key(b) => a = b) => Newest(fs, id) = Newest(Everything, id)
=============================================================================
