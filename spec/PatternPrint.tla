----------------------------- MODULE PatternPrint -----------------------------
(***************************************************************************)
(* C10 -- pattern text <-> pattern object model (pattern_visitor.py,        *)
(* patterns.py __str__).                                                    *)
(*                                                                         *)
(* Toks(ast) writes the token sequence of an AST, inserting parentheses    *)
(* only at "paren" nodes (as the model's ParentheticalExpression does);     *)
(* Parenthesize(ast) adds "paren" nodes exactly where the grammar needs     *)
(* them: inside [ ] AND binds tighter than OR; between observation          *)
(* expressions every compound or qualified operand of another operator is   *)
(* grouped explicitly.  Norm(ast) is structure up to grouping that does not *)
(* change the tree: parentheses dropped, same-operator nesting flattened,   *)
(* "!=" written as negated "=" (what the object model stores).              *)
(***************************************************************************)
EXTENDS PatternSem

RECURSIVE NatStr(_)
Dg(n) == CASE n = 0 -> "0" [] n = 1 -> "1" [] n = 2 -> "2" [] n = 3 -> "3" [] n = 4 -> "4" [] n = 5 -> "5" [] n = 6 -> "6" [] n = 7 -> "7" [] n = 8 -> "8" [] n = 9 -> "9"
NatStr(n) == IF n < 10 THEN Dg(n) ELSE NatStr(n \div 10) \o Dg(n % 10)
IntStr(n) == IF n < 0 THEN "-" \o NatStr(0 - n) ELSE NatStr(n)
RECURSIVE ListToks(_, _)
ListToks(c, i) == IF i > Len(c) THEN <<>> ELSE (IF i > 1 THEN <<",">> ELSE <<>>) \o <<IntStr(c[i])>> \o ListToks(c, i + 1)
Stamp(t) == "t'2020-01-01T00:00:0" \o NatStr(t) \o "Z'"

Compound(a) == a.k \in {"and", "or", "oand", "oor", "fb"}
OpTok(k) == IF k \in {"and", "oand"} THEN "AND" ELSE IF k \in {"or", "oor"} THEN "OR" ELSE "FOLLOWEDBY"

RECURSIVE Toks(_), Join(_, _, _)
Join(args, i, tok) == IF i > Len(args) THEN <<>> ELSE (IF i > 1 THEN <<tok>> ELSE <<>>) \o Toks(args[i]) \o Join(args, i + 1, tok)
Toks(a) ==
  IF a.k = "cmp" THEN <<a.type \o ":" \o a.prop>> \o (IF a.neg THEN <<"NOT">> ELSE <<>>) \o <<a.op>>
                      \o (IF a.op = "IN" THEN <<"(">> \o ListToks(a.const, 1) \o <<")">> ELSE <<IntStr(a.const)>>)
  ELSE IF a.k = "paren" THEN <<"(">> \o Toks(a.e) \o <<")">>
  ELSE IF a.k = "obs" THEN <<"[">> \o Toks(a.e) \o <<"]">>
  ELSE IF a.k = "qual" THEN Toks(a.e) \o (IF a.q.k = "repeats" THEN <<"REPEATS", NatStr(a.q.n), "TIMES">>
                                           ELSE IF a.q.k = "within" THEN <<"WITHIN", NatStr(a.q.s), "SECONDS">>
                                           ELSE <<"START", Stamp(a.q.t1), "STOP", Stamp(a.q.t2)>>)
  ELSE Join(a.args, 1, OpTok(a.k))

Paren(x) == [k |-> "paren", e |-> x]
RECURSIVE Parenthesize(_)
Parenthesize(a) ==
  IF a.k = "cmp" THEN a
  ELSE IF a.k = "paren" THEN Paren(Parenthesize(a.e))
  ELSE IF a.k = "obs" THEN [a EXCEPT !.e = Parenthesize(a.e)]
  ELSE IF a.k = "qual" THEN [a EXCEPT !.e = IF Compound(a.e) \/ a.e.k = "qual" THEN Paren(Parenthesize(a.e)) ELSE Parenthesize(a.e)]
  ELSE IF a.k = "and" THEN [a EXCEPT !.args = [i \in DOMAIN a.args |-> IF a.args[i].k = "or" THEN Paren(Parenthesize(a.args[i])) ELSE Parenthesize(a.args[i])]]
  ELSE IF a.k = "or" THEN [a EXCEPT !.args = [i \in DOMAIN a.args |-> Parenthesize(a.args[i])]]
  ELSE [a EXCEPT !.args = [i \in DOMAIN a.args |-> IF Compound(a.args[i]) \/ a.args[i].k = "qual" THEN Paren(Parenthesize(a.args[i])) ELSE Parenthesize(a.args[i])]]

RECURSIVE Norm(_), Flat(_, _, _)
Flat(k, args, i) == IF i > Len(args) THEN <<>>
                    ELSE LET n == Norm(args[i]) IN (IF n.k = k THEN n.args ELSE <<n>>) \o Flat(k, args, i + 1)
Norm(a) ==
  IF a.k = "cmp" THEN (IF a.op = "!=" THEN [a EXCEPT !.op = "=", !.neg = ~a.neg] ELSE a)
  ELSE IF a.k = "paren" THEN Norm(a.e)
  ELSE IF a.k = "obs" THEN [k |-> "obs", e |-> Norm(a.e)]
  ELSE IF a.k = "qual" THEN [k |-> "qual", e |-> Norm(a.e), q |-> a.q]
  ELSE [k |-> a.k, args |-> Flat(a.k, a.args, 1)]
SameStructure(a, b) == Norm(a) = Norm(b)
=============================================================================
