SPECIFICATION BadSpec
CONSTANTS
  PropNames <- PN
  Required <- Req
  Locked <- Lck
  Roots <- MCRoots
  Deltas <- MCDeltas
  UserDeltas <- MCUserDeltas
  ChangeSets <- TimingChanges
  MaxVersions = 3
INVARIANT ChainMonotone
CHECK_DEADLOCK FALSE
