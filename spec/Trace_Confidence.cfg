SPECIFICATION TraceSpec
CONSTANTS
  MinArg = 0
  MaxArg = 0
  JunkLabels = {}
INVARIANT Done
CHECK_DEADLOCK FALSE
