---- MODULE Neg_Confidence ----
\* Negative configuration: the 29/30 boundary of None/Low/Med/High shifted by one in the
\* *implementation-shaped* operator; the invariant must fail (shows CallInv is not vacuous).
EXTENDS Confidence
MinArgV == -2
BadToLabel(s, n) == IF s = "nlmh" /\ n = 85 THEN Label("Med") ELSE ToLabel(s, n)
BadNext == \/ \E f \in DOMAIN ToLabelFn, n \in MinArg..MaxArg : fn' = f /\ arg' = n /\ res' = BadToLabel(ToLabelFn[f], n)
           \/ \E f \in DOMAIN ToValueFn, l \in AllLabels : CallToValue(f, l)
BadSpec == Init /\ [][BadNext]_vars
\* "High" maps to 85, which BadToLabel sends to Med: the round trip breaks
RoundTripInv == fn \in DOMAIN ToValueFn /\ res.ok => BadToLabel(ToValueFn[fn], res.value) = Label(arg)
====
