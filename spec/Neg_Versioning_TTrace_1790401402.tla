---- MODULE Neg_Versioning_TTrace_1790401402 ----
EXTENDS Sequences, TLCExt, Toolbox, Naturals, TLC, Neg_Versioning

_expression ==
    LET Neg_Versioning_TEExpression == INSTANCE Neg_Versioning_TEExpression
    IN Neg_Versioning_TEExpression!expression
----

_trace ==
    LET Neg_Versioning_TETrace == INSTANCE Neg_Versioning_TETrace
    IN Neg_Versioning_TETrace!trace
----

_inv ==
    ~(
        TLCGet("level") = Len(_TETrace)
        /\
        last = ([op |-> [now |-> 5999, k |-> "new", ch |-> <<>>], src |-> 1, res |-> [ok |-> TRUE, obj |-> [v |-> "2.0", modified |-> 5000, kind |-> "obj", created |-> 5000, hasmod |-> TRUE, revoked |-> FALSE, props |-> [name |-> "a", description |-> "absent", aliases |-> "a"]]]])
        /\
        pool = ({[obj |-> [v |-> "2.0", modified |-> 5000, kind |-> "obj", created |-> 5000, hasmod |-> TRUE, revoked |-> FALSE, props |-> [name |-> "a", description |-> "absent", aliases |-> "a"]], id |-> 1, parent |-> 0], [obj |-> [v |-> "2.0", modified |-> 5000, kind |-> "obj", created |-> 5000, hasmod |-> TRUE, revoked |-> FALSE, props |-> [name |-> "a", description |-> "absent", aliases |-> "a"]], id |-> 2, parent |-> 1]})
    )
----

_init ==
    /\ pool = _TETrace[1].pool
    /\ last = _TETrace[1].last
----

_next ==
    /\ \E i,j \in DOMAIN _TETrace:
        /\ \/ /\ j = i + 1
              /\ i = TLCGet("level")
        /\ pool  = _TETrace[i].pool
        /\ pool' = _TETrace[j].pool
        /\ last  = _TETrace[i].last
        /\ last' = _TETrace[j].last

\* Uncomment the ASSUME below to write the states of the error trace
\* to the given file in Json format. Note that you can pass any tuple
\* to `JsonSerialize`. For example, a sub-sequence of _TETrace.
    \* ASSUME
    \*     LET J == INSTANCE Json
    \*         IN J!JsonSerialize("Neg_Versioning_TTrace_1790401402.json", _TETrace)

=============================================================================

 Note that you can extract this module `Neg_Versioning_TEExpression`
  to a dedicated file to reuse `expression` (the module in the 
  dedicated `Neg_Versioning_TEExpression.tla` file takes precedence 
  over the module `Neg_Versioning_TEExpression` below).

---- MODULE Neg_Versioning_TEExpression ----
EXTENDS Sequences, TLCExt, Toolbox, Naturals, TLC, Neg_Versioning

expression == 
    [
        \* To hide variables of the `Neg_Versioning` spec from the error trace,
        \* remove the variables below.  The trace will be written in the order
        \* of the fields of this record.
        pool |-> pool
        ,last |-> last
        
        \* Put additional constant-, state-, and action-level expressions here:
        \* ,_stateNumber |-> _TEPosition
        \* ,_poolUnchanged |-> pool = pool'
        
        \* Format the `pool` variable as Json value.
        \* ,_poolJson |->
        \*     LET J == INSTANCE Json
        \*     IN J!ToJson(pool)
        
        \* Lastly, you may build expressions over arbitrary sets of states by
        \* leveraging the _TETrace operator.  For example, this is how to
        \* count the number of times a spec variable changed up to the current
        \* state in the trace.
        \* ,_poolModCount |->
        \*     LET F[s \in DOMAIN _TETrace] ==
        \*         IF s = 1 THEN 0
        \*         ELSE IF _TETrace[s].pool # _TETrace[s-1].pool
        \*             THEN 1 + F[s-1] ELSE F[s-1]
        \*     IN F[_TEPosition - 1]
    ]

=============================================================================



Parsing and semantic processing can take forever if the trace below is long.
 In this case, it is advised to uncomment the module below to deserialize the
 trace from a generated binary file.

\*
\*---- MODULE Neg_Versioning_TETrace ----
\*EXTENDS IOUtils, TLC, Neg_Versioning
\*
\*trace == IODeserialize("Neg_Versioning_TTrace_1790401402.bin", TRUE)
\*
\*=============================================================================
\*

---- MODULE Neg_Versioning_TETrace ----
EXTENDS TLC, Neg_Versioning

trace == 
    <<
    ([last |-> [src |-> 0, res |-> [ok |-> FALSE, err |-> "none"]],pool |-> {[obj |-> [v |-> "2.0", modified |-> 5000, kind |-> "obj", created |-> 5000, hasmod |-> TRUE, revoked |-> FALSE, props |-> [name |-> "a", description |-> "absent", aliases |-> "a"]], id |-> 1, parent |-> 0]}]),
    ([last |-> [op |-> [now |-> 5999, k |-> "new", ch |-> <<>>], src |-> 1, res |-> [ok |-> TRUE, obj |-> [v |-> "2.0", modified |-> 5000, kind |-> "obj", created |-> 5000, hasmod |-> TRUE, revoked |-> FALSE, props |-> [name |-> "a", description |-> "absent", aliases |-> "a"]]]],pool |-> {[obj |-> [v |-> "2.0", modified |-> 5000, kind |-> "obj", created |-> 5000, hasmod |-> TRUE, revoked |-> FALSE, props |-> [name |-> "a", description |-> "absent", aliases |-> "a"]], id |-> 1, parent |-> 0], [obj |-> [v |-> "2.0", modified |-> 5000, kind |-> "obj", created |-> 5000, hasmod |-> TRUE, revoked |-> FALSE, props |-> [name |-> "a", description |-> "absent", aliases |-> "a"]], id |-> 2, parent |-> 1]}])
    >>
----


=============================================================================

---- CONFIG Neg_Versioning_TTrace_1790401402 ----
CONSTANTS
    PropNames <- PN
    Required <- Req
    Locked <- Lck
    Roots <- MCRoots
    Deltas <- MCDeltas
    UserDeltas <- MCUserDeltas
    ChangeSets <- TimingChanges
    MaxVersions = 3

INVARIANT
    _inv

CHECK_DEADLOCK
    \* CHECK_DEADLOCK off because of PROPERTY or INVARIANT above.
    FALSE

INIT
    _init

NEXT
    _next

CONSTANT
    _TETrace <- _trace

ALIAS
    _expression
=============================================================================
\* Generated on Sat Sep 26 05:43:23 UTC 2026