---- MODULE Neg_VersionRouting_TTrace_1790403811 ----
EXTENDS Neg_VersionRouting, Sequences, TLCExt, Toolbox, Naturals, TLC

_expression ==
    LET Neg_VersionRouting_TEExpression == INSTANCE Neg_VersionRouting_TEExpression
    IN Neg_VersionRouting_TEExpression!expression
----

_trace ==
    LET Neg_VersionRouting_TETrace == INSTANCE Neg_VersionRouting_TETrace
    IN Neg_VersionRouting_TETrace!trace
----

_inv ==
    ~(
        TLCGet("level") = Len(_TETrace)
        /\
        call = ([idc |-> "uuid4", ac |-> FALSE, entry |-> "MemoryStore.add", form |-> "dict", arg |-> "2.1", shape |-> [t |-> "bundle", sv |-> "2.0", hasid |-> TRUE, inner |-> "2.0"]])
        /\
        outcome = ("v20")
    )
----

_init ==
    /\ outcome = _TETrace[1].outcome
    /\ call = _TETrace[1].call
----

_next ==
    /\ \E i,j \in DOMAIN _TETrace:
        /\ \/ /\ j = i + 1
              /\ i = TLCGet("level")
        /\ outcome  = _TETrace[i].outcome
        /\ outcome' = _TETrace[j].outcome
        /\ call  = _TETrace[i].call
        /\ call' = _TETrace[j].call

\* Uncomment the ASSUME below to write the states of the error trace
\* to the given file in Json format. Note that you can pass any tuple
\* to `JsonSerialize`. For example, a sub-sequence of _TETrace.
    \* ASSUME
    \*     LET J == INSTANCE Json
    \*         IN J!JsonSerialize("Neg_VersionRouting_TTrace_1790403811.json", _TETrace)

=============================================================================

 Note that you can extract this module `Neg_VersionRouting_TEExpression`
  to a dedicated file to reuse `expression` (the module in the 
  dedicated `Neg_VersionRouting_TEExpression.tla` file takes precedence 
  over the module `Neg_VersionRouting_TEExpression` below).

---- MODULE Neg_VersionRouting_TEExpression ----
EXTENDS Neg_VersionRouting, Sequences, TLCExt, Toolbox, Naturals, TLC

expression == 
    [
        \* To hide variables of the `Neg_VersionRouting` spec from the error trace,
        \* remove the variables below.  The trace will be written in the order
        \* of the fields of this record.
        outcome |-> outcome
        ,call |-> call
        
        \* Put additional constant-, state-, and action-level expressions here:
        \* ,_stateNumber |-> _TEPosition
        \* ,_outcomeUnchanged |-> outcome = outcome'
        
        \* Format the `outcome` variable as Json value.
        \* ,_outcomeJson |->
        \*     LET J == INSTANCE Json
        \*     IN J!ToJson(outcome)
        
        \* Lastly, you may build expressions over arbitrary sets of states by
        \* leveraging the _TETrace operator.  For example, this is how to
        \* count the number of times a spec variable changed up to the current
        \* state in the trace.
        \* ,_outcomeModCount |->
        \*     LET F[s \in DOMAIN _TETrace] ==
        \*         IF s = 1 THEN 0
        \*         ELSE IF _TETrace[s].outcome # _TETrace[s-1].outcome
        \*             THEN 1 + F[s-1] ELSE F[s-1]
        \*     IN F[_TEPosition - 1]
    ]

=============================================================================



Parsing and semantic processing can take forever if the trace below is long.
 In this case, it is advised to uncomment the module below to deserialize the
 trace from a generated binary file.

\*
\*---- MODULE Neg_VersionRouting_TETrace ----
\*EXTENDS Neg_VersionRouting, IOUtils, TLC
\*
\*trace == IODeserialize("Neg_VersionRouting_TTrace_1790403811.bin", TRUE)
\*
\*=============================================================================
\*

---- MODULE Neg_VersionRouting_TETrace ----
EXTENDS Neg_VersionRouting, TLC

trace == 
    <<
    ([call |-> [entry |-> "none"],outcome |-> "none"]),
    ([call |-> [idc |-> "uuid4", ac |-> FALSE, entry |-> "MemoryStore.add", form |-> "dict", arg |-> "2.1", shape |-> [t |-> "bundle", sv |-> "2.0", hasid |-> TRUE, inner |-> "2.0"]],outcome |-> "v20"])
    >>
----


=============================================================================

---- CONFIG Neg_VersionRouting_TTrace_1790403811 ----
CONSTANTS
    Entries <- MCEntries
    Forms <- MCForms
    Shapes <- MCShapes

INVARIANT
    _inv

CHECK_DEADLOCK
    \* CHECK_DEADLOCK off because of PROPERTY or INVARIANT above.
    FALSE

INIT
    _init

NEXT
    _next

CONSTANT
    _TETrace <- _trace

ALIAS
    _expression
=============================================================================
\* Generated on Sat Sep 26 06:23:32 UTC 2026