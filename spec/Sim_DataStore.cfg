SPECIFICATION GenSpec
CONSTANTS
  Universe <- MCUniverse
  Forms <- MCForms
  FilterAlphabet <- MCFilters
  Depth = 9
CONSTRAINT GenBound
INVARIANT Emit
CHECK_DEADLOCK FALSE
