------------------------------ MODULE SpecValid ------------------------------
(***************************************************************************)
(* C02 / C03 -- validity of a serialized STIX object against the frozen     *)
(* specification model (spec/frozen/model2x.json, loaded as Model).         *)
(*                                                                         *)
(* A document is [key, props] with key naming a row of Model.types          *)
(* ("objects:indicator", "observables:file", "extensions:ntfs-ext",         *)
(* "embedded:ExternalReference") and props a sequence of [name, node].      *)
(* Leaves are lexed by the harness into facts (it never decides validity):  *)
(*   [k |-> "str", s, long, ts |-> [ok, nfrac], id |-> [ok, type, uuid], hex, b64] *)
(*   [k |-> "int", v]  [k |-> "big"]  [k |-> "float", finite, integral, v]     *)
(*   [k |-> "bool", v]  [k |-> "null"]  [k |-> "list", items]  [k |-> "obj", props] *)
(***************************************************************************)
EXTENDS Integers, Sequences, FiniteSets, TLC, Json, IOUtils

Sel == INSTANCE Selectors
Model == JsonDeserialize(IOEnv.MODEL_FILE)
Version == Model.spec_version
Types == Model.types
ToSet(q) == { q[i] : i \in DOMAIN q }
Names(props) == { props[i].name : i \in DOMAIN props }
Get(props, n) == props[CHOOSE i \in DOMAIN props : props[i].name = n].node
Has(props, n) == n \in Names(props)
Desc(key, n) == LET ps == Types[key].properties IN ps[CHOOSE i \in DOMAIN ps : ps[i].name = n]
Known(key, n) == \E i \in DOMAIN Types[key].properties : Types[key].properties[i].name = n

\* categories of referenced types
IsObjectType(t) == ("objects:" \o t) \in DOMAIN Types
IsObservableType(t) == ("observables:" \o t) \in DOMAIN Types
NonDomain == {"bundle", "marking-definition", "language-content", "extension-definition"}
Generic(t) == IF IsObservableType(t) /\ ~IsObjectType(t) THEN "SCO"
              ELSE IF t \in ToSet(Model.sro) THEN "SRO"
              ELSE IF IsObjectType(t) /\ t \notin NonDomain THEN "SDO" ELSE "other"
Registered(t) == IsObjectType(t) \/ IsObservableType(t)

UuidOK(u) == IF Version = "2.0" THEN u = "v4" ELSE u \in {"v1", "v2", "v3", "v4", "v5", "vother"}
RefTypeOK(d, t) == IF d.auth = "whitelist" THEN t \in ToSet(d.specifics) \/ Generic(t) \in ToSet(d.generics)
                   ELSE t \notin ToSet(d.specifics) /\ Generic(t) \notin ToSet(d.generics)
FracOK(d, n) == IF d.precision = "any" THEN TRUE
                ELSE LET need == IF d.precision = "millisecond" THEN 3 ELSE 0 IN IF d.constraint = "exact" THEN n = need ELSE n >= need

\* the set of rules a node breaks for its property description (empty = fine); lenient descriptions break nothing but nulls
RECURSIVE NodeFaults(_, _), ObjFaults(_, _), ItemsFaults(_, _, _), MembersFaults(_, _)
NodeFaults(d, x) ==
  IF x.k = "null" THEN {"null"}
  ELSE IF "lenient" \in DOMAIN d /\ d.lenient THEN {}
  ELSE IF "fixed" \in DOMAIN d THEN (IF (x.k = "str" /\ x.s = d.fixed) \/ (x.k = "bool") \/ (x.k = "int") THEN {} ELSE {"fixed_value"})
  ELSE IF d.kind \in {"string", "pattern", "selector", "objectreference"} THEN (IF x.k = "str" THEN {} ELSE {"not_a_string"})
  ELSE IF d.kind = "type" THEN (IF x.k = "str" THEN {} ELSE {"not_a_string"})
  ELSE IF d.kind = "id" THEN (IF x.k # "str" THEN {"not_a_string"} ELSE IF ~x.id.ok THEN {"malformed_identifier"} ELSE IF ~UuidOK(x.id.uuid) THEN {"uuid_not_allowed_in_version"} ELSE {})
  ELSE IF d.kind = "reference" THEN
       (IF x.k # "str" THEN {"not_a_string"} ELSE IF ~x.id.ok THEN {"malformed_identifier"} ELSE IF ~UuidOK(x.id.uuid) THEN {"uuid_not_allowed_in_version"}
        ELSE IF ~Registered(x.id.type) THEN {"reference_to_unregistered_type"} ELSE IF ~RefTypeOK(d, x.id.type) THEN {"reference_to_disallowed_type"} ELSE {})
  ELSE IF d.kind = "timestamp" THEN (IF x.k # "str" THEN {"not_a_string"} ELSE IF ~x.ts.ok THEN {"malformed_timestamp"} ELSE IF ~FracOK(d, x.ts.nfrac) THEN {"timestamp_precision"} ELSE {})
  ELSE IF d.kind = "integer" THEN
       (IF x.k = "big" THEN (IF "max" \in DOMAIN d THEN {"above_max"} ELSE {})
        ELSE IF x.k # "int" THEN {"not_an_integer"}
        ELSE (IF "min" \in DOMAIN d /\ x.v < d.min THEN {"below_min"} ELSE {}) \cup (IF "max" \in DOMAIN d /\ x.v > d.max THEN {"above_max"} ELSE {}))
  ELSE IF d.kind = "float" THEN
       (IF x.k \in {"int", "big"} THEN {}
        ELSE IF x.k # "float" THEN {"not_a_number"} ELSE IF ~x.finite THEN {"non_finite_number"}
        ELSE (IF "min" \in DOMAIN d /\ x.v < d.min THEN {"below_min"} ELSE {}) \cup (IF "max" \in DOMAIN d /\ x.v > d.max THEN {"above_max"} ELSE {}))
  ELSE IF d.kind = "boolean" THEN (IF x.k = "bool" THEN {} ELSE {"not_a_boolean"})
  ELSE IF d.kind = "enum" THEN (IF x.k = "str" /\ x.s \in ToSet(d.allowed) THEN {} ELSE {"not_in_enumeration"})
  ELSE IF d.kind = "openvocab" THEN (IF x.k = "str" THEN {} ELSE {"not_a_string"})
  ELSE IF d.kind = "hex" THEN (IF x.k = "str" /\ x.hex THEN {} ELSE {"not_hex"})
  ELSE IF d.kind = "binary" THEN (IF x.k = "str" /\ x.b64 THEN {} ELSE {"not_base64"})
  ELSE IF d.kind = "list" THEN (IF x.k # "list" THEN {"not_a_list"} ELSE IF x.items = <<>> THEN {"empty_list"} ELSE ItemsFaults(d.contained, x.items, 1))
  ELSE IF d.kind \in {"embedded", "embeddedobject"} THEN (IF x.k # "obj" THEN {"not_an_object"} ELSE ObjFaults("embedded:" \o d.cls, x.props))
  ELSE IF d.kind = "hashes" THEN
       (IF x.k # "obj" THEN {"not_an_object"} ELSE IF x.props = <<>> THEN {"empty_dictionary"}
        ELSE IF \E i \in DOMAIN x.props : x.props[i].name \notin ToSet(d.spec_hash_names) THEN {"hash_algorithm_not_in_specification"}
        ELSE IF \E i \in DOMAIN x.props : x.props[i].node.k # "str" THEN {"hash_value_not_a_string"} ELSE {})
  ELSE IF d.kind = "dictionary" THEN (IF x.k # "obj" THEN {"not_an_object"} ELSE IF x.props = <<>> THEN {"empty_dictionary"}
                                      ELSE IF \E i \in DOMAIN x.props : x.props[i].node.k = "null" THEN {"null"} ELSE {})
  ELSE IF d.kind = "extensions" THEN
       (IF x.k # "obj" THEN {"not_an_object"} ELSE IF x.props = <<>> THEN {"empty_dictionary"}
        ELSE UNION { LET e == x.props[i] IN
                     IF ("extensions:" \o e.name) \notin DOMAIN Types THEN {"unregistered_extension"}
                     ELSE IF e.node.k # "obj" THEN {"not_an_object"} ELSE ObjFaults("extensions:" \o e.name, e.node.props) : i \in DOMAIN x.props })
  ELSE IF d.kind = "observable" THEN MembersFaults(d, x)
  ELSE IF d.kind = "stixobject" THEN MembersFaults(d, [k |-> "list", items |-> <<x>>])      \* one member of a bundle's "objects" list
  ELSE {}          \* marking definitions' content and other kinds: no obligation
ItemsFaults(d, items, i) == IF i > Len(items) THEN {} ELSE NodeFaults(d, items[i]) \cup ItemsFaults(d, items, i + 1)
\* containers of whole objects: the 2.0 observed-data "objects" dictionary, bundle members
MembersFaults(d, x) ==
  LET members == IF x.k = "obj" THEN [i \in DOMAIN x.props |-> x.props[i].node] ELSE IF x.k = "list" THEN x.items ELSE <<>> IN
  IF x.k \notin {"obj", "list"} THEN {"not_a_container"} ELSE IF members = <<>> THEN {"empty_container"}
  ELSE UNION { LET m == members[i] IN
               IF m.k # "obj" \/ ~Has(m.props, "type") \/ Get(m.props, "type").k # "str" THEN {"member_without_type"}
               ELSE LET t == Get(m.props, "type").s
                        key == IF d.kind = "observable" \/ (("observables:" \o t) \in DOMAIN Types /\ ("objects:" \o t) \notin DOMAIN Types) THEN "observables:" \o t ELSE "objects:" \o t
                    IN IF key \notin DOMAIN Types THEN {"member_of_unregistered_type"} ELSE ObjFaults(key, m.props) : i \in DOMAIN members }

TsLeq(a, b) == a.ts.ok /\ b.ts.ok /\ a.ts.key <= b.ts.key        \* the lexer supplies an order-preserving key for well-formed timestamps
ConstraintFaults(key, props) ==
  UNION { LET c == Types[key].constraints[i] IN
          IF c.k = "le" THEN (IF Has(props, c.a) /\ Has(props, c.b) /\ Get(props, c.a).k = "str" /\ Get(props, c.b).k = "str" /\ Get(props, c.a).ts.ok /\ Get(props, c.b).ts.ok
                                 /\ ~(Get(props, c.a).ts.key <= Get(props, c.b).ts.key) THEN {c.b \o ":earlier_than_" \o c.a} ELSE {})
          ELSE IF c.k = "lt" THEN (IF Has(props, c.a) /\ Has(props, c.b) /\ Get(props, c.a).k = "str" /\ Get(props, c.b).k = "str" /\ Get(props, c.a).ts.ok /\ Get(props, c.b).ts.ok
                                 /\ ~(Get(props, c.a).ts.key < Get(props, c.b).ts.key) THEN {c.b \o ":not_later_than_" \o c.a} ELSE {})
          ELSE IF c.k = "mutex" THEN (IF Cardinality(ToSet(c.of) \cap Names(props)) > 1 THEN {"mutually_exclusive:" \o c.of[1]} ELSE {})
          ELSE IF c.k = "at_least_one" THEN (IF ToSet(c.of) \cap Names(props) = {} THEN {"at_least_one_of:" \o c.of[1]} ELSE {})
          ELSE IF c.k = "requires" THEN (IF Has(props, c.a) /\ ~Has(props, c.b) THEN {c.a \o ":requires:" \o c.b} ELSE {})
          ELSE IF c.k = "iff_present" THEN (IF Has(props, c.a) # Has(props, c.b) THEN {c.a \o ":only_together_with:" \o c.b} ELSE {})
          ELSE IF c.k = "if_true_forbids" THEN (IF Has(props, c.a) /\ Get(props, c.a).k = "bool" /\ Get(props, c.a).v /\ Has(props, c.b) THEN {c.a \o ":true_forbids:" \o c.b} ELSE {})
          ELSE IF c.k = "if_false_forbids" THEN (IF Has(props, c.a) /\ Get(props, c.a).k = "bool" /\ ~Get(props, c.a).v /\ Has(props, c.b) THEN {c.a \o ":false_forbids:" \o c.b} ELSE {})
          ELSE IF c.k = "any_property" THEN (IF Names(props) \ ToSet(c.except) = {} THEN {"at_least_one_property"} ELSE {})
          ELSE IF c.k = "definition_by_type" THEN
               (IF Has(props, "definition_type") /\ Has(props, "definition") /\ Get(props, "definition_type").k = "str"
                   /\ ("markings:" \o Get(props, "definition_type").s) \in DOMAIN Types
                THEN (IF Get(props, "definition").k # "obj" THEN {"definition:not_an_object"}
                      ELSE { "definition:" \o f : f \in ObjFaults("markings:" \o Get(props, "definition_type").s, Get(props, "definition").props) })
                ELSE {})
          ELSE IF c.k = "if_true" THEN (IF Has(props, c.a) /\ Get(props, c.a).k = "bool" /\ Get(props, c.a).v /\ ~Has(props, c.b) THEN {c.a \o ":true_requires:" \o c.b} ELSE {})
          ELSE {} : i \in DOMAIN Types[key].constraints }

\* granular markings: every selector must address something in the object (Selectors.tla), whatever value is stored there
RECURSIVE ToTree(_)
ToTree(x) == IF x.k = "obj" THEN [k |-> "obj", keys |-> [i \in DOMAIN x.props |-> x.props[i].name], vals |-> [i \in DOMAIN x.props |-> ToTree(x.props[i].node)]]
             ELSE IF x.k = "list" THEN [k |-> "list", items |-> [i \in DOMAIN x.items |-> ToTree(x.items[i])]]
             ELSE [k |-> "leaf", v |-> "x"]
SelectorFaults(props) ==
  IF ~Has(props, "granular_markings") \/ Get(props, "granular_markings").k # "list" THEN {}
  ELSE LET tree == ToTree([k |-> "obj", props |-> props])
           gms == Get(props, "granular_markings").items IN
       UNION { IF gms[i].k # "obj" \/ ~Has(gms[i].props, "selectors") \/ Get(gms[i].props, "selectors").k # "list" THEN {}
               ELSE LET sels == Get(gms[i].props, "selectors").items IN
                    UNION { IF sels[j].k # "str" THEN {} ELSE IF sels[j].sel = <<>> THEN {"granular_markings:malformed_selector"}
                            ELSE IF ~Sel!Addresses(tree, sels[j].sel) THEN {"granular_markings:selector_addresses_nothing"} ELSE {} : j \in DOMAIN sels }
               : i \in DOMAIN gms }

ObjFaults(key, props) ==
  LET ps == Types[key].properties IN
     { ps[i].name \o ":missing_required" : i \in { j \in DOMAIN ps : ps[j].jsonreq /\ ~Has(props, ps[j].name) } }
  \cup { props[i].name \o ":unknown_property" : i \in { j \in DOMAIN props : ~Known(key, props[j].name) } }
  \cup UNION { { props[i].name \o ":" \o f : f \in NodeFaults(Desc(key, props[i].name), props[i].node) } : i \in { j \in DOMAIN props : Known(key, props[j].name) } }
  \cup ConstraintFaults(key, props)
  \cup SelectorFaults(props)
  \cup (IF \E i, j \in DOMAIN props : i # j /\ props[i].name = props[j].name THEN {"duplicate_member"} ELSE {})

Faults(doc) == IF doc.key \notin DOMAIN Types THEN {"unknown_type"} ELSE ObjFaults(doc.key, doc.props)
Valid(doc) == Faults(doc) = {}
=============================================================================
