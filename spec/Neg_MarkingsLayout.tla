---- MODULE Neg_MarkingsLayout ----
\* negative configuration: removing only the first matching expanded entry is NOT independent of the layout (an overlapping layout keeps a copy): the ASSUME must fail
EXTENDS MarkingsLayout
ASSUME BadLayoutIndependence
VARIABLE x
Init == x = 0
Next == UNCHANGED x
====
