SPECIFICATION GenSpec
CONSTANTS
  MaxCells = 12
  Tokens = {"a", "b"}
  Depth = 9
CONSTRAINT GenBound
INVARIANT Emit
CHECK_DEADLOCK FALSE
