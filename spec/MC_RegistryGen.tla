---- MODULE MC_RegistryGen ----
\* Behaviour generation for spec -> code replay: the history of operations with the registry after each one.
EXTENDS MC_Registry
VARIABLE hist
GenInit == Init /\ hist = <<>>
GenNext == Next /\ hist' = Append(hist, [step |-> last', reg |-> reg'])
GenSpec == GenInit /\ [][GenNext]_<<vars, hist>>
CONSTANT Depth
GenBound == Len(hist) <= Depth
Emit == Len(hist) = Depth => PrintT(<<"BEH", ToJson(hist)>>)
GenView == hist
====
