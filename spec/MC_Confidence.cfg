SPECIFICATION Spec
CONSTANTS
  MinArg <- MinArgV
  MaxArg = 150
  JunkLabels <- Junk
INVARIANT TypeOK
INVARIANT CallInv
CHECK_DEADLOCK FALSE
