---- MODULE Neg_Stix2System ----
\* negative configuration: a versioning step that does not re-validate the selectors of the markings it keeps (new_version(description=None) on an
\* object whose description is marked).  TLC must find the counterexample to NoDangling.
EXTENDS MC_Stix2System
NegVersioned(o, ch, now) ==
  IF o.revoked THEN Err("RevokeError") ELSE Ok(ch @@ [o EXCEPT !.modified = Fudge(V(o), o.modified, now)])
====
