---- MODULE MC_DetId ----
EXTENDS DetId, Json, IOUtils
S(u) == [k |-> "str", u |-> u]
N(ds, n) == [k |-> "num", neg |-> FALSE, digits |-> ds, n |-> n]
Ob(ks, vs) == [k |-> "obj", keys |-> ks, vals |-> vs]
kName == <<110, 97, 109, 101>>  kHashes == <<104, 97, 115, 104, 101, 115>>  kSize == <<115, 105, 122, 101>>  kExt == <<101, 120, 116, 101, 110, 115, 105, 111, 110, 115>>
kMD5 == <<77, 68, 53>>  kSHA1 == <<83, 72, 65, 45, 49>>  kSHA256 == <<83, 72, 65, 45, 50, 53, 54>>  kSHA3 == <<83, 72, 65, 51, 45, 50, 53, 54>>
FileNames == [name |-> kName, hashes |-> kHashes, extensions |-> kExt]
File(ks, vs) == [type |-> "file", names |-> FileNames, props |-> Ob(ks, vs)]
H2 == Ob(<<kSHA256, kMD5>>, <<S(<<97>>), S(<<98>>)>>)        H2p == Ob(<<kMD5, kSHA256>>, <<S(<<98>>), S(<<97>>)>>)
H3 == Ob(<<kSHA3, kSHA1>>, <<S(<<99>>), S(<<100>>)>>)         H3p == Ob(<<kSHA1, kSHA3>>, <<S(<<100>>), S(<<99>>)>>)
Honly == Ob(<<kSHA3>>, <<S(<<99>>)>>)
Ext == Ob(<<<<120, 45, 101>>>>, <<Ob(<<<<98>>, <<97>>>>, <<N(<<1, 5>>, 1), S(<<34, 10>>)>>)>>)
Extp == Ob(<<<<120, 45, 101>>>>, <<Ob(<<<<97>>, <<98>>>>, <<S(<<34, 10>>), N(<<1, 5>>, 1)>>)>>)
O1 == File(<<kName, kHashes, kSize>>, <<S(<<102, 34>>), H2, N(<<1>>, 1)>>)
O2 == File(<<kHashes, kExt>>, <<H3, Ext>>)
O3 == File(<<kSize>>, <<N(<<1>>, 1)>>)                 \* nothing contributes
O4 == File(<<kName>>, <<S(<<>>)>>)                     \* an empty string still contributes
MCObjects == {O1, O2, O3, O4}
MCPerms == (O1 :> {File(<<kSize, kHashes, kName>>, <<N(<<1>>, 1), H2p, S(<<102, 34>>)>>)}) @@ (O2 :> {File(<<kExt, kHashes>>, <<Extp, H3p>>)})
           @@ (O3 :> {O3}) @@ (O4 :> {O4})
MCNon == (O1 :> {File(<<kName, kHashes>>, <<S(<<102, 34>>), H2>>), File(<<kName, kHashes, kSize>>, <<S(<<102, 34>>), H2, N(<<2>>, 1)>>),
                  File(<<kName, kHashes, kSize>>, <<S(<<102, 34>>), Ob(<<kMD5>>, <<S(<<98>>)>>), N(<<1>>, 1)>>)})     \* dropping a non-chosen hash changes nothing
         @@ (O2 :> {File(<<kHashes, kExt, kSize>>, <<H3, Ext, N(<<7>>, 1)>>)}) @@ (O3 :> {File(<<kSize>>, <<N(<<2>>, 1)>>)}) @@ (O4 :> {File(<<kName, kSize>>, <<S(<<>>), N(<<1>>, 1)>>)})
MCCon == (O1 :> {File(<<kName, kHashes, kSize>>, <<S(<<102>>), H2, N(<<1>>, 1)>>), File(<<kName, kHashes, kSize>>, <<S(<<102, 34>>), Ob(<<kSHA256, kMD5>>, <<S(<<97>>), S(<<99>>)>>), N(<<1>>, 1)>>)})
         @@ (O2 :> {File(<<kHashes, kExt>>, <<Honly, Ob(<<<<120, 45, 101>>>>, <<Ob(<<<<98>>, <<97>>>>, <<N(<<1, 6>>, 1), S(<<34, 10>>)>>)>>)>>), File(<<kHashes, kExt>>, <<Ob(<<kSHA1>>, <<S(<<101>>)>>), Ext>>)})
         @@ (O3 :> {}) @@ (O4 :> {File(<<kName>>, <<S(<<32>>)>>)})
\* ---- evaluation of harness-supplied cases: contributing view, identifier kind, preimage
Cases == IF "CASES_FILE" \in DOMAIN IOEnv THEN ndJsonDeserialize(IOEnv.CASES_FILE) ELSE <<>>
ASSUME IF "OUT_FILE" \in DOMAIN IOEnv
       THEN JsonSerialize(IOEnv.OUT_FILE, [i \in DOMAIN Cases |-> [kind |-> IdKind(Cases[i]), pre |-> Preimage(Cases[i])]])
       ELSE TRUE
====
