SPECIFICATION TraceSpec
CONSTANTS
  PropNames = {"req1", "req2", "req3", "opt1", "opt2", "opt3", "opt4", "opt5", "opt6", "rest"}
  Required = {"req1", "req2", "req3"}
  Locked = {}
  Roots = {}
  Deltas = {}
  ChangeSets = {}
  UserDeltas = {}
  MaxVersions = 0
INVARIANT Done
CHECK_DEADLOCK FALSE
