---- MODULE MC_DataStore ----
EXTENDS DataStore
Obj(id, type, ver, name) == [id |-> id, type |-> type, ver |-> ver, name |-> name, num |-> Absent, labels |-> <<>>, refs |-> <<>>,
                             src |-> 0, tgt |-> 0, rtype |-> 0, creator |-> 0]
\* two versioned ids (three versions of the first), an unversioned observable, a second payload for one (id, ver)
\* ids are type * 10 + k; types: 1 attack-pattern, 2 campaign (2.1), 3 file (2.1 observable, no versions), 4 identity, 5 indicator (2.0),
\* 6 malware, 7 relationship, 8 threat-actor, 9 an unregistered custom type (kept as a dictionary by the stores).
\* versions: v = 10 a + b + 1 stands for base + a half-seconds + b * 100 microseconds (so 1, 2 differ below the millisecond, 1, 11 by half a second)
MCUniverse == { Obj(21, 2, 1, 1), Obj(21, 2, 2, 2), Obj(21, 2, 11, 1), [Obj(51, 5, 1, 1) EXCEPT !.labels = <<1>>], Obj(31, 3, 0, 1), Obj(91, 9, 1, 2), Obj(91, 9, 11, 1) }
MCForms == {"object", "list"}
F(p, op, v) == [prop |-> p, op |-> op, val |-> v]
MCFilters == { F("type", "=", 2), F("type", "!=", 2), F("type", "in", {2, 3}), F("id", "=", 21), F("modified", ">", 1), F("modified", "<=", 2), F("type", ">=", 5),
               F("name", "=", 1), F("name", "!=", 1), F("nosuch", "=", 1), F("id", "in", {}) }
ASSUME Shrinks(MCUniverse, MCFilters)
ASSUME Conjunction(MCUniverse, MCFilters)
Bound == Len(added) <= 4
DSView == <<mem, fs>>
====
