---- MODULE MC_DataStore ----
EXTENDS DataStore
Obj(id, type, ver, name) == [id |-> id, type |-> type, ver |-> ver, name |-> name, num |-> Absent, labels |-> <<>>, refs |-> <<>>,
                             src |-> 0, tgt |-> 0, rtype |-> 0, creator |-> 0]
\* two versioned ids (three versions of the first), an unversioned observable, a second payload for one (id, ver)
MCUniverse == { Obj(1, 1, 1, 1), Obj(1, 1, 2, 2), Obj(1, 1, 3, 1), Obj(2, 2, 1, 1), Obj(3, 3, 0, 1) }
MCForms == {"object", "list"}
F(p, op, v) == [prop |-> p, op |-> op, val |-> v]
MCFilters == { F("type", "=", 1), F("type", "!=", 1), F("type", "in", {1, 3}), F("id", "=", 1), F("modified", ">", 1), F("modified", "<=", 2),
               F("name", "=", 1), F("name", "!=", 1), F("nosuch", "=", 1), F("id", "in", {}) }
ASSUME Shrinks(MCUniverse, MCFilters)
ASSUME Conjunction(MCUniverse, MCFilters)
Bound == Len(added) <= 4
DSView == <<mem, fs>>
====
