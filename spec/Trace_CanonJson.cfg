SPECIFICATION TraceSpec
CONSTANTS
  Values = {}
INVARIANT Done
CHECK_DEADLOCK FALSE
