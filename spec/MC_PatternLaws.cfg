SPECIFICATION Spec
CONSTANTS
  Vals = {1, 2}
  Times = {0, 1}
  MaxLen = 3
INVARIANT LawsSound
CHECK_DEADLOCK FALSE
