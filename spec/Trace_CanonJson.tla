---- MODULE Trace_CanonJson ----
(* Trace validation for C16.  Lines:
     [t |-> "value", v (tagged value, members in insertion order), ok, exc, out (code units), perm_ok, utf8_ok]
     [t |-> "number", neg, digits, n (derived from the implementation's own output), out, ok,
                      rt_ok, shortest_ok, closest_ok (exact rational checks done by the harness)]
   RFC 8785 determines the output completely, so the clause is equality with Canon. *)
EXTENDS CanonJson, Json, IOUtils, TLCExt
TraceLog == ndJsonDeserialize(IOEnv.TRACE_FILE)
VARIABLE l
tvars == <<vars, l>>
Rej(e, c) == PrintT(<<"REJECT", l, e.t, c>>)
CheckValue(e) ==
  LET exp == Canon(e.v) IN
  IF exp = Refusal THEN (IF e.ok THEN Rej(e, "nonfinite_not_refused") ELSE TRUE)
  ELSE IF ~e.ok THEN Rej(e, "finite_value_refused")
  ELSE /\ IF e.out # exp THEN Rej(e, "text_differs_from_rfc8785") ELSE TRUE
       /\ IF ~e.perm_ok THEN Rej(e, "depends_on_insertion_order") ELSE TRUE
       /\ IF ~e.utf8_ok THEN Rej(e, "utf8_form_differs") ELSE TRUE
CheckNumber(e) ==
  IF ~e.ok THEN Rej(e, "finite_value_refused")
  ELSE /\ IF e.out # Es6(e.neg, e.digits, e.n) THEN Rej(e, "number_layout") ELSE TRUE
       /\ IF ~e.rt_ok THEN Rej(e, "number_not_round_trip") ELSE TRUE
       /\ IF ~e.shortest_ok THEN Rej(e, "number_not_shortest") ELSE TRUE
       /\ IF ~e.closest_ok THEN Rej(e, "number_not_closest") ELSE TRUE
TraceInit == l = 1 /\ phase = "in" /\ val = [k |-> "null"] /\ text = <<>> /\ back = [k |-> "null"] /\ text2 = <<>>
TraceNext ==
  /\ l <= Len(TraceLog)
  /\ LET e == TraceLog[l] IN
     /\ IF e.t = "value" THEN CheckValue(e) ELSE CheckNumber(e)
     /\ phase' = "text" /\ text' = e.out /\ UNCHANGED <<val, back, text2>>
  /\ l' = l + 1
TraceSpec == TraceInit /\ [][TraceNext]_tvars
Done == l = Len(TraceLog) + 1 => PrintT(<<"DONE", Len(TraceLog)>>)
====
