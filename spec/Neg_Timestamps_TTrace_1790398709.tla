---- MODULE Neg_Timestamps_TTrace_1790398709 ----
EXTENDS Sequences, TLCExt, Neg_Timestamps, Toolbox, Naturals, TLC

_expression ==
    LET Neg_Timestamps_TEExpression == INSTANCE Neg_Timestamps_TEExpression
    IN Neg_Timestamps_TEExpression!expression
----

_trace ==
    LET Neg_Timestamps_TETrace == INSTANCE Neg_Timestamps_TETrace
    IN Neg_Timestamps_TETrace!trace
----

_inv ==
    ~(
        TLCGet("level") = Len(_TETrace)
        /\
        phase = ("text")
        /\
        pc = (<<"millisecond", "exact">>)
        /\
        text2 = (<<>>)
        /\
        back = ([ok |-> FALSE])
        /\
        inp = ([us |-> 1500, y |-> 2017, mo |-> 1, d |-> 1, h |-> 0, mi |-> 0, s |-> 0, off |-> 0])
        /\
        text = (<<50, 48, 49, 55, 45, 48, 49, 45, 48, 49, 84, 48, 48, 58, 48, 48, 58, 48, 48, 46, 48, 48, 50, 90>>)
    )
----

_init ==
    /\ phase = _TETrace[1].phase
    /\ text = _TETrace[1].text
    /\ pc = _TETrace[1].pc
    /\ text2 = _TETrace[1].text2
    /\ back = _TETrace[1].back
    /\ inp = _TETrace[1].inp
----

_next ==
    /\ \E i,j \in DOMAIN _TETrace:
        /\ \/ /\ j = i + 1
              /\ i = TLCGet("level")
        /\ phase  = _TETrace[i].phase
        /\ phase' = _TETrace[j].phase
        /\ text  = _TETrace[i].text
        /\ text' = _TETrace[j].text
        /\ pc  = _TETrace[i].pc
        /\ pc' = _TETrace[j].pc
        /\ text2  = _TETrace[i].text2
        /\ text2' = _TETrace[j].text2
        /\ back  = _TETrace[i].back
        /\ back' = _TETrace[j].back
        /\ inp  = _TETrace[i].inp
        /\ inp' = _TETrace[j].inp

\* Uncomment the ASSUME below to write the states of the error trace
\* to the given file in Json format. Note that you can pass any tuple
\* to `JsonSerialize`. For example, a sub-sequence of _TETrace.
    \* ASSUME
    \*     LET J == INSTANCE Json
    \*         IN J!JsonSerialize("Neg_Timestamps_TTrace_1790398709.json", _TETrace)

=============================================================================

 Note that you can extract this module `Neg_Timestamps_TEExpression`
  to a dedicated file to reuse `expression` (the module in the 
  dedicated `Neg_Timestamps_TEExpression.tla` file takes precedence 
  over the module `Neg_Timestamps_TEExpression` below).

---- MODULE Neg_Timestamps_TEExpression ----
EXTENDS Sequences, TLCExt, Neg_Timestamps, Toolbox, Naturals, TLC

expression == 
    [
        \* To hide variables of the `Neg_Timestamps` spec from the error trace,
        \* remove the variables below.  The trace will be written in the order
        \* of the fields of this record.
        phase |-> phase
        ,text |-> text
        ,pc |-> pc
        ,text2 |-> text2
        ,back |-> back
        ,inp |-> inp
        
        \* Put additional constant-, state-, and action-level expressions here:
        \* ,_stateNumber |-> _TEPosition
        \* ,_phaseUnchanged |-> phase = phase'
        
        \* Format the `phase` variable as Json value.
        \* ,_phaseJson |->
        \*     LET J == INSTANCE Json
        \*     IN J!ToJson(phase)
        
        \* Lastly, you may build expressions over arbitrary sets of states by
        \* leveraging the _TETrace operator.  For example, this is how to
        \* count the number of times a spec variable changed up to the current
        \* state in the trace.
        \* ,_phaseModCount |->
        \*     LET F[s \in DOMAIN _TETrace] ==
        \*         IF s = 1 THEN 0
        \*         ELSE IF _TETrace[s].phase # _TETrace[s-1].phase
        \*             THEN 1 + F[s-1] ELSE F[s-1]
        \*     IN F[_TEPosition - 1]
    ]

=============================================================================



Parsing and semantic processing can take forever if the trace below is long.
 In this case, it is advised to uncomment the module below to deserialize the
 trace from a generated binary file.

\*
\*---- MODULE Neg_Timestamps_TETrace ----
\*EXTENDS IOUtils, Neg_Timestamps, TLC
\*
\*trace == IODeserialize("Neg_Timestamps_TTrace_1790398709.bin", TRUE)
\*
\*=============================================================================
\*

---- MODULE Neg_Timestamps_TETrace ----
EXTENDS Neg_Timestamps, TLC

trace == 
    <<
    ([phase |-> "in",pc |-> <<"millisecond", "exact">>,text2 |-> <<>>,back |-> [ok |-> FALSE],inp |-> [us |-> 1500, y |-> 2017, mo |-> 1, d |-> 1, h |-> 0, mi |-> 0, s |-> 0, off |-> 0],text |-> <<>>]),
    ([phase |-> "text",pc |-> <<"millisecond", "exact">>,text2 |-> <<>>,back |-> [ok |-> FALSE],inp |-> [us |-> 1500, y |-> 2017, mo |-> 1, d |-> 1, h |-> 0, mi |-> 0, s |-> 0, off |-> 0],text |-> <<50, 48, 49, 55, 45, 48, 49, 45, 48, 49, 84, 48, 48, 58, 48, 48, 58, 48, 48, 46, 48, 48, 50, 90>>])
    >>
----


=============================================================================

---- CONFIG Neg_Timestamps_TTrace_1790398709 ----
CONSTANTS
    Inputs <- NegInputs
    PCs <- NegPCs

INVARIANT
    _inv

CHECK_DEADLOCK
    \* CHECK_DEADLOCK off because of PROPERTY or INVARIANT above.
    FALSE

INIT
    _init

NEXT
    _next

CONSTANT
    _TETrace <- _trace

ALIAS
    _expression
=============================================================================
\* Generated on Sat Sep 26 04:58:30 UTC 2026