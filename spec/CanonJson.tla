------------------------------ MODULE CanonJson ------------------------------
(***************************************************************************)
(* C16 -- RFC 8785 JSON Canonicalization Scheme                             *)
(* (stix2/canonicalization/Canonicalize.py, NumberToJson.py).               *)
(*                                                                         *)
(* Values are tagged records; text is a sequence of UTF-16 code units.      *)
(*   [k |-> "null"]  [k |-> "bool", v]  [k |-> "str", u |-> <<units>>]       *)
(*   [k |-> "zero"]  [k |-> "nan"]  [k |-> "inf"]                            *)
(*   [k |-> "num", neg, digits, n]: the finite non-zero double whose         *)
(*      shortest round-trip decimal is 0.d1d2...dk x 10^n (ECMAScript's k,n) *)
(*   [k |-> "list", items]  [k |-> "obj", keys, vals] (insertion order)      *)
(***************************************************************************)
EXTENDS Integers, Sequences, SequencesExt, FiniteSets, TLC

RECURSIVE LexLess(_, _)
LexLess(a, b) == IF b = <<>> THEN FALSE ELSE IF a = <<>> THEN TRUE
                 ELSE IF a[1] < b[1] THEN TRUE ELSE IF a[1] > b[1] THEN FALSE ELSE LexLess(Tail(a), Tail(b))

Q == 34  BS == 92
Hex(n) == IF n < 10 THEN 48 + n ELSE 87 + n
EscUnit(c) == IF c = Q THEN <<BS, Q>> ELSE IF c = BS THEN <<BS, BS>>
              ELSE IF c = 8 THEN <<BS, 98>> ELSE IF c = 12 THEN <<BS, 102>> ELSE IF c = 10 THEN <<BS, 110>>
              ELSE IF c = 13 THEN <<BS, 114>> ELSE IF c = 9 THEN <<BS, 116>>
              ELSE IF c < 32 THEN <<BS, 117, 48, 48, Hex(c \div 16), Hex(c % 16)>> ELSE <<c>>
RECURSIVE EscAll(_)
EscAll(u) == IF u = <<>> THEN <<>> ELSE EscUnit(u[1]) \o EscAll(Tail(u))
QuoteStr(u) == <<Q>> \o EscAll(u) \o <<Q>>

RECURSIVE Zeros(_)
Zeros(n) == IF n <= 0 THEN <<>> ELSE <<48>> \o Zeros(n - 1)
RECURSIVE NatDigits(_)
NatDigits(n) == IF n < 10 THEN <<48 + n>> ELSE NatDigits(n \div 10) \o <<48 + (n % 10)>>
DigitUnits(ds) == [i \in 1..Len(ds) |-> 48 + ds[i]]

\* ECMAScript Number::toString layout from shortest digits ds (k = Len) and exponent n
Es6(neg, ds, n) ==
  LET k == Len(ds)
      d == DigitUnits(ds)
      body == IF k <= n /\ n <= 21 THEN d \o Zeros(n - k)
              ELSE IF 0 < n /\ n <= 21 THEN SubSeq(d, 1, n) \o <<46>> \o SubSeq(d, n + 1, k)
              ELSE IF -6 < n /\ n <= 0 THEN <<48, 46>> \o Zeros(0 - n) \o d
              ELSE (IF k = 1 THEN <<d[1]>> ELSE <<d[1], 46>> \o SubSeq(d, 2, k))
                   \o <<101>> \o (IF n - 1 < 0 THEN <<45>> \o NatDigits(1 - n) ELSE <<43>> \o NatDigits(n - 1))
  IN (IF neg THEN <<45>> ELSE <<>>) \o body

Refusal == <<-1>>       \* not text: the canonicalizer must refuse
RECURSIVE HasNonFinite(_)
HasNonFinite(v) == IF v.k \in {"nan", "inf"} THEN TRUE
                   ELSE IF v.k = "list" THEN \E i \in DOMAIN v.items : HasNonFinite(v.items[i])
                   ELSE IF v.k = "obj" THEN \E i \in DOMAIN v.vals : HasNonFinite(v.vals[i]) ELSE FALSE

SortedIdx(keys) == SortSeq([i \in 1..Len(keys) |-> i], LAMBDA i, j : LexLess(keys[i], keys[j]))

RECURSIVE CanonV(_), JoinItems(_, _), JoinMembers(_, _, _)
JoinItems(items, i) == IF i > Len(items) THEN <<>>
                       ELSE (IF i > 1 THEN <<44>> ELSE <<>>) \o CanonV(items[i]) \o JoinItems(items, i + 1)
JoinMembers(v, order, i) == IF i > Len(order) THEN <<>>
                            ELSE (IF i > 1 THEN <<44>> ELSE <<>>) \o QuoteStr(v.keys[order[i]]) \o <<58>> \o CanonV(v.vals[order[i]])
                                 \o JoinMembers(v, order, i + 1)
CanonV(v) == IF v.k = "null" THEN <<110, 117, 108, 108>>
             ELSE IF v.k = "bool" THEN (IF v.v THEN <<116, 114, 117, 101>> ELSE <<102, 97, 108, 115, 101>>)
             ELSE IF v.k = "str" THEN QuoteStr(v.u)
             ELSE IF v.k = "zero" THEN <<48>>
             ELSE IF v.k = "num" THEN Es6(v.neg, v.digits, v.n)
             ELSE IF v.k = "list" THEN <<91>> \o JoinItems(v.items, 1) \o <<93>>
             ELSE <<123>> \o JoinMembers(v, SortedIdx(v.keys), 1) \o <<125>>
Canon(v) == IF HasNonFinite(v) THEN Refusal ELSE CanonV(v)

-----------------------------------------------------------------------------
(* Reading canonical text back (a small JSON reader on code units) *)
IsDig(c) == c >= 48 /\ c <= 57
RECURSIVE Run(_, _)
Run(t, i) == IF i <= Len(t) /\ IsDig(t[i]) THEN 1 + Run(t, i + 1) ELSE 0
RECURSIVE NatVal(_, _, _)
NatVal(t, i, n) == IF n = 0 THEN 0 ELSE NatVal(t, i, n - 1) * 10 + (t[i + n - 1] - 48)
RECURSIVE StripLead(_)
StripLead(ds) == IF ds # <<>> /\ ds[1] = 0 THEN StripLead(Tail(ds)) ELSE ds
RECURSIVE StripTrail(_)
StripTrail(ds) == IF ds # <<>> /\ ds[Len(ds)] = 0 THEN StripTrail(SubSeq(ds, 1, Len(ds) - 1)) ELSE ds
HexVal(c) == IF c <= 57 THEN c - 48 ELSE c - 87

\* number at position i -> [v, next]
ParseNum(t, i) ==
  LET neg == t[i] = 45
      a == IF neg THEN i + 1 ELSE i
      ni == Run(t, a)
      hasF == a + ni <= Len(t) /\ t[a + ni] = 46
      nf == IF hasF THEN Run(t, a + ni + 1) ELSE 0
      b == a + ni + (IF hasF THEN 1 + nf ELSE 0)
      hasE == b <= Len(t) /\ t[b] = 101
      eneg == hasE /\ t[b + 1] = 45
      ne == IF hasE THEN Run(t, b + 2) ELSE 0
      ev == IF hasE THEN (IF eneg THEN 0 - NatVal(t, b + 2, ne) ELSE NatVal(t, b + 2, ne)) ELSE 0
      next == IF hasE THEN b + 2 + ne ELSE b
      all == [j \in 1..(ni + nf) |-> IF j <= ni THEN t[a + j - 1] - 48 ELSE t[a + ni + 1 + (j - ni) - 1] - 48]
      lead == Len(all) - Len(StripLead(all))
      ds == StripTrail(StripLead(all))
  IN IF ds = <<>> THEN [v |-> [k |-> "zero"], next |-> next]
     ELSE [v |-> [k |-> "num", neg |-> neg, digits |-> ds, n |-> ni - lead + ev], next |-> next]

RECURSIVE ParseStrBody(_, _)
ParseStrBody(t, i) ==      \* i just after the opening quote; returns [u, next] with next after the closing quote
  IF t[i] = Q THEN [u |-> <<>>, next |-> i + 1]
  ELSE IF t[i] = BS THEN
     LET c == t[i + 1] IN
     IF c = 117 THEN LET r == ParseStrBody(t, i + 6) IN
          [u |-> <<HexVal(t[i+2]) * 4096 + HexVal(t[i+3]) * 256 + HexVal(t[i+4]) * 16 + HexVal(t[i+5])>> \o r.u, next |-> r.next]
     ELSE LET r == ParseStrBody(t, i + 2)
              x == IF c = 98 THEN 8 ELSE IF c = 102 THEN 12 ELSE IF c = 110 THEN 10 ELSE IF c = 114 THEN 13 ELSE IF c = 116 THEN 9 ELSE c
          IN [u |-> <<x>> \o r.u, next |-> r.next]
  ELSE LET r == ParseStrBody(t, i + 1) IN [u |-> <<t[i]>> \o r.u, next |-> r.next]

RECURSIVE ParseVal(_, _), ParseItems(_, _, _), ParseMembers(_, _, _, _)
ParseItems(t, i, acc) ==     \* i at first item or ']'
  IF t[i] = 93 THEN [v |-> [k |-> "list", items |-> acc], next |-> i + 1]
  ELSE LET r == ParseVal(t, IF t[i] = 44 THEN i + 1 ELSE i) IN ParseItems(t, r.next, Append(acc, r.v))
ParseMembers(t, i, ks, vs) ==
  IF t[i] = 125 THEN [v |-> [k |-> "obj", keys |-> ks, vals |-> vs], next |-> i + 1]
  ELSE LET j == IF t[i] = 44 THEN i + 1 ELSE i
           kk == ParseStrBody(t, j + 1)
           r == ParseVal(t, kk.next + 1)
       IN ParseMembers(t, r.next, Append(ks, kk.u), Append(vs, r.v))
ParseVal(t, i) ==
  IF t[i] = 110 THEN [v |-> [k |-> "null"], next |-> i + 4]
  ELSE IF t[i] = 116 THEN [v |-> [k |-> "bool", v |-> TRUE], next |-> i + 4]
  ELSE IF t[i] = 102 THEN [v |-> [k |-> "bool", v |-> FALSE], next |-> i + 5]
  ELSE IF t[i] = Q THEN LET r == ParseStrBody(t, i + 1) IN [v |-> [k |-> "str", u |-> r.u], next |-> r.next]
  ELSE IF t[i] = 91 THEN ParseItems(t, i + 1, <<>>)
  ELSE IF t[i] = 123 THEN ParseMembers(t, i + 1, <<>>, <<>>)
  ELSE ParseNum(t, i)
Parse(t) == ParseVal(t, 1).v

\* the value with every object's members in canonical order (what a reader of the canonical text gets)
RECURSIVE Sorted(_)
Sorted(v) == IF v.k = "list" THEN [v EXCEPT !.items = [i \in DOMAIN v.items |-> Sorted(v.items[i])]]
             ELSE IF v.k = "obj" THEN LET o == SortedIdx(v.keys) IN
                  [k |-> "obj", keys |-> [i \in DOMAIN o |-> v.keys[o[i]]], vals |-> [i \in DOMAIN o |-> Sorted(v.vals[o[i]])]]
             ELSE v

\* whitespace outside strings never occurs in Canon output: checked on the token level by reading back and re-writing
-----------------------------------------------------------------------------
(* State machine: canonicalize, read back, canonicalize again *)
CONSTANT Values
VARIABLES phase, val, text, back, text2
vars == <<phase, val, text, back, text2>>
Init == phase = "in" /\ val \in Values /\ text = <<>> /\ back = [k |-> "null"] /\ text2 = <<>>
DoCanon == phase = "in" /\ phase' = "text" /\ text' = Canon(val) /\ UNCHANGED <<val, back, text2>>
DoParse == phase = "text" /\ text # Refusal /\ phase' = "parsed" /\ back' = Parse(text) /\ UNCHANGED <<val, text, text2>>
DoAgain == phase = "parsed" /\ phase' = "text2" /\ text2' = Canon(back) /\ UNCHANGED <<val, text, back>>
Next == DoCanon \/ DoParse \/ DoAgain
Spec == Init /\ [][Next]_vars

InvRefusal == phase = "text" => (text = Refusal <=> HasNonFinite(val))
InvParsesBack == phase \in {"parsed", "text2"} => back = Sorted(val)
InvFixedPoint == phase = "text2" => text2 = text
\* no insignificant whitespace: scan the text, tracking whether we are inside a string
RECURSIVE NoWsOutside(_, _, _)
NoWsOutside(t, i, inStr) ==
  IF i > Len(t) THEN TRUE
  ELSE IF inStr THEN (IF t[i] = BS THEN NoWsOutside(t, i + 2, TRUE) ELSE NoWsOutside(t, i + 1, t[i] # Q))
  ELSE t[i] \notin {32, 9, 10, 13} /\ NoWsOutside(t, i + 1, t[i] = Q)
InvNoWhitespace == phase = "text" /\ text # Refusal => NoWsOutside(text, 1, FALSE)
\* output independent of member insertion order
OrderIndependent(S) == \A v \in S : Canon(v) = Canon(Sorted(v))
=============================================================================
