SPECIFICATION TraceSpec
CONSTANTS
  Inputs = {}
  PCs = {}
INVARIANT Done
CHECK_DEADLOCK FALSE
