------------------------------ MODULE Stix2System ------------------------------
(***************************************************************************)
(* Composition of the sub-system specifications on ONE population of       *)
(* objects: a caller holds handles to object versions and applies, in any  *)
(* order, the public operations that the other modules specify one by one  *)
(*   versioning (Versioning.tla)      new_version, revoke                  *)
(*   data markings (Markings.tla)     add/remove/clear, object and granular*)
(*   selectors (Selectors.tla)        a selector must address something    *)
(*   object model (ObjectModel.tla)   serialize + parse, deep copy         *)
(*   stores (DataStore.tla)           memory store, filesystem store,      *)
(*                                    their federation, an environment     *)
(*   frame (Frame.tla)                nothing that exists is ever changed  *)
(* What the separate modules cannot say is how these interact: every       *)
(* marking operation is a versioning step (clock, fudge, revoked objects), *)
(* a versioning step re-validates the selectors of the markings it keeps,  *)
(* stores must hand back versions with their markings and their revoked    *)
(* flag, the newest version of a chain produced by *any* operation is the  *)
(* one a lookup returns.  Each action is one public call; `last` is what   *)
(* the call answered.                                                      *)
(*                                                                         *)
(* An object version is a record                                           *)
(*   [id, created, modified, revoked, name, desc, om, gm]                  *)
(*   modified : microseconds relative to a base instant                    *)
(*   desc     : "absent" or a value;   name : a value (required property)  *)
(*   om       : set of marking ids (object_marking_refs)                   *)
(*   gm       : set of <<selector, marking id>> (granular_markings)        *)
(* The spec version of an object is a function of its id (SpecVersion).    *)
(***************************************************************************)
EXTENDS Integers, Sequences, FiniteSets, TLC

CONSTANTS Ids, SpecVersion, Marks, Vals, Deltas, MaxHandles, MaxClock

Sels == {"name", "description"}
Stores == {"mem", "fs"}
Range(s) == { s[i] : i \in DOMAIN s }

V(o) == SpecVersion[o.id]
Prec(v) == IF v = "2.0" THEN 1000 ELSE 1
Trunc(v, t) == (t \div Prec(v)) * Prec(v)
\* versioning._fudge_modified followed by the cleaning of the property (2.0: millisecond precision, exact)
Fudge(v, old, now) == IF v = "2.1" THEN (IF now <= old THEN old + 1 ELSE now)
                      ELSE (IF now - old < 1000 THEN old + 1000 ELSE Trunc(v, now))
\* the instant a reader of the serialized text sees, in units of the spec version's precision
Ser(o) == o.modified \div Prec(V(o))

\* Selectors.tla, restricted to the two properties of the model
Addresses(o, sel) == IF sel = "name" THEN TRUE ELSE o.desc # "absent"
Dangling(o) == \E p \in o.gm : ~Addresses(o, p[1])

Err(e) == [k |-> "err", e |-> e]
Ok(o) == [k |-> "ok", obj |-> o]
Same == [k |-> "same"]

\* versioning.new_version as every producer of versions reaches it: revoked objects refuse, the clock is read once,
\* the new object is constructed (and with it the selectors of all granular markings it carries are validated again)
Versioned(o, ch, now) ==
  IF o.revoked THEN Err("RevokeError")
  ELSE LET n == ch @@ [o EXCEPT !.modified = Fudge(V(o), o.modified, now)] IN
       IF Dangling(n) THEN Err("InvalidSelectorError") ELSE Ok(n)

-----------------------------------------------------------------------------
(* the operations, as functions of the object and the clock reading *)
NewVersion(o, ch, now) == Versioned(o, ch, now)
Revoke(o, now) == Versioned(o, [revoked |-> TRUE], now)
AddOM(o, m, now) == Versioned(o, [om |-> o.om \cup {m}], now)
RemoveOM(o, m, now) == IF o.om = {} THEN Same
                       ELSE IF m \notin o.om THEN Err("MarkingNotFoundError")
                       ELSE Versioned(o, [om |-> o.om \ {m}], now)
ClearOM(o, now) == Versioned(o, [om |-> {}], now)
\* set = clear then add: two versioning steps
SetOM(o, m, now) == LET c == ClearOM(o, now) IN IF c.k = "err" THEN c ELSE AddOM(c.obj, m, now)
AddGM(o, sel, m, now) == IF ~Addresses(o, sel) THEN Err("InvalidSelectorError")
                         ELSE Versioned(o, [gm |-> o.gm \cup {<<sel, m>>}], now)
RemoveGM(o, sel, m, now) == IF ~Addresses(o, sel) THEN Err("InvalidSelectorError")
                            ELSE IF o.gm = {} THEN Same
                            ELSE IF <<sel, m>> \notin o.gm THEN Err("MarkingNotFoundError")
                            ELSE Versioned(o, [gm |-> o.gm \ {<<sel, m>>}], now)
ClearGM(o, sel, now) == IF ~Addresses(o, sel) THEN Err("InvalidSelectorError")
                        ELSE IF o.gm = {} THEN Same
                        ELSE IF ~\E p \in o.gm : p[1] = sel THEN Err("MarkingNotFoundError")
                        ELSE Versioned(o, [gm |-> { p \in o.gm : p[1] # sel }], now)
\* set = clear then add (two versioning steps when the clearing part does something; its refusals are the call's refusals)
SetGM(o, sel, m, now) == LET c == ClearGM(o, sel, now) IN
                         IF c.k = "err" THEN c ELSE AddGM(IF c.k = "same" THEN o ELSE c.obj, sel, m, now)

\* the marking queries (Markings.tla) on the composed object
GetMarkings(o, sel) == IF sel = "" THEN o.om ELSE { p[2] : p \in { q \in o.gm : q[1] = sel } }
GetInherited(o, sel) == GetMarkings(o, sel) \cup o.om

-----------------------------------------------------------------------------
(* reads of a set of stored versions: "a scan of the data" (DataStore.tla) *)
Key(o) == <<o.id, o.modified>>
Newest(S, id) == { o \in S : o.id = id /\ \A p \in S : p.id = id => p.modified <= o.modified }
AllVersions(S, id) == { o \in S : o.id = id }
\* filters the composed state can tell apart: [f |-> "revoked", v] [f |-> "om", v] [f |-> "gmref", v] [f |-> "name", v] [f |-> "desc", v] [f |-> "id", v]
Holds(f, o) == IF f.f = "revoked" THEN o.revoked = f.v
               ELSE IF f.f = "om" THEN f.v \in o.om
               ELSE IF f.f = "gmref" THEN \E p \in o.gm : p[2] = f.v
               ELSE IF f.f = "gmsel" THEN \E p \in o.gm : p[1] = f.v
               ELSE IF f.f = "name" THEN o.name = f.v
               ELSE IF f.f = "desc" THEN o.desc = f.v
               ELSE IF f.f = "id" THEN o.id = f.v
               ELSE FALSE
Query(S, F) == { o \in S : \A f \in F : Holds(f, o) }

-----------------------------------------------------------------------------
VARIABLES heap,     \* sequence of object versions the caller holds (handles 1..Len)
          kind,     \* how handle i came about: "create" | "version" | "same" (the call answered its argument) | "copy" (round trip, deep copy, read from a store)
          par,      \* the handle it was derived from (0 for "create")
          store,    \* Stores -> set of object versions
          clock,    \* the wall clock (microseconds)
          last      \* what the last call answered
vars == <<heap, kind, par, store, clock, last>>

Push(o, k, p) == heap' = Append(heap, o) /\ kind' = Append(kind, k) /\ par' = Append(par, p)

Init == heap = <<>> /\ kind = <<>> /\ par = <<>> /\ store = [s \in Stores |-> {}] /\ clock = 0 /\ last = [op |-> [k |-> "none"]]

Tick(d) == clock' = clock + d /\ clock' <= MaxClock /\ last' = [op |-> [k |-> "tick", d |-> d]] /\ UNCHANGED <<heap, kind, par, store>>

Create(id, ds, oms) ==
  /\ ~\E i \in DOMAIN heap : heap[i].id = id
  /\ Push([id |-> id, created |-> Trunc(SpecVersion[id], clock), modified |-> Trunc(SpecVersion[id], clock), revoked |-> FALSE,
           name |-> CHOOSE x \in Vals : TRUE, desc |-> ds, om |-> oms, gm |-> {}], "create", 0)
  /\ last' = [op |-> [k |-> "create", id |-> id], res |-> "ok"]
  /\ UNCHANGED <<store, clock>>

\* a call on handle h that answers r (one of Ok / Same / Err)
Call(h, op, r) ==
  /\ IF r.k = "ok" THEN Push(r.obj, "version", h)
     ELSE IF r.k = "same" THEN Push(heap[h], "same", h)
     ELSE UNCHANGED <<heap, kind, par>>
  /\ last' = [op |-> op, h |-> h, res |-> IF r.k = "err" THEN r.e ELSE r.k]
  /\ UNCHANGED <<store, clock>>

Mutate(h) ==
  LET o == heap[h] IN
  \/ \E nm \in Vals : Call(h, [k |-> "new_version", name |-> nm, desc |-> "keep"], NewVersion(o, [name |-> nm], clock))
  \/ \E ds \in Vals \cup {"absent"} : Call(h, [k |-> "new_version", name |-> "keep", desc |-> ds], NewVersion(o, [desc |-> ds], clock))
  \/ Call(h, [k |-> "revoke"], Revoke(o, clock))
  \/ \E m \in Marks : \/ Call(h, [k |-> "add_om", m |-> m], AddOM(o, m, clock))
                      \/ Call(h, [k |-> "remove_om", m |-> m], RemoveOM(o, m, clock))
                      \/ Call(h, [k |-> "set_om", m |-> m], SetOM(o, m, clock))
  \/ Call(h, [k |-> "clear_om"], ClearOM(o, clock))
  \/ \E m \in Marks, sel \in Sels : \/ Call(h, [k |-> "add_gm", m |-> m, sel |-> sel], AddGM(o, sel, m, clock))
                                    \/ Call(h, [k |-> "remove_gm", m |-> m, sel |-> sel], RemoveGM(o, sel, m, clock))
                                    \/ Call(h, [k |-> "set_gm", m |-> m, sel |-> sel], SetGM(o, sel, m, clock))
  \/ \E sel \in Sels : Call(h, [k |-> "clear_gm", sel |-> sel], ClearGM(o, sel, clock))

\* serialize + parse, deep copy, a bundle round trip: an equal object
Copy(h, how) == Push(heap[h], "copy", h) /\ last' = [op |-> [k |-> how], h |-> h, res |-> "ok"] /\ UNCHANGED <<store, clock>>

\* additions.  Named restriction (NoConflict): a version whose key (id, modified) a store already holds with *different* content -- two branches
\* cut from one parent at one clock reading -- is not added; what stores do with such producer errors is outside the listed properties.
\* The filesystem sink refuses to overwrite a version it holds (DataSourceError), the memory sink keeps one copy.
StoreAdd(s, h) ==
  LET o == heap[h] IN
  /\ \A s2 \in Stores : \A p \in store[s2] : Key(p) = Key(o) => p = o      \* NoConflict, across the federation: the other store holding the other branch is the same producer error
  /\ IF s = "fs" /\ o \in store[s]
     THEN store' = store /\ last' = [op |-> [k |-> "add", s |-> s], h |-> h, res |-> "DataSourceError"]
     ELSE store' = [store EXCEPT ![s] = @ \cup {o}] /\ last' = [op |-> [k |-> "add", s |-> s], h |-> h, res |-> "ok"]
  /\ UNCHANGED <<heap, kind, par, clock>>

\* a store closed and opened again: the memory store saved to a file and loaded into a fresh one, a fresh filesystem store on the same directory.  Nothing changes (C11:
\* "what comes out equals what went in, also after saving a memory store to a file and loading it again") -- with markings, revoked flags and every version
Reopen(s) == last' = [op |-> [k |-> "reopen", s |-> s], res |-> "ok"] /\ UNCHANGED <<heap, kind, par, store, clock>>

\* reads; src is a store or "composite" (the federation of both, also what an environment over both answers)
Content(src) == IF src = "composite" THEN store["mem"] \cup store["fs"] ELSE store[src]
Read(src, rd, ans) == last' = [op |-> [k |-> "read", src |-> src, rd |-> rd], res |-> ans] /\ UNCHANGED <<heap, kind, par, store, clock>>
Reads(Filters) ==
  \E src \in Stores \cup {"composite"} :
     \/ \E id \in Ids : \/ Read(src, [k |-> "get", id |-> id], Newest(Content(src), id))
                        \/ Read(src, [k |-> "all_versions", id |-> id], AllVersions(Content(src), id))
     \/ \E F \in Filters : Read(src, [k |-> "query", F |-> F], Query(Content(src), F))

\* a lookup hands the caller an object: it becomes a handle like any other
Fetch(src, id) ==
  /\ Newest(Content(src), id) # {}
  /\ Push(CHOOSE o \in Newest(Content(src), id) : TRUE, "copy", 0)
  /\ last' = [op |-> [k |-> "fetch", src |-> src, id |-> id], res |-> "ok"]
  /\ UNCHANGED <<store, clock>>

CONSTANTS FilterSets,
          WithReads     \* reads change nothing but `last`: an exhaustive run leaves them out (their answers are functions of the state, which the invariants quantify over)
Next == \/ \E d \in Deltas : Tick(d)
        \/ /\ Len(heap) < MaxHandles
           /\ \/ \E id \in Ids, ds \in Vals \cup {"absent"}, oms \in SUBSET Marks : Create(id, ds, oms)
              \/ \E h \in DOMAIN heap : Mutate(h) \/ (\E how \in {"roundtrip", "deepcopy", "bundle"} : Copy(h, how))
              \/ \E src \in Stores \cup {"composite"}, id \in Ids : Fetch(src, id)
        \/ \E s \in Stores, h \in DOMAIN heap : StoreAdd(s, h)
        \/ (WithReads /\ \E s \in Stores : store[s] # {} /\ Reopen(s))
        \/ (WithReads /\ Reads(FilterSets))
Spec == Init /\ [][Next]_vars

-----------------------------------------------------------------------------
(* What must hold of the composition *)
Versions == [id : Ids, created : Nat, modified : Nat, revoked : BOOLEAN, name : Vals, desc : Vals \cup {"absent"},
             om : SUBSET Marks, gm : SUBSET (Sels \X Marks)]
TypeOK == /\ \A i \in DOMAIN heap : heap[i] \in Versions
          /\ DOMAIN kind = DOMAIN heap /\ DOMAIN par = DOMAIN heap
          /\ \A s \in Stores : store[s] \subseteq Versions

\* C13: nothing that exists is ever changed -- handles are only appended
Frame == [][\A i \in DOMAIN heap : i \in DOMAIN heap' /\ heap'[i] = heap[i]]_vars
\* C05 through every producer of versions (versioning and all marking operations): strictly newer, also as serialized; identity kept
ChainMonotone == \A i \in DOMAIN heap : kind[i] = "version" =>
                   LET a == heap[par[i]] n == heap[i] IN
                   /\ n.modified > a.modified /\ Ser(n) > Ser(a)
                   /\ n.id = a.id /\ n.created = a.created
\* C05: nothing descends from a revoked version; a revoked version is answered unchanged at most
RevokedTerminal == \A i \in DOMAIN heap : kind[i] = "version" => ~heap[par[i]].revoked
\* C08 as a system invariant: no reachable object carries a selector that addresses nothing
NoDangling == \A i \in DOMAIN heap : ~Dangling(heap[i])
\* C01 / C13: copies are equal to their originals
CopiesEqual == \A i \in DOMAIN heap : kind[i] \in {"same", "copy"} /\ par[i] # 0 => heap[i] = heap[par[i]]
\* C11: stores hold only what was handed to them, nothing is lost, a key determines the content
StoredWereAdded == \A s \in Stores : store[s] \subseteq Range(heap)
NothingLost == [][\A s \in Stores : store[s] \subseteq store'[s]]_vars
KeysUnique == \A s \in Stores : \A a, b \in store[s] : Key(a) = Key(b) => a = b
\* C11 x C05: when a stored version has a stored descendant (by any chain of operations), a lookup never answers the ancestor
RECURSIVE Anc(_)
Anc(i) == IF kind[i] = "create" \/ par[i] = 0 THEN {} ELSE {par[i]} \cup Anc(par[i])
LookupNeverStale == \A s \in Stores \cup {"composite"} : \A i \in DOMAIN heap : \A j \in Anc(i) :
                       (heap[i] \in Content(s) /\ heap[j] \in Content(s) /\ heap[i].modified # heap[j].modified) => heap[j] \notin Newest(Content(s), heap[i].id)
\* C18: the federation answers as the union; its newest is at least as new as each member's
FederationNewest == \A id \in Ids : \A s \in Stores : \A o \in Newest(store[s], id) : \A c \in Newest(Content("composite"), id) : c.modified >= o.modified
\* C07 x C05: a marking operation changes markings only; a versioning operation keeps all markings
MarkingsOnlyByMarkingOps ==
  \A i \in DOMAIN heap : kind[i] = "version" =>
      LET a == heap[par[i]] n == heap[i] IN
      (n.om # a.om \/ n.gm # a.gm) => (n.name = a.name /\ n.desc = a.desc /\ n.revoked = a.revoked)
=============================================================================
