---- MODULE MC_FsOptimizer ----
EXTENDS FsOptimizer, Json, IOUtils
\* three types (one of them not stored), five ids
MCTypes == {1, 2, 3}
MCIds == {11, 12, 21, 22, 31}
MCTypeOf == [i \in MCIds |-> i \div 10]
F(p, op, v) == [prop |-> p, op |-> op, val |-> v]
MCAlphabet == { F("type", op, v) : op \in {"=", "!=", "<", "<=", ">", ">=", "contains"}, v \in {1, 2} }
         \cup { F("type", "in", s) : s \in {{}, {1}, {1, 2}, {2, 3}} }
         \cup { F("id", op, v) : op \in {"=", "!=", ">=", "<"}, v \in {11, 21, 22} }
         \cup { F("id", "in", s) : s \in {{}, {11}, {11, 21}, {21, 22}, {12, 31}} }
\* S2: every filter sequence with the objects that must be returned, for replay through FileSystemSource.query
RECURSIVE Seqs(_)
Seqs(n) == IF n = 0 THEN {<<>>} ELSE LET S == Seqs(n - 1) IN S \cup { Append(s, f) : s \in { x \in S : Len(x) = n - 1 }, f \in MCAlphabet }
Table(n) == { [fs |-> s, expect |-> { id \in MCIds : SatSeq(s, MCTypeOf[id], id) }, opened |-> { id \in MCIds : Visited(Opt(s), MCTypeOf[id], id) }] : s \in Seqs(n) }
ASSUME IF "OUT_FILE" \in DOMAIN IOEnv THEN JsonSerialize(IOEnv.OUT_FILE, [rows |-> Table(2)]) ELSE TRUE
====
