---- MODULE Trace_Patterns ----
(* Trace validation for C09 and C10.  Lines (ASTs in the shape of PatternSem.tla; "invocab" says whether the bounded universe
   can judge their meaning):
     kind = "pair"   : p, q, verdict (equivalent_patterns), expect ("equiv" for a documented rewrite of p, "none" otherwise)
     kind = "norm"   : p, q = the library's normal form of p
     kind = "relation": refl, sym, trans, find_ok (harness-evaluated laws on verdict matrices of one batch)
     kind = "total"  : exc = what escaped equivalent_patterns on valid patterns ("none" required)
     kind = "print"  : p = generator's AST, q = projection of the parsed text, r = projection of the re-parse of its printout,
                       same_pq / same_qr (structure equal up to redundant grouping: evaluated by TLC (SameStructure) inside the vocabulary, by the harness outside it), fixed (str is a fixed point),
                       parse_ok, reparse_ok *)
EXTENDS PatternPrint, Json, IOUtils, TLCExt
TraceLog == ndJsonDeserialize(IOEnv.TRACE_FILE)
VARIABLE l
Rej(e, c) == PrintT(<<"REJECT", l, e.kind, c>>)

(* Constants of pairs outside the integer vocabulary are renamed jointly into it by the harness (same number exactly for constants that denote the same value).  Where the
   denotation is defined by text the library documents -- an address block denotes its network, a registry name is case-insensitive -- the renaming is re-computed here
   from the raw constant (consts: a sequence of [id, kind, bits, plen, units]), so that it does not rest on the harness alone:
     kind "cidr": bits = the address as a sequence of 0/1 (32 or 128 long), plen = prefix length; the network is the first plen bits
     kind "istr": units = code units of the text; ASCII letters compare without case
     kind "other": units = an opaque key computed by the harness (exact numbers, decoded bytes, instants): equal keys, equal value *)
Lower(u) == IF u >= 65 /\ u <= 90 THEN u + 32 ELSE u
SameDenotation(a, b) ==
  IF a.kind # b.kind THEN FALSE
  ELSE IF a.kind = "cidr" THEN Len(a.bits) = Len(b.bits) /\ a.plen = b.plen /\ \A i \in 1..a.plen : a.bits[i] = b.bits[i]
  ELSE IF a.kind = "istr" THEN Len(a.units) = Len(b.units) /\ \A i \in DOMAIN a.units : Lower(a.units[i]) = Lower(b.units[i])
  ELSE a.units = b.units
RenamingFaithful(e) == ~("consts" \in DOMAIN e) \/ \A i, j \in DOMAIN e.consts : (e.consts[i].id = e.consts[j].id) = SameDenotation(e.consts[i], e.consts[j])
TraceInit == l = 1
TraceNext ==
  /\ l <= Len(TraceLog)
  /\ LET e == TraceLog[l] IN
     IF e.kind = "pair" THEN
        /\ IF ~RenamingFaithful(e) THEN Rej(e, "HARNESS:renaming_not_faithful") ELSE TRUE          \* a harness error, not a verdict on the library
        /\ IF e.invocab /\ e.verdict /\ ~Same(e.p, e.q) THEN Rej(e, "C09:reported_equivalent_but_match_different_observations") ELSE TRUE
        /\ IF e.invocab /\ e.expect = "equiv" /\ ~e.verdict /\ Same(e.p, e.q) THEN Rej(e, "C09:documented_rewrite_not_recognised") ELSE TRUE
     ELSE IF e.kind = "norm" THEN
        (IF e.invocab /\ ~Same(e.p, e.q) THEN Rej(e, "C09:normalisation_changes_meaning") ELSE TRUE)
     ELSE IF e.kind = "relation" THEN
        /\ IF ~e.refl THEN Rej(e, "C09:not_reflexive") ELSE TRUE
        /\ IF ~e.sym THEN Rej(e, "C09:not_symmetric") ELSE TRUE
        /\ IF ~e.trans THEN Rej(e, "C09:not_transitive") ELSE TRUE
        /\ IF ~e.find_ok THEN Rej(e, "C09:find_equivalent_patterns_differs_from_pairwise") ELSE TRUE
     ELSE IF e.kind = "total" THEN
        (IF e.exc # "none" THEN Rej(e, "C09:equivalence_test_failed_on_valid_patterns") ELSE TRUE)
     ELSE IF e.kind = "print" THEN
        /\ IF ~e.parse_ok THEN Rej(e, "C10:valid_pattern_not_parsed_into_model")
           ELSE /\ IF (IF e.invocab THEN ~SameStructure(e.p, e.q) ELSE ~e.same_pq) THEN Rej(e, "C10:model_differs_from_pattern_text") ELSE TRUE
                /\ IF e.invocab /\ ~Same(e.p, e.q) THEN Rej(e, "C10:parsed_model_has_another_meaning") ELSE TRUE
                /\ IF ~e.reparse_ok THEN Rej(e, "C10:printed_model_is_not_a_valid_pattern")
                   ELSE /\ IF (IF e.invocab THEN ~SameStructure(e.q, e.r) ELSE ~e.same_qr) THEN Rej(e, "C10:print_then_parse_changes_structure") ELSE TRUE
                        /\ IF e.invocab /\ ~Same(e.q, e.r) THEN Rej(e, "C10:printed_model_has_another_meaning") ELSE TRUE
                        /\ IF ~e.fixed THEN Rej(e, "C10:printing_not_a_fixed_point") ELSE TRUE
     ELSE TRUE
  /\ l' = l + 1
TraceSpec == TraceInit /\ [][TraceNext]_l
Done == l = Len(TraceLog) + 1 => PrintT(<<"DONE", Len(TraceLog)>>)
====
