SPECIFICATION GenSpec
CONSTANTS
  Names <- SmallNames
  NameInfo <- MCNameInfo
  Builtins <- MCBuiltins
  Depth = 2
CONSTRAINT GenBound
INVARIANT Emit
CHECK_DEADLOCK FALSE
