---- MODULE Trace_Registry ----
(* Trace validation for C19.  One line = one observed operation on the real registries:
     op \in {"register","parse","lookup","propname"}, cat, name, v, info (character classes of the name), res,
     pre, post : the registries projected to the names of this trace (version -> category -> name -> tag), nxt : next fresh tag.
   Clauses: result and post-state as the specification's Reg1 prescribes; lookups and parses answer from the registry
   of exactly that version; nothing but a successful registration changes the registries; continuity between lines. *)
EXTENDS Registry, Json, IOUtils, TLCExt
TraceLog == ndJsonDeserialize(IOEnv.TRACE_FILE)
VARIABLE l
tvars == <<vars, l>>
\* JSON objects -> functions; an empty JSON object arrives as an empty sequence
Fn(x) == IF x = <<>> THEN [n \in {} |-> 0] ELSE x
View(r) == [v \in Versions |-> [c \in Cats |-> Fn(r[v][c])]]
Rej(e, c) == PrintT(<<"REJECT", l, e.op, c>>)
TraceInit == l = 1 /\ reg = <<>> /\ next = 1 /\ last = [op |-> "none"]
CheckRegister(e, pre, post) ==
  LET x == Reg1(pre, e.nxt, e.cat, e.name, e.v, e.info) IN
  IF Lenient(e.v, e.info) THEN (IF e.res # "ok" /\ post # pre THEN Rej(e, "failed_registration_changed_registry") ELSE TRUE)
  ELSE IF x.res = "InvalidName" /\ e.res = "ok" THEN Rej(e, "invalid_name_accepted")
  ELSE IF x.res = "Duplicate" /\ e.res = "ok" THEN Rej(e, "duplicate_accepted")
  ELSE IF x.res = "ok" /\ e.res # "ok" THEN Rej(e, "valid_registration_refused")
  ELSE IF post # x.reg THEN Rej(e, IF x.res = "ok" THEN "registry_not_updated_exactly" ELSE "failed_registration_changed_registry")
  ELSE TRUE
TraceNext ==
  /\ l <= Len(TraceLog)
  /\ LET e == TraceLog[l]
         pre == View(e.pre)
         post == View(e.post) IN
     /\ IF l > 1 /\ e.tid = TraceLog[l - 1].tid /\ pre # View(TraceLog[l - 1].post) THEN Rej(e, "registry_changed_between_calls") ELSE TRUE
     /\ IF e.op = "register" THEN CheckRegister(e, pre, post)
        ELSE IF e.op = "propname" THEN
             (IF ~PropNameOK(e.v, e.info) /\ e.res = "ok" THEN Rej(e, "invalid_property_name_accepted")
              ELSE IF PropNameOK(e.v, e.info) /\ e.res # "ok" THEN Rej(e, "valid_property_name_refused") ELSE TRUE)
        ELSE /\ IF post # pre THEN Rej(e, "query_changed_registry") ELSE TRUE
             /\ IF e.op = "parse" /\ e.res # ParseTag(pre, e.name, e.v) THEN Rej(e, "parse_not_registered_class") ELSE TRUE
             /\ IF e.op = "lookup" /\ e.res # LookupTag(pre, e.cat, e.name, e.v) THEN Rej(e, "lookup_not_registered_class") ELSE TRUE
     /\ reg' = post /\ next' = e.nxt /\ last' = [op |-> e.op]
  /\ l' = l + 1
TraceSpec == TraceInit /\ [][TraceNext]_tvars
Done == l = Len(TraceLog) + 1 => PrintT(<<"DONE", Len(TraceLog)>>)
====
