------------------------------- MODULE Registry -------------------------------
(***************************************************************************)
(* C19 -- custom type registration (registration.py, registry.py,           *)
(* custom.py, properties._validate_type).                                   *)
(*                                                                         *)
(* reg[v][cat] : name -> class tag, for v in {"2.0","2.1"} and the four     *)
(* categories the registry is organised in.  Built-in types carry tag 0;    *)
(* the k-th successful custom registration carries tag k.                   *)
(* Names are opaque strings; NameInfo gives the character-class sequence    *)
(* (and length) the naming rules look at.                                   *)
(***************************************************************************)
EXTENDS Integers, Sequences, FiniteSets, TLC

Versions == {"2.0", "2.1"}
Cats == {"objects", "observables", "markings", "extensions"}
CharClasses == {"lower", "upper", "digit", "hyphen", "underscore", "other", "newline"}

\* ---- naming rules (STIX 2.0 part 1 s. 3.? / STIX 2.1 s. 11 "Customizing STIX": a-z, 0-9, hyphen; 3..250 characters;
\*      2.1 additionally: must begin with a-z).  info = [cs |-> <<classes>>, len |-> n, dbl |-> has two hyphens in a row, ext |-> ends with "-ext" or is an
\*      extension-definition id]
TypeNameOK(v, info) ==
  /\ \A i \in DOMAIN info.cs : info.cs[i] \in {"lower", "digit", "hyphen"}
  /\ info.len >= 3 /\ info.len <= 250
  /\ v = "2.1" => info.cs[1] = "lower"
\* the specification is silent / only advisory on these, so they carry no obligation either way
Lenient(v, info) == info.dbl          \* two hyphens in a row
NameValid(cat, v, info) == TypeNameOK(v, info) /\ (cat = "extensions" /\ v = "2.1" => info.ext)

\* property names, 2.1: a-z, 0-9, underscore, begins with a-z, 3..250 (2.0 imposes nothing the library is bound to check)
PropNameOK(v, info) ==
  v = "2.0" \/ ( /\ \A i \in DOMAIN info.cs : info.cs[i] \in {"lower", "digit", "underscore"}
                 /\ info.cs[1] = "lower" /\ info.len >= 3 /\ info.len <= 250 )

-----------------------------------------------------------------------------
CONSTANTS Names, NameInfo, Builtins     \* Builtins[v][cat] : set of built-in names (from the model's universe)
VARIABLES reg, next, last
vars == <<reg, next, last>>

Init == /\ reg = [v \in Versions |-> [c \in Cats |-> [n \in Builtins[v][c] |-> 0]]]
        /\ next = 1 /\ last = [op |-> "none"]

\* one registration as a function of the registry: [res, reg, next]
Reg1(r, nxt, cat, name, v, info) ==
  IF ~NameValid(cat, v, info) THEN [res |-> "InvalidName", reg |-> r, next |-> nxt]
  ELSE IF name \in DOMAIN r[v][cat] THEN [res |-> "Duplicate", reg |-> r, next |-> nxt]
  ELSE [res |-> "ok", next |-> nxt + 1,
        reg |-> [r EXCEPT ![v][cat] = [n \in (DOMAIN @) \cup {name} |-> IF n = name THEN nxt ELSE @[n]]]]

Register(cat, name, v) ==
  LET x == Reg1(reg, next, cat, name, v, NameInfo[name]) IN
  /\ reg' = x.reg /\ next' = x.next
  /\ last' = [op |-> "register", cat |-> cat, name |-> name, v |-> v, res |-> x.res]

\* what parsing content of that type name, shaped for version v, dispatches to
ParseTag(r, name, v) == IF name \in DOMAIN r[v]["objects"] THEN r[v]["objects"][name]
                        ELSE IF name \in DOMAIN r[v]["observables"] THEN r[v]["observables"][name] ELSE -1
LookupTag(r, cat, name, v) == IF name \in DOMAIN r[v][cat] THEN r[v][cat][name] ELSE -1

Parse(name, v) == last' = [op |-> "parse", name |-> name, v |-> v, res |-> ParseTag(reg, name, v)] /\ UNCHANGED <<reg, next>>
Lookup(cat, name, v) == last' = [op |-> "lookup", cat |-> cat, name |-> name, v |-> v, res |-> LookupTag(reg, cat, name, v)] /\ UNCHANGED <<reg, next>>

Next == \E name \in Names, v \in Versions :
          \/ \E cat \in Cats : Register(cat, name, v) \/ Lookup(cat, name, v)
          \/ Parse(name, v)
Spec == Init /\ [][Next]_vars

-----------------------------------------------------------------------------
Cells == Versions \X Cats
\* a successful registration adds exactly name |-> fresh tag to exactly one cell; everything else is a no-op on the registry
ExactlyOne == [][ IF last'.op = "register" /\ last'.res = "ok"
                  THEN /\ reg'[last'.v][last'.cat][last'.name] = next
                       /\ DOMAIN reg'[last'.v][last'.cat] = DOMAIN reg[last'.v][last'.cat] \cup {last'.name}
                       /\ last'.name \notin DOMAIN reg[last'.v][last'.cat]
                       /\ \A c \in Cells : c # <<last'.v, last'.cat>> => reg'[c[1]][c[2]] = reg[c[1]][c[2]]
                  ELSE reg' = reg ]_vars
\* no existing mapping, built-in or custom, ever changes or disappears
Exclusive == [][ \A c \in Cells : \A n \in DOMAIN reg[c[1]][c[2]] :
                    n \in DOMAIN reg'[c[1]][c[2]] /\ reg'[c[1]][c[2]][n] = reg[c[1]][c[2]][n] ]_vars
\* names that break the naming rules never enter the registry
OnlyValidNames == \A c \in Cells : \A n \in DOMAIN reg[c[1]][c[2]] : reg[c[1]][c[2]][n] = 0 \/ NameValid(c[2], c[1], NameInfo[n])
\* tags are unique: one registration, one cell
TagsUnique == \A c, d \in Cells : \A n \in DOMAIN reg[c[1]][c[2]], m \in DOMAIN reg[d[1]][d[2]] :
                 (reg[c[1]][c[2]][n] # 0 /\ reg[c[1]][c[2]][n] = reg[d[1]][d[2]][m]) => (c = d /\ n = m)
=============================================================================
