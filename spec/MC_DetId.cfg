SPECIFICATION DSpec
CONSTANTS
  Values = {}
  Objects <- MCObjects
  Perms <- MCPerms
  NonContribEdits <- MCNon
  ContribEdits <- MCCon
INVARIANT SameIdWhenSameContributors
INVARIANT DifferentIdWhenContributorsDiffer
INVARIANT RandomIffNothingContributes
CHECK_DEADLOCK FALSE
