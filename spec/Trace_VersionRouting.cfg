SPECIFICATION TraceSpec
CONSTANTS
  Entries = {}
  Forms = {}
  Shapes = {}
INVARIANT Done
CHECK_DEADLOCK FALSE
