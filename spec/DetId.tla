-------------------------------- MODULE DetId --------------------------------
(***************************************************************************)
(* C06 -- deterministic identifiers of STIX 2.1 cyber-observables           *)
(* (base.py: _Observable._generate_id, _choose_one_hash,                    *)
(* _make_json_serializable; v21/observables.py: the contributing lists;     *)
(* canonicalization/).                                                      *)
(*                                                                         *)
(* An observable is [type, props] with props a tagged JSON object (module   *)
(* CanonJson: keys/vals in insertion order) of the properties as they are   *)
(* serialized.  The identifier is  type "--" UUIDv5(namespace, Preimage)    *)
(* where Preimage is the RFC 8785 text of the contributing view; the SHA-1  *)
(* step is outside the specification (applied by the harness).              *)
(***************************************************************************)
EXTENDS CanonJson

\* STIX 2.1, "ID Contributing Properties" of each SCO section
Contrib == [ artifact |-> {"hashes", "payload_bin"},
             autonomous_system |-> {"number"},
             directory |-> {"path"},
             domain_name |-> {"value"},
             email_addr |-> {"value"},
             email_message |-> {"from_ref", "subject", "body"},
             file |-> {"hashes", "name", "extensions", "parent_directory_ref"},
             ipv4_addr |-> {"value"}, ipv6_addr |-> {"value"}, mac_addr |-> {"value"},
             mutex |-> {"name"},
             network_traffic |-> {"start", "end", "src_ref", "dst_ref", "src_port", "dst_port", "protocols", "extensions"},
             process |-> {},
             software |-> {"name", "cpe", "swid", "vendor", "version"},
             url |-> {"value"},
             user_account |-> {"account_type", "user_id", "account_login"},
             windows_registry_key |-> {"key", "values"},
             x509_certificate |-> {"hashes", "serial_number"} ]

U(s) == s      \* names are given as code-unit sequences by the harness; this module compares them through a table
\* hash preference: MD5, SHA-1, SHA-256, SHA-512, else the first one listed
HashPref == << <<77, 68, 53>>, <<83, 72, 65, 45, 49>>, <<83, 72, 65, 45, 50, 53, 54>>, <<83, 72, 65, 45, 53, 49, 50>> >>
IndexOf(keys, k) == IF \E i \in DOMAIN keys : keys[i] = k THEN CHOOSE i \in DOMAIN keys : keys[i] = k ELSE 0
ChooseHash(h) ==       \* h: tagged object of hash name -> value
  LET hit == { p \in DOMAIN HashPref : IndexOf(h.keys, HashPref[p]) # 0 } IN
  IF h.keys = <<>> THEN h
  ELSE LET i == IF hit # {} THEN IndexOf(h.keys, HashPref[CHOOSE p \in hit : \A q \in hit : p <= q]) ELSE 1
       IN [k |-> "obj", keys |-> <<h.keys[i]>>, vals |-> <<h.vals[i]>>]

\* names of properties arrive as code units; NameOf maps a contributing property's name to units (supplied per case by the harness
\* as the record field "names": name string -> units) -- the view keeps the members whose key is the units of a contributing name
\* registered custom observables declare their own list (field "contrib"); built-in types use the specification's table
ContribOf(o) == IF "contrib" \in DOMAIN o THEN { o.contrib[i] : i \in DOMAIN o.contrib } ELSE Contrib[o.type]
View(o) ==
  LET want == { o.names[n] : n \in (ContribOf(o) \cap DOMAIN o.names) }
      idx == SelectSeq([i \in DOMAIN o.props.keys |-> i], LAMBDA i : o.props.keys[i] \in want)
      hashesKey == IF "hashes" \in DOMAIN o.names THEN o.names["hashes"] ELSE <<-1>>
  IN [k |-> "obj",
      keys |-> [j \in DOMAIN idx |-> o.props.keys[idx[j]]],
      vals |-> [j \in DOMAIN idx |-> IF o.props.keys[idx[j]] = hashesKey THEN ChooseHash(o.props.vals[idx[j]]) ELSE o.props.vals[idx[j]]]]
IdKind(o) == IF View(o).keys = <<>> THEN "uuid4" ELSE "uuid5"
Preimage(o) == Canon(View(o))

-----------------------------------------------------------------------------
(* State machine over one observable: create, then transformations that must / must not change the identifier *)
CONSTANTS Objects,        \* starting observables
          Perms,          \* Perms[o] : re-orderings of o (arguments, members, hash entries) -- same content
          NonContribEdits,\* NonContribEdits[o] : o with a non-contributing property added / changed / removed
          ContribEdits    \* ContribEdits[o] : o with a contributing value changed
VARIABLES cur, orig, step
dvars == <<cur, orig, step>>
DInit == cur \in Objects /\ orig = cur /\ step = "create"
       /\ phase = "x" /\ val = [k |-> "null"] /\ text = <<>> /\ back = [k |-> "null"] /\ text2 = <<>>
DNext == /\ step = "create" /\ UNCHANGED <<orig, vars>>
         /\ \/ \E p \in Perms[orig] : cur' = p /\ step' = "permute"
            \/ \E p \in NonContribEdits[orig] : cur' = p /\ step' = "noncontrib"
            \/ \E p \in ContribEdits[orig] : cur' = p /\ step' = "contrib"
DSpec == DInit /\ [][DNext]_<<dvars, vars>>

SameIdWhenSameContributors == step \in {"permute", "noncontrib"} => (Preimage(cur) = Preimage(orig) /\ IdKind(cur) = IdKind(orig))
DifferentIdWhenContributorsDiffer == step = "contrib" /\ IdKind(cur) = "uuid5" => Preimage(cur) # Preimage(orig)
RandomIffNothingContributes == IdKind(cur) = "uuid4" <=> ~\E i \in DOMAIN cur.props.keys : cur.props.keys[i] \in { cur.names[n] : n \in (ContribOf(cur) \cap DOMAIN cur.names) }
=============================================================================
