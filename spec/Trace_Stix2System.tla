---- MODULE Trace_Stix2System ----
(* Trace validation for the composition (code -> spec).  The first line of the log is a header [ids |-> <<[id, v], ...>>] (the spec version of every object id that occurs);
   every other line is one observed public call:
     mutators  [kind |-> "mut", op, now, pre, res, post]      res: "ok" | "same" | error class;  post = pre unless res = "ok"
     additions [kind |-> "add", s, S, obj, res]                S: what the store held before the call
     reads     [kind |-> "read", rd, S, ans]                   S: what the source (store or federation) held
   The answer the specification's operators give for the logged pre-state, arguments and clock reading is re-computed and compared.  Total: a line that differs prints
   REJECT + clause and the walk continues. *)
EXTENDS Stix2System, Json, IOUtils, TLCExt
TraceLog == ndJsonDeserialize(IOEnv.TRACE_FILE)
ToSet(s) == { s[i] : i \in DOMAIN s }
Header == TraceLog[1]
TraceIds == { r.id : r \in ToSet(Header.ids) }
TraceSpecVersion == [x \in TraceIds |-> (CHOOSE r \in ToSet(Header.ids) : r.id = x).v]
VARIABLE l
MCTraceMarks == {"m1", "m2", "m3"}
MCTraceVals == {"a", "b"}
MCTraceDeltas == {0}
MCTraceFilterSets == {{}}
tvars == <<vars, l>>

ObjOf(r) == [id |-> r.id, created |-> r.created, modified |-> r.modified, revoked |-> r.revoked, name |-> r.name, desc |-> r.desc,
             om |-> ToSet(r.om), gm |-> { <<p[1], p[2]>> : p \in ToSet(r.gm) }]
Empty == [x \in {} |-> 0]
ChOf(op) == (IF op.name # "keep" THEN [name |-> op.name] ELSE Empty) @@ (IF op.desc # "keep" THEN [desc |-> op.desc] ELSE Empty)
Expected(o, op, now) ==
  IF op.k = "new_version" THEN NewVersion(o, ChOf(op), now)
  ELSE IF op.k = "revoke" THEN Revoke(o, now)
  ELSE IF op.k = "add_om" THEN AddOM(o, op.m, now)
  ELSE IF op.k = "remove_om" THEN RemoveOM(o, op.m, now)
  ELSE IF op.k = "set_om" THEN SetOM(o, op.m, now)
  ELSE IF op.k = "clear_om" THEN ClearOM(o, now)
  ELSE IF op.k = "add_gm" THEN AddGM(o, op.sel, op.m, now)
  ELSE IF op.k = "remove_gm" THEN RemoveGM(o, op.sel, op.m, now)
  ELSE IF op.k = "set_gm" THEN SetGM(o, op.sel, op.m, now)
  ELSE IF op.k = "clear_gm" THEN ClearGM(o, op.sel, now)
  ELSE Err("unknown operation")
IsMarking(op) == op.k \notin {"new_version", "revoke"}
ResOf(x) == IF x.k = "err" THEN x.e ELSE x.k
MutClause(e) ==
  LET o == ObjOf(e.pre)  x == Expected(o, e.op, e.now)  n == ObjOf(e.post) IN
  IF ResOf(x) # e.res THEN
       (IF "InvalidSelectorError" \in {ResOf(x), e.res} THEN "C08:selector_verdict"
        ELSE IF IsMarking(e.op) THEN "C07:marking_operation_answer" ELSE "C05:versioning_answer")
  ELSE IF x.k = "ok" /\ n # x.obj THEN
       (IF [n EXCEPT !.modified = 0] = [x.obj EXCEPT !.modified = 0] THEN "C05:version_time"
        ELSE IF IsMarking(e.op) /\ [n EXCEPT !.om = {}, !.gm = {}] = [x.obj EXCEPT !.om = {}, !.gm = {}] THEN "C07:marking_operation_result"
        ELSE IF IsMarking(e.op) THEN "C07:marking_operation_touched_other_properties" ELSE "C05:versioning_result")
  \* the composition's step properties on the observed call itself (whatever the operators say)
  ELSE IF e.res = "ok" /\ ~(n.modified > o.modified /\ Ser(n) > Ser(o) /\ n.id = o.id /\ n.created = o.created) THEN "C05:not_strictly_newer_or_identity_lost"
  ELSE IF e.res = "ok" /\ o.revoked THEN "C05:revoked_object_versioned"
  ELSE IF e.res = "ok" /\ Dangling(n) THEN "C08:object_with_dangling_selector_produced"
  ELSE "none"
SetOf(q) == { ObjOf(q[i]) : i \in DOMAIN q }
NoDup(q) == \A i, j \in DOMAIN q : i # j => <<q[i].id, q[i].modified>> # <<q[j].id, q[j].modified>>
FOf(q) == { q[i] : i \in DOMAIN q }
Conflict(S, o) == \E p \in S : Key(p) = Key(o) /\ p # o
AddClause(e) ==
  LET S == SetOf(e.S)  o == ObjOf(e.obj) IN
  IF Conflict(S, o) THEN "none"            \* NoConflict: a producer error, outside the listed properties
  ELSE IF e.res # (IF e.s = "fs" /\ o \in S THEN "DataSourceError" ELSE "ok") THEN "C11:addition_answer"
  ELSE "none"
ReadClause(e) ==
  LET S == SetOf(e.S)  A == SetOf(e.ans)
      X == IF e.rd.k = "get" THEN Newest(S, e.rd.id) ELSE IF e.rd.k = "all_versions" THEN AllVersions(S, e.rd.id) ELSE { o \in S : \A i \in DOMAIN e.rd.F : Holds(e.rd.F[i], o) }     \* (Query, with the filters kept as the sequence they were logged in: their values are of different kinds)
      P == IF e.src = "composite" THEN "C18:" ELSE IF e.rd.k = "query" THEN "C12:" ELSE "C11:" IN
  IF \E a, b \in S : Key(a) = Key(b) /\ a # b THEN "none"
  ELSE IF A # X THEN P \o "read_" \o e.rd.k \o "_differs"
  ELSE IF ~NoDup(e.ans) THEN P \o "version_answered_twice"
  ELSE "none"

TraceInit == l = 2 /\ heap = <<>> /\ kind = <<>> /\ par = <<>> /\ store = [s \in Stores |-> {}] /\ clock = 0 /\ last = [op |-> [k |-> "none"]]
TraceNext ==
  /\ l <= Len(TraceLog)
  /\ LET e == TraceLog[l]
         cl == IF e.kind = "mut" THEN MutClause(e) ELSE IF e.kind = "add" THEN AddClause(e) ELSE IF e.kind = "read" THEN ReadClause(e) ELSE "none" IN
     IF cl # "none" THEN PrintT(<<"REJECT", l, e.kind, cl>>) ELSE TRUE
  /\ l' = l + 1 /\ UNCHANGED vars
TraceSpec == TraceInit /\ [][TraceNext]_tvars
Done == l = Len(TraceLog) + 1 => PrintT(<<"DONE", Len(TraceLog)>>)
====
