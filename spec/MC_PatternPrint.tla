---- MODULE MC_PatternPrint ----
(* S1 for C10: grouping as the specification places it preserves meaning and structure; S2: the enumerated ASTs with their token
   sequences, handed to the replayer (text -> create_pattern_object -> projection). *)
EXTENDS PatternPrint, Json, IOUtils
Cmp(p, op, c, n) == [k |-> "cmp", type |-> "a", prop |-> p, op |-> op, neg |-> n, const |-> c]
And(x, y) == [k |-> "and", args |-> <<x, y>>]   Or(x, y) == [k |-> "or", args |-> <<x, y>>]
O(e) == [k |-> "obs", e |-> e]
N2(k, x, y) == [k |-> k, args |-> <<x, y>>]
N3(k, x, y, z) == [k |-> k, args |-> <<x, y, z>>]
Q(e, q) == [k |-> "qual", e |-> e, q |-> q]
Rp(n) == [k |-> "repeats", n |-> n, s |-> 0, t1 |-> 0, t2 |-> 0]
Wi(s) == [k |-> "within", n |-> 0, s |-> s, t1 |-> 0, t2 |-> 0]
SS(a, b) == [k |-> "startstop", n |-> 0, s |-> 0, t1 |-> a, t2 |-> b]
CLeaves == { Cmp(p, op, 1, n) : p \in {"b"}, op \in {"=", "!=", "<", "<=", ">", ">="}, n \in BOOLEAN } \cup { Cmp("c", "IN", <<2, 1>>, n) : n \in BOOLEAN } \cup { Cmp("c", "=", 2, FALSE) }
C1 == { Cmp("b", "=", 1, FALSE), Cmp("c", "=", 2, FALSE), Cmp("b", ">", 1, TRUE) }
CDepth1 == C1 \cup { N2(k, x, y) : k \in {"and", "or"}, x \in C1, y \in C1 }
CDepth2 == { N2(k, x, y) : k \in {"and", "or"}, x \in { N2("and", Cmp("b", "=", 1, FALSE), Cmp("c", "=", 2, FALSE)), N2("or", Cmp("b", "=", 1, FALSE), Cmp("c", "=", 2, FALSE)) }, y \in {Cmp("b", "<=", 1, FALSE)} }
           \cup { N2(k, y, x) : k \in {"and", "or"}, x \in { N2("and", Cmp("b", "=", 1, FALSE), Cmp("c", "=", 2, FALSE)), N2("or", Cmp("b", "=", 1, FALSE), Cmp("c", "=", 2, FALSE)) }, y \in {Cmp("b", "<=", 1, FALSE)} }
           \cup { N3(k, Cmp("b", "=", 1, FALSE), N2(j, Cmp("c", "=", 1, FALSE), Cmp("c", "=", 2, FALSE)), Cmp("b", "=", 2, FALSE)) : k \in {"and", "or"}, j \in {"and", "or"} }
OLeaf == { O(c) : c \in CLeaves \cup CDepth2 }
O1 == { O(Cmp("b", "=", 1, FALSE)), O(Cmp("b", "=", 2, FALSE)), O(N2("or", Cmp("b", "=", 1, FALSE), Cmp("c", "=", 2, FALSE))) }
Quals == { Rp(1), Rp(2), Wi(0), Wi(1), SS(0, 1), SS(0, 2) }
OQ == { Q(o, q) : o \in { O(Cmp("b", "=", 1, FALSE)) }, q \in Quals }
ODepth1 == { N2(k, x, y) : k \in {"oand", "oor", "fb"}, x \in O1, y \in O1 }
ODepth2 == { N2(k, x, y) : k \in {"oand", "oor", "fb"}, x \in { N2(j, O(Cmp("b", "=", 1, FALSE)), O(Cmp("b", "=", 2, FALSE))) : j \in {"oand", "oor", "fb"} }, y \in { O(Cmp("c", "=", 1, FALSE)) } }
           \cup { N2(k, y, x) : k \in {"oand", "oor", "fb"}, x \in { N2(j, O(Cmp("b", "=", 1, FALSE)), O(Cmp("b", "=", 2, FALSE))) : j \in {"oand", "oor", "fb"} }, y \in { O(Cmp("c", "=", 1, FALSE)) } }
           \cup { Q(x, q) : x \in { N2(j, O(Cmp("b", "=", 1, FALSE)), O(Cmp("b", "=", 2, FALSE))) : j \in {"oand", "oor", "fb"} }, q \in Quals }
           \cup { Q(Q(O(Cmp("b", "=", 1, FALSE)), q1), q2) : q1 \in {Rp(2), Wi(1)}, q2 \in {Wi(0), SS(0, 2), Rp(1)} }
           \cup { N2(k, Q(O(Cmp("b", "=", 1, FALSE)), q), O(Cmp("b", "=", 2, FALSE))) : k \in {"oand", "oor", "fb"}, q \in {Rp(2), Wi(1)} }
Gen == OLeaf \cup OQ \cup ODepth1 \cup ODepth2
\* grouping placed by the specification preserves structure and meaning
ASSUME \A a \in Gen : SameStructure(Parenthesize(a), a)
ASSUME \A a \in ODepth1 \cup ODepth2 \cup OQ : Same(Parenthesize(a), a)
ASSUME \A a \in Gen : Norm(Norm(a)) = Norm(a)
\* ... while the same tokens without it would, for some AST, read as another tree (so grouping matters)
ASSUME \E a \in Gen : Toks(a) # Toks(Parenthesize(a))
ASSUME IF "OUT_FILE" \in DOMAIN IOEnv
       THEN JsonSerialize(IOEnv.OUT_FILE, [rows |-> { [ast |-> Parenthesize(a), tokens |-> Toks(Parenthesize(a))] : a \in Gen }])
       ELSE TRUE
VARIABLE x
Init == x = 0
Next == x' = x
====
