SPECIFICATION BadSpec
CONSTANTS
  MaxCells = 4
  Tokens = {"a", "b"}
PROPERTY NoMutation
CHECK_DEADLOCK FALSE
