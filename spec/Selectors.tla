------------------------------ MODULE Selectors ------------------------------
(***************************************************************************)
(* C08 -- what a granular-marking selector addresses                        *)
(* (markings/utils.py: iterpath, _evaluate_expression, validate;            *)
(* base.py: _check_object_constraints; properties.py: SelectorProperty).    *)
(*                                                                         *)
(* An object is a JSON tree:                                                *)
(*   [k |-> "obj", keys |-> <<names>>, vals |-> <<trees>>]                   *)
(*   [k |-> "list", items |-> <<trees>>]                                     *)
(*   [k |-> "leaf", v |-> token]     token: any scalar class ("str", "empty",*)
(*                                   "false", "zero", "true", "num", ...)    *)
(* A selector is a sequence of steps: a member name, or "[i]" for the i-th  *)
(* (0-based) list element.                                                  *)
(***************************************************************************)
EXTENDS Integers, Sequences, FiniteSets, TLC

RECURSIVE NatStr(_)
Digit(n) == CASE n = 0 -> "0" [] n = 1 -> "1" [] n = 2 -> "2" [] n = 3 -> "3" [] n = 4 -> "4"
              [] n = 5 -> "5" [] n = 6 -> "6" [] n = 7 -> "7" [] n = 8 -> "8" [] n = 9 -> "9"
NatStr(n) == IF n < 10 THEN Digit(n) ELSE NatStr(n \div 10) \o Digit(n % 10)
Idx(i) == "[" \o NatStr(i) \o "]"

\* every path into the tree -- independent of the values stored at the leaves, one path per list position
RECURSIVE Paths(_)
Paths(t) ==
  IF t.k = "obj" THEN UNION { {<<t.keys[i]>>} \cup { <<t.keys[i]>> \o p : p \in Paths(t.vals[i]) } : i \in DOMAIN t.keys }
  ELSE IF t.k = "list" THEN UNION { {<<Idx(i - 1)>>} \cup { <<Idx(i - 1)>> \o p : p \in Paths(t.items[i]) } : i \in DOMAIN t.items }
  ELSE {}

Addresses(t, sel) == sel \in Paths(t)

\* the node a selector addresses (for near-miss generation)
RECURSIVE Node(_, _)
Node(t, sel) == IF sel = <<>> THEN t
                ELSE IF t.k = "obj" THEN Node(t.vals[CHOOSE i \in DOMAIN t.keys : t.keys[i] = sel[1]], Tail(sel))
                ELSE Node(t.items[CHOOSE i \in DOMAIN t.items : Idx(i - 1) = sel[1]], Tail(sel))

\* near misses: absent member, index past the end, index on a non-list, member of a list, one step too deep
NearMisses(t) ==
  LET P == Paths(t) \cup {<<>>} IN
  UNION { LET n == Node(t, p) IN
          (IF n.k = "list" THEN {p \o <<Idx(Len(n.items))>>, p \o <<Idx(Len(n.items) + 7)>>, p \o <<"zzz">>}
           ELSE IF n.k = "obj" THEN {p \o <<"zzz">>, p \o <<Idx(0)>>}
           ELSE {p \o <<"zzz">>, p \o <<Idx(0)>>})
          : p \in P } \ (Paths(t) \cup {<<>>})

\* s is a proper ancestor of t in the path tree (by steps -- never by characters)
Anc(s, t) == Len(s) < Len(t) /\ SubSeq(t, 1, Len(s)) = s
=============================================================================
