---- MODULE Trace_Frame ----
(* Trace validation for C13.  One line = one public call observed by the recorder:
     op, args (per argument: name, unchanged), live (per previously created object: unchanged), refused (for assignment / deletion attempts),
     copy_equal / copy_disjoint (for deep copies), result_shares_argument_later (a change the caller made to its argument after the call showed in the result) *)
EXTENDS Integers, Sequences, TLC, Json, IOUtils, TLCExt
TraceLog == ndJsonDeserialize(IOEnv.TRACE_FILE)
VARIABLE l
Rej(e, c) == PrintT(<<"REJECT", l, e.op, c>>)
TraceInit == l = 1
TraceNext ==
  /\ l <= Len(TraceLog)
  /\ LET e == TraceLog[l] IN
     /\ IF \E i \in DOMAIN e.args : ~e.args[i].unchanged THEN Rej(e, "C13:argument_modified") ELSE TRUE
     /\ IF \E i \in DOMAIN e.live : ~e.live[i].unchanged THEN Rej(e, "C13:existing_object_modified") ELSE TRUE
     /\ IF e.kind = "mutate_attempt" /\ ~e.refused THEN Rej(e, "C13:assignment_or_deletion_not_refused") ELSE TRUE
     /\ IF e.kind = "deepcopy" /\ ~e.copy_equal THEN Rej(e, "C13:deep_copy_not_equal") ELSE TRUE
     /\ IF e.kind = "deepcopy" /\ ~e.copy_disjoint THEN Rej(e, "C13:deep_copy_shares_mutable_state") ELSE TRUE
  /\ l' = l + 1
TraceSpec == TraceInit /\ [][TraceNext]_l
Done == l = Len(TraceLog) + 1 => PrintT(<<"DONE", Len(TraceLog)>>)
====
