---- MODULE Neg_Registry_TTrace_1790404983 ----
EXTENDS Sequences, TLCExt, Toolbox, Naturals, TLC, Neg_Registry

_expression ==
    LET Neg_Registry_TEExpression == INSTANCE Neg_Registry_TEExpression
    IN Neg_Registry_TEExpression!expression
----

_trace ==
    LET Neg_Registry_TETrace == INSTANCE Neg_Registry_TETrace
    IN Neg_Registry_TETrace!trace
----

_inv ==
    ~(
        TLCGet("level") = Len(_TETrace)
        /\
        next = (3)
        /\
        last = ([cat |-> "objects", name |-> "x_aaa_ext", v |-> "2.0", op |-> "register", res |-> "ok"])
        /\
        reg = (("2.0" :> [objects |-> [x_aaa_ext |-> 2, identity |-> 0], observables |-> [file |-> 0], markings |-> [statement |-> 0], extensions |-> [ntfs_ext |-> 0]] @@ "2.1" :> [objects |-> [identity |-> 0], observables |-> [file |-> 0], markings |-> [statement |-> 0], extensions |-> [ntfs_ext |-> 0]]))
    )
----

_init ==
    /\ reg = _TETrace[1].reg
    /\ last = _TETrace[1].last
    /\ next = _TETrace[1].next
----

_next ==
    /\ \E i,j \in DOMAIN _TETrace:
        /\ \/ /\ j = i + 1
              /\ i = TLCGet("level")
        /\ reg  = _TETrace[i].reg
        /\ reg' = _TETrace[j].reg
        /\ last  = _TETrace[i].last
        /\ last' = _TETrace[j].last
        /\ next  = _TETrace[i].next
        /\ next' = _TETrace[j].next

\* Uncomment the ASSUME below to write the states of the error trace
\* to the given file in Json format. Note that you can pass any tuple
\* to `JsonSerialize`. For example, a sub-sequence of _TETrace.
    \* ASSUME
    \*     LET J == INSTANCE Json
    \*         IN J!JsonSerialize("Neg_Registry_TTrace_1790404983.json", _TETrace)

=============================================================================

 Note that you can extract this module `Neg_Registry_TEExpression`
  to a dedicated file to reuse `expression` (the module in the 
  dedicated `Neg_Registry_TEExpression.tla` file takes precedence 
  over the module `Neg_Registry_TEExpression` below).

---- MODULE Neg_Registry_TEExpression ----
EXTENDS Sequences, TLCExt, Toolbox, Naturals, TLC, Neg_Registry

expression == 
    [
        \* To hide variables of the `Neg_Registry` spec from the error trace,
        \* remove the variables below.  The trace will be written in the order
        \* of the fields of this record.
        reg |-> reg
        ,last |-> last
        ,next |-> next
        
        \* Put additional constant-, state-, and action-level expressions here:
        \* ,_stateNumber |-> _TEPosition
        \* ,_regUnchanged |-> reg = reg'
        
        \* Format the `reg` variable as Json value.
        \* ,_regJson |->
        \*     LET J == INSTANCE Json
        \*     IN J!ToJson(reg)
        
        \* Lastly, you may build expressions over arbitrary sets of states by
        \* leveraging the _TETrace operator.  For example, this is how to
        \* count the number of times a spec variable changed up to the current
        \* state in the trace.
        \* ,_regModCount |->
        \*     LET F[s \in DOMAIN _TETrace] ==
        \*         IF s = 1 THEN 0
        \*         ELSE IF _TETrace[s].reg # _TETrace[s-1].reg
        \*             THEN 1 + F[s-1] ELSE F[s-1]
        \*     IN F[_TEPosition - 1]
    ]

=============================================================================



Parsing and semantic processing can take forever if the trace below is long.
 In this case, it is advised to uncomment the module below to deserialize the
 trace from a generated binary file.

\*
\*---- MODULE Neg_Registry_TETrace ----
\*EXTENDS IOUtils, TLC, Neg_Registry
\*
\*trace == IODeserialize("Neg_Registry_TTrace_1790404983.bin", TRUE)
\*
\*=============================================================================
\*

---- MODULE Neg_Registry_TETrace ----
EXTENDS TLC, Neg_Registry

trace == 
    <<
    ([next |-> 1,last |-> [op |-> "none"],reg |-> ("2.0" :> [objects |-> [identity |-> 0], observables |-> [file |-> 0], markings |-> [statement |-> 0], extensions |-> [ntfs_ext |-> 0]] @@ "2.1" :> [objects |-> [identity |-> 0], observables |-> [file |-> 0], markings |-> [statement |-> 0], extensions |-> [ntfs_ext |-> 0]])]),
    ([next |-> 2,last |-> [cat |-> "objects", name |-> "x_aaa_ext", v |-> "2.0", op |-> "register", res |-> "ok"],reg |-> ("2.0" :> [objects |-> [x_aaa_ext |-> 1, identity |-> 0], observables |-> [file |-> 0], markings |-> [statement |-> 0], extensions |-> [ntfs_ext |-> 0]] @@ "2.1" :> [objects |-> [identity |-> 0], observables |-> [file |-> 0], markings |-> [statement |-> 0], extensions |-> [ntfs_ext |-> 0]])]),
    ([next |-> 3,last |-> [cat |-> "objects", name |-> "x_aaa_ext", v |-> "2.0", op |-> "register", res |-> "ok"],reg |-> ("2.0" :> [objects |-> [x_aaa_ext |-> 2, identity |-> 0], observables |-> [file |-> 0], markings |-> [statement |-> 0], extensions |-> [ntfs_ext |-> 0]] @@ "2.1" :> [objects |-> [identity |-> 0], observables |-> [file |-> 0], markings |-> [statement |-> 0], extensions |-> [ntfs_ext |-> 0]])])
    >>
----


=============================================================================

---- CONFIG Neg_Registry_TTrace_1790404983 ----
CONSTANTS
    Names <- SmallNames
    NameInfo <- MCNameInfo
    Builtins <- MCBuiltins

INVARIANT
    _inv

CHECK_DEADLOCK
    \* CHECK_DEADLOCK off because of PROPERTY or INVARIANT above.
    FALSE

INIT
    _init

NEXT
    _next

CONSTANT
    _TETrace <- _trace

ALIAS
    _expression
=============================================================================
\* Generated on Sat Sep 26 06:43:05 UTC 2026