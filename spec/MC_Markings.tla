---- MODULE MC_Markings ----
EXTENDS Markings
\* selectors of the hazard object: two siblings one of whose names is a string prefix of the other, a list and its second
\* (duplicate-valued) element; a selector that addresses nothing
P1 == <<"pattern">>  P2 == <<"pattern_type">>  P3 == <<"labels">>  P4 == <<"labels", "[1]">>
MCSel == {P1, P2, P3, P4}
MCBad == {<<"labels", "[3]">>}
MCRefs == {"M1", "M2"}
MCLangs == {"L1"}
SmallSel == {P1, P2, P3, P4}
SmallRefs == {"M1"}
Bound == ver <= 3
MView == <<G, O, ver>>
====
