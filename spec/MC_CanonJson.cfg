SPECIFICATION Spec
CONSTANTS
  Values <- QuickValues
INVARIANT InvRefusal
INVARIANT InvParsesBack
INVARIANT InvFixedPoint
INVARIANT InvNoWhitespace
CHECK_DEADLOCK FALSE
