---- MODULE Neg_CanonJson_TTrace_1790402842 ----
EXTENDS Sequences, TLCExt, Neg_CanonJson, Toolbox, Naturals, TLC

_expression ==
    LET Neg_CanonJson_TEExpression == INSTANCE Neg_CanonJson_TEExpression
    IN Neg_CanonJson_TEExpression!expression
----

_trace ==
    LET Neg_CanonJson_TETrace == INSTANCE Neg_CanonJson_TETrace
    IN Neg_CanonJson_TETrace!trace
----

_inv ==
    ~(
        TLCGet("level") = Len(_TETrace)
        /\
        phase = ("text")
        /\
        val = ([keys |-> <<<<64307>>, <<55357, 56832>>>>, vals |-> <<[k |-> "num", neg |-> FALSE, n |-> 1, digits |-> <<1>>], [u |-> <<97>>, k |-> "str"]>>, k |-> "obj"])
        /\
        text2 = (<<>>)
        /\
        back = ([k |-> "null"])
        /\
        text = (<<123, 34, 64307, 34, 58, 49, 44, 34, 55357, 56832, 34, 58, 34, 97, 34, 125>>)
    )
----

_init ==
    /\ text2 = _TETrace[1].text2
    /\ back = _TETrace[1].back
    /\ text = _TETrace[1].text
    /\ phase = _TETrace[1].phase
    /\ val = _TETrace[1].val
----

_next ==
    /\ \E i,j \in DOMAIN _TETrace:
        /\ \/ /\ j = i + 1
              /\ i = TLCGet("level")
        /\ text2  = _TETrace[i].text2
        /\ text2' = _TETrace[j].text2
        /\ back  = _TETrace[i].back
        /\ back' = _TETrace[j].back
        /\ text  = _TETrace[i].text
        /\ text' = _TETrace[j].text
        /\ phase  = _TETrace[i].phase
        /\ phase' = _TETrace[j].phase
        /\ val  = _TETrace[i].val
        /\ val' = _TETrace[j].val

\* Uncomment the ASSUME below to write the states of the error trace
\* to the given file in Json format. Note that you can pass any tuple
\* to `JsonSerialize`. For example, a sub-sequence of _TETrace.
    \* ASSUME
    \*     LET J == INSTANCE Json
    \*         IN J!JsonSerialize("Neg_CanonJson_TTrace_1790402842.json", _TETrace)

=============================================================================

 Note that you can extract this module `Neg_CanonJson_TEExpression`
  to a dedicated file to reuse `expression` (the module in the 
  dedicated `Neg_CanonJson_TEExpression.tla` file takes precedence 
  over the module `Neg_CanonJson_TEExpression` below).

---- MODULE Neg_CanonJson_TEExpression ----
EXTENDS Sequences, TLCExt, Neg_CanonJson, Toolbox, Naturals, TLC

expression == 
    [
        \* To hide variables of the `Neg_CanonJson` spec from the error trace,
        \* remove the variables below.  The trace will be written in the order
        \* of the fields of this record.
        text2 |-> text2
        ,back |-> back
        ,text |-> text
        ,phase |-> phase
        ,val |-> val
        
        \* Put additional constant-, state-, and action-level expressions here:
        \* ,_stateNumber |-> _TEPosition
        \* ,_text2Unchanged |-> text2 = text2'
        
        \* Format the `text2` variable as Json value.
        \* ,_text2Json |->
        \*     LET J == INSTANCE Json
        \*     IN J!ToJson(text2)
        
        \* Lastly, you may build expressions over arbitrary sets of states by
        \* leveraging the _TETrace operator.  For example, this is how to
        \* count the number of times a spec variable changed up to the current
        \* state in the trace.
        \* ,_text2ModCount |->
        \*     LET F[s \in DOMAIN _TETrace] ==
        \*         IF s = 1 THEN 0
        \*         ELSE IF _TETrace[s].text2 # _TETrace[s-1].text2
        \*             THEN 1 + F[s-1] ELSE F[s-1]
        \*     IN F[_TEPosition - 1]
    ]

=============================================================================



Parsing and semantic processing can take forever if the trace below is long.
 In this case, it is advised to uncomment the module below to deserialize the
 trace from a generated binary file.

\*
\*---- MODULE Neg_CanonJson_TETrace ----
\*EXTENDS IOUtils, Neg_CanonJson, TLC
\*
\*trace == IODeserialize("Neg_CanonJson_TTrace_1790402842.bin", TRUE)
\*
\*=============================================================================
\*

---- MODULE Neg_CanonJson_TETrace ----
EXTENDS Neg_CanonJson, TLC

trace == 
    <<
    ([phase |-> "in",val |-> [keys |-> <<<<64307>>, <<55357, 56832>>>>, vals |-> <<[k |-> "num", neg |-> FALSE, n |-> 1, digits |-> <<1>>], [u |-> <<97>>, k |-> "str"]>>, k |-> "obj"],text2 |-> <<>>,back |-> [k |-> "null"],text |-> <<>>]),
    ([phase |-> "text",val |-> [keys |-> <<<<64307>>, <<55357, 56832>>>>, vals |-> <<[k |-> "num", neg |-> FALSE, n |-> 1, digits |-> <<1>>], [u |-> <<97>>, k |-> "str"]>>, k |-> "obj"],text2 |-> <<>>,back |-> [k |-> "null"],text |-> <<123, 34, 64307, 34, 58, 49, 44, 34, 55357, 56832, 34, 58, 34, 97, 34, 125>>])
    >>
----


=============================================================================

---- CONFIG Neg_CanonJson_TTrace_1790402842 ----
CONSTANTS
    Values <- NegValues

INVARIANT
    _inv

CHECK_DEADLOCK
    \* CHECK_DEADLOCK off because of PROPERTY or INVARIANT above.
    FALSE

INIT
    _init

NEXT
    _next

CONSTANT
    _TETrace <- _trace

ALIAS
    _expression
=============================================================================
\* Generated on Sat Sep 26 06:07:25 UTC 2026