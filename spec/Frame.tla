--------------------------------- MODULE Frame ---------------------------------
(***************************************************************************)
(* C13 -- library operations never modify their arguments or existing       *)
(* objects (base.py: __setattr__, __deepcopy__; properties.py defensive     *)
(* copies; parsing.parse_observable; versioning.new_version; markings/).    *)
(*                                                                         *)
(* A heap of mutable cells (the caller's dictionaries and lists, and the    *)
(* containers inside library objects).  A value is a sequence of tokens;    *)
(* an object is the set of cells it reaches.  Every library operation may   *)
(* allocate cells and read any cell, but the frame condition says that no   *)
(* cell that existed before the call has another value after it.           *)
(***************************************************************************)
EXTENDS Integers, Sequences, FiniteSets, TLC

CONSTANTS MaxCells, Tokens
VARIABLES heap,      \* cell -> value (sequence of tokens)
          caller,    \* cells owned by the caller (arguments it may pass again)
          objs,      \* library objects: sets of cells
          last
vars == <<heap, caller, objs, last>>
Cells == DOMAIN heap
Fresh(n) == { (Cardinality(Cells) + i) : i \in 1..n }
Alloc(vals) == [c \in Cells \cup Fresh(Len(vals)) |-> IF c \in Cells THEN heap[c] ELSE vals[c - Cardinality(Cells)]]

Min(S) == CHOOSE x \in S : \A y \in S : x <= y
L(op, c, o, new) == [op |-> op, c |-> c, o |-> o, new |-> new]
Init == heap = (1 :> <<"a">>) /\ caller = {1} /\ objs = {} /\ last = L("init", 0, 0, 1)
Room(n) == Cardinality(Cells) + n <= MaxCells

\* the caller makes a new container
CallerMakes(v) == Room(1) /\ heap' = Alloc(<<v>>) /\ caller' = caller \cup Fresh(1) /\ UNCHANGED objs /\ last' = L("caller_makes", 0, 0, Min(Fresh(1)))
\* the caller changes its own container between calls (allowed: it is the caller's)
CallerMutates(c, v) == c \in caller /\ heap' = [heap EXCEPT ![c] = v] /\ UNCHANGED <<caller, objs>> /\ last' = L("caller_mutates", c, 0, 0)
\* constructing / parsing from a caller container: the object works on its own copy
Construct(c) == c \in caller /\ Room(1) /\ heap' = Alloc(<<heap[c]>>) /\ objs' = objs \cup {Fresh(1)} /\ UNCHANGED caller /\ last' = L("construct", c, 0, Min(Fresh(1)))
\* new version / marking operation / revoke: copies of the object's cells, one of them changed
NewVersion(o, v) == o \in objs /\ Room(Cardinality(o)) /\ LET seqc == CHOOSE s \in [1..Cardinality(o) -> o] : \A i, j \in 1..Cardinality(o) : i # j => s[i] # s[j] IN
                      /\ heap' = Alloc([i \in 1..Cardinality(o) |-> IF i = 1 THEN v ELSE heap[seqc[i]]])
                      /\ objs' = objs \cup {Fresh(Cardinality(o))}
                    /\ UNCHANGED caller /\ last' = L("new_version", 0, Min(o), Min(Fresh(Cardinality(o))))
\* deep copy: equal content, no shared cell
DeepCopy(o) == o \in objs /\ Room(Cardinality(o)) /\ LET seqc == CHOOSE s \in [1..Cardinality(o) -> o] : \A i, j \in 1..Cardinality(o) : i # j => s[i] # s[j] IN
                 /\ heap' = Alloc([i \in 1..Cardinality(o) |-> heap[seqc[i]]])
                 /\ objs' = objs \cup {Fresh(Cardinality(o))}
               /\ UNCHANGED caller /\ last' = L("deepcopy", 0, Min(o), Min(Fresh(Cardinality(o))))
\* bundling / storing: a new object that gathers copies of what it is given
Gather(o, c) == o \in objs /\ c \in caller /\ Room(2) /\ heap' = Alloc(<<heap[c], heap[CHOOSE x \in o : TRUE]>>) /\ objs' = objs \cup {Fresh(2)} /\ UNCHANGED caller /\ last' = L("gather", c, Min(o), Min(Fresh(2)))
\* direct assignment / deletion on an object: refused, nothing changes
AssignRefused(o) == o \in objs /\ UNCHANGED <<heap, caller, objs>> /\ last' = L("assign_refused", 0, Min(o), 0)

Next == \/ \E v \in Tokens : CallerMakes(<<v>>)
        \/ \E c \in caller, v \in Tokens : CallerMutates(c, <<v>>)
        \/ \E c \in caller : Construct(c)
        \/ \E o \in objs, v \in Tokens : NewVersion(o, <<v>>)
        \/ \E o \in objs : DeepCopy(o) \/ AssignRefused(o)
        \/ \E o \in objs, c \in caller : Gather(o, c)
Spec == Init /\ [][Next]_vars

LibraryStep == last'.op \notin {"caller_makes", "caller_mutates"}
\* the frame condition: a library step leaves every existing cell as it was
NoMutation == [][LibraryStep => \A c \in Cells : c \in DOMAIN heap' /\ heap'[c] = heap[c]]_vars
\* library objects never share a cell with the caller or with each other (so a later change by the caller cannot reach them)
NoSharing == /\ \A o \in objs : o \cap caller = {}
             /\ \A o, p \in objs : o # p => o \cap p = {}
\* existing objects keep their cells: immutability as seen through the heap
ObjectsStable == [][objs \subseteq objs']_vars
=============================================================================
