SPECIFICATION Spec
CONSTANTS
  Types <- MCTypes
  Ids <- MCIds
  TypeOf <- MCTypeOf
  Alphabet <- MCAlphabet
INVARIANT BadSound
CHECK_DEADLOCK FALSE
