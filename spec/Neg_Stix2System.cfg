SPECIFICATION Spec
CONSTANT Versioned <- NegVersioned
CONSTANTS
  Ids <- MCOneId
  SpecVersion <- MCSpecVersion
  Marks <- MCMarks1
  Vals <- MCVals1
  Deltas <- MCDeltas
  MaxHandles = 3
  MaxClock = 1400
  FilterSets <- MCFilterSets
  WithReads = FALSE
VIEW MCView
INVARIANT TypeOK
INVARIANT ChainMonotone
INVARIANT RevokedTerminal
INVARIANT NoDangling
INVARIANT CopiesEqual
INVARIANT StoredWereAdded
INVARIANT KeysUnique
INVARIANT LookupNeverStale
INVARIANT FederationNewest
INVARIANT MarkingsOnlyByMarkingOps
PROPERTY Frame
PROPERTY NothingLost
CHECK_DEADLOCK FALSE
