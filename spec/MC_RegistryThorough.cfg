SPECIFICATION Spec
CONSTANTS
  Names <- MCNames
  NameInfo <- MCNameInfo
  Builtins <- MCBuiltins
CONSTRAINT Bound
VIEW RegView
INVARIANT OnlyValidNames
INVARIANT TagsUnique
PROPERTY ExactlyOne
PROPERTY Exclusive
CHECK_DEADLOCK FALSE
