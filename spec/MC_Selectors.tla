---- MODULE MC_Selectors ----
(* S1/S2 for C08: sanity of the path enumeration on a hazard tree, and -- for trees handed over by the harness --
   the complete candidate list (every path, every near miss) with the verdict the specification gives. *)
EXTENDS Selectors, Json, IOUtils
Leaf(v) == [k |-> "leaf", v |-> v]
Ob(ks, vs) == [k |-> "obj", keys |-> ks, vals |-> vs]
Li(xs) == [k |-> "list", items |-> xs]
Hazard == Ob(<<"empty", "flag", "labels", "name", "nested", "refs", "zero">>,
             << Leaf("empty"), Leaf("false"), Li(<<Leaf("str"), Leaf("str"), Leaf("str")>>), Leaf("str"),
                Ob(<<"inner">>, <<Ob(<<"deep">>, <<Leaf("zero")>>)>>),
                Li(<<Ob(<<"url">>, <<Leaf("str")>>), Ob(<<"url">>, <<Leaf("str")>>)>>), Leaf("zero") >>)
\* every property, every list position (also of equal elements), every nested key, whatever the value
ASSUME Paths(Hazard) = { <<"empty">>, <<"flag">>, <<"labels">>, <<"labels", "[0]">>, <<"labels", "[1]">>, <<"labels", "[2]">>, <<"name">>,
                         <<"nested">>, <<"nested", "inner">>, <<"nested", "inner", "deep">>, <<"refs">>, <<"refs", "[0]">>, <<"refs", "[0]", "url">>,
                         <<"refs", "[1]">>, <<"refs", "[1]", "url">>, <<"zero">> }
ASSUME NearMisses(Hazard) \cap Paths(Hazard) = {} /\ <<"labels", "[3]">> \in NearMisses(Hazard) /\ <<"zzz">> \in NearMisses(Hazard)
          /\ <<"name", "[0]">> \in NearMisses(Hazard) /\ <<"refs", "[0]", "zzz">> \in NearMisses(Hazard)
ASSUME \A s, t \in Paths(Hazard) : Anc(s, t) => Len(s) < Len(t)
Trees == IF "TREES_FILE" \in DOMAIN IOEnv THEN ndJsonDeserialize(IOEnv.TREES_FILE) ELSE <<>>
ASSUME IF "OUT_FILE" \in DOMAIN IOEnv
       THEN JsonSerialize(IOEnv.OUT_FILE, [i \in DOMAIN Trees |-> [paths |-> Paths(Trees[i].tree), near |-> NearMisses(Trees[i].tree)]])
       ELSE TRUE
VARIABLE x
Init == x = 0
Next == x' = x
====
