SPECIFICATION GenSpec
CONSTANTS
  Names <- MCNames
  NameInfo <- MCNameInfo
  Builtins <- MCBuiltins
  Depth = 6
CONSTRAINT GenBound
INVARIANT Emit
CHECK_DEADLOCK FALSE
