SPECIFICATION TraceSpec
CONSTANTS
  Universe = {}
  Forms = {}
  FilterAlphabet = {}
INVARIANT Done
CHECK_DEADLOCK FALSE
